"""shared by C01 / C04 / C05: graph + message generators and an independent integer-arithmetic reference coder"""
import numpy as np

import dsw
import gen

NUC = "ACGT"


def ref_encode(bits, rows, v, table, fast, limit):
    """the published scheme, written from the property text: integers only"""
    out = ""
    steps = 0
    if not fast:
        q = 0
        for b in bits:
            q = 2 * q + b
        while q != 0:
            live = [j for j in range(4) if rows[v][j] >= 0]
            d = len(live)
            if d == 0:
                return None
            if d == 1:
                j = live[0]
            else:
                digit, q = q % d, q // d
                order = live if table is None else sorted(live, key=lambda c: table[v][c])
                j = order[digit]
            out += NUC[j]
            v = rows[v][j]
            steps += 1
            if steps > limit:
                return None
        return out
    loc = 0
    while loc < len(bits):
        live = [j for j in range(4) if rows[v][j] >= 0]
        d = len(live)
        order = live if table is None else sorted(live, key=lambda c: table[v][c])
        if d == 4:
            digit = bits[loc] * 2 + (bits[loc + 1] if loc + 1 < len(bits) else 0)
            loc += 2
            j = order[digit]
        elif d == 2:
            j = order[bits[loc]]
            loc += 1
        elif d == 1:
            j = live[0]
        else:
            return None
        out += NUC[j]
        v = rows[v][j]
        steps += 1
        if steps > limit:
            return None
    return out


def walk_value(rows, v, table, s):
    """little-endian mixed-radix value of a walk"""
    digits = []
    for c in s:
        j = NUC.index(c)
        live = [x for x in range(4) if rows[v][x] >= 0]
        d = len(live)
        if d >= 2:
            order = live if table is None else sorted(live, key=lambda x: table[v][x])
            digits.append((d, order.index(j)))
        v = rows[v][j]
    val = 0
    for d, r in reversed(digits):
        val = val * d + r
    return val


def graph_case(rng, kmax, want_wf=True):
    k = rng.randint(1, kmax)
    kind = rng.choice(["coding1", "coding", "wf", "wf", "complete"])
    if kind == "coding1":
        rows = gen.coding_graph(rng, k, t=1)[2]
    elif kind == "coding":
        rows = gen.coding_graph(rng, k)[2]
    elif kind == "wf":
        rows = gen.wellformed_subset(rng, k)
    else:
        rows = gen.complete(k)
    v0 = rng.choice(gen.live_vertices(rows))
    return k, kind, rows, v0


def has_deg3(rows):
    return any(sum(1 for x in r if x >= 0) == 3 for r in rows)
