"""gen.py -- shared generators and protocol encoders for graphs, walks, messages, tables.
Everything is driven by the random.Random instance handed in, so a case replays exactly."""
import os
import zlib

import numpy as np

import dsw
from core import s2c

NUC = "ACGT"


# ------------------------------------------------------------------------------- encoders
def enc_acc(acc):
    return [int(x) for row in acc for x in row]


def enc_table(sh):
    return [] if sh is None else [int(x) for row in sh for x in row]


def enc_opt_str(s):
    return [] if s is None else [1] + s2c(s)


def enc_lmap(m):
    out = []
    for k in m:
        out += [int(k), len(m[k])] + [int(x) for x in m[k]]
    return out


def enc_groups(strs):
    out = []
    for s in strs:
        out += [len(s)] + s2c(s)
    return out


_BUFFERS = {}


def acc_array(rows, reuse=False, readonly_ok=True):
    """the accessor as an ndarray.  reuse=True hands out ONE long-lived array object per shape whose content is
    overwritten in place for every case: results must depend on the content of the arguments only, never on the identity
    or the history of the array object (stale memo / cache keyed by id())."""
    a = np.array(rows, dtype=int).reshape(-1, 4)
    if not reuse:
        # the MEMORY LAYOUT of an argument must not matter either: a share of the accessors (chosen by their content, so that a
        # replay builds the same object) is handed over column-major, or as a strided view of a wider table -- equal values,
        # equal shape and dtype, but ravel() / reshape() / ascontiguousarray() of them copy instead of aliasing
        if os.environ.get("VERIF_LAYOUT", "1") != "0" and a.size:
            h = zlib.crc32(a.tobytes()) % 8
            if h == 0:
                return np.asfortranarray(a)
            if h == 1:
                wide = np.zeros((a.shape[0], 8), dtype=int)
                wide[:, ::2] = a
                return wide[:, ::2]
            if h == 3:
                # a narrower integer type that still holds every vertex index (what a memory-conscious caller stores)
                top = int(a.shape[0])
                return a.astype(np.int8 if top <= 127 and zlib.crc32(a.tobytes() + b"n") % 2 else np.int16 if top <= 32767 else np.int32)
            if h == 2 and readonly_ok:
                a.setflags(write=False)        # read-only (numpy.frombuffer, a memory-mapped file): nothing but arc removal writes
                return a
        return a
    buf = _BUFFERS.get(a.shape)
    if buf is None:
        buf = _BUFFERS[a.shape] = a.copy()
    else:
        buf[:] = a
    return buf


# ------------------------------------------------------------------------------- graphs
def latters(v, k):
    return [(4 * v + j) % (4 ** k) for j in range(4)]


def formers(w, k):
    return [w // 4 + i * 4 ** (k - 1) for i in range(4)]


def complete(k):
    return [latters(v, k) for v in range(4 ** k)]


def induced(k, mask):
    n = 4 ** k
    return [[w if (mask[v] and mask[w]) else -1 for w in latters(v, k)] if mask[v] else [-1] * 4 for v in range(n)]


def random_mask(rng, k, density=None):
    if density is None:
        density = rng.choice([0.2, 0.35, 0.5, 0.65, 0.8, 0.9, 0.97])
    return [1 if rng.random() < density else 0 for _ in range(4 ** k)]


def closed_sets(k, mask, t):
    """independent greatest fixed point (+ reachability of a branching vertex for t = 1), with python sets"""
    x = set(i for i in range(4 ** k) if mask[i])
    while True:
        y = set(v for v in x if sum(1 for w in latters(v, k) if w in x) >= t)
        if t == 1:
            good = set(v for v in y if sum(1 for w in latters(v, k) if w in y) >= 2)
            changed = True
            while changed:
                changed = False
                for v in y:
                    if v not in good and any(w in good for w in latters(v, k) if w in y):
                        good.add(v)
                        changed = True
            y = good
        if y == x:
            return x
        x = y


def coding_graph(rng, k, t=None, tries=30):
    """a generated coding graph (python lists): (mask, t, rows) or None"""
    for _ in range(tries):
        tt = t if t is not None else rng.choice([1, 1, 2, 2, 3, 4])
        mask = random_mask(rng, k)
        x = closed_sets(k, mask, tt)
        if x:
            m2 = [1 if v in x else 0 for v in range(4 ** k)]
            return mask, tt, induced(k, m2)
    return [1] * (4 ** k), 2, complete(k)


def arc_subset(rng, k, keep=None):
    """any arc subset of the de Bruijn graph"""
    if keep is None:
        keep = rng.choice([0.0, 0.15, 0.4, 0.6, 0.8, 0.95, 1.0])
    return [[w if rng.random() < keep else -1 for w in latters(v, k)] for v in range(4 ** k)]


def trap_graph(rng, k):
    """funnel graphs: two to four disjoint short cycles (mostly 2-cycles) keep only their cycle arc, so a walk that enters one is
    trapped in it; the other vertices keep most arcs INTO cycle vertices and few arcs elsewhere.  Deep walk fronts then consist
    of trapped walks only and alternate between the same few vertices with changing multiplicities."""
    n = 4 ** k
    rows = [[-1] * 4 for _ in range(n)]
    on_cycle = {}
    for _ in range(rng.choice([2, 2, 3, 4])):
        c = rng.choice([1, 2, 2, 2, 2, 2, 3, 4])
        period = [rng.randrange(4) for _ in range(c)]
        reps = period * (k // c + 2)
        verts = []
        for i in range(c):
            w = reps[i:i + k]
            verts.append(sum(x * 4 ** (k - 1 - j) for j, x in enumerate(w)))
        if len(set(verts)) != c or any(v in on_cycle for v in verts):
            continue
        for i, v in enumerate(verts):
            on_cycle[v] = verts[(i + 1) % c]
    q_in = rng.choice([0.6, 0.8, 1.0])
    q_out = rng.choice([0.1, 0.25, 0.4])
    for v in range(n):
        for j, w in enumerate(latters(v, k)):
            if v in on_cycle:
                if w == on_cycle[v]:
                    rows[v][j] = w
            elif w in on_cycle:
                if rng.random() < q_in:
                    rows[v][j] = w
            elif w != v and rng.random() < q_out:
                rows[v][j] = w
    return rows


def debruijn_cycle(rng, m):
    """a random cyclic de Bruijn sequence of order m over 0..3 (every m-mer exactly once): random Eulerian circuit of the
    order-(m-1) graph by Hierholzer with shuffled arc lists"""
    if m == 0:
        return [0]
    n = 4 ** (m - 1)
    out = {v: rng.sample(range(4), 4) for v in range(n)}
    stack, circuit = [0], []
    while stack:
        v = stack[-1]
        if out[v]:
            x = out[v].pop()
            stack.append((v * 4 + x) % n if n > 1 else 0)
        else:
            circuit.append(stack.pop())
    circuit.reverse()                       # vertices (m-1)-mers; consecutive ones overlap: the letters are the last digits
    return [v % 4 for v in circuit[1:]] if m > 1 else rng.sample(range(4), 4)


def chain_mask(rng, k, length=None):
    """vertex mask of order k whose induced graph is one long out-degree-1 chain (consecutive k-mers of a de Bruijn sequence
    of order k-1: all (k-1)-prefixes distinct) that runs into a small branching core (x^k and the cycle of x^(k-1)y), plus a
    few random extra vertices: the deepest possible trimming cascades / reachability searches for its size"""
    m = k - 1
    seq = debruijn_cycle(rng, m) if m >= 1 else [0]
    L = len(seq)
    x = rng.randrange(4)
    y = rng.choice([c for c in range(4) if c != x])
    # rotate so that the sequence (read cyclically) ends with x^m
    dbl = seq + seq
    end = next((i for i in range(L, 2 * L) if all(dbl[i - j] == x for j in range(m))), 2 * L - 1)
    want = length if length is not None else rng.choice([L // 4, L // 2, (3 * L) // 4, L - 1, L - 1, rng.randint(1, max(1, L - 1))])
    want = max(1, min(want, L - 1))
    letters = [dbl[(end - want - m + 1 + i) % (2 * L)] for i in range(want + m)] if m >= 1 else [x]
    mask = [0] * (4 ** k)
    for i in range(len(letters) - k + 1):
        mask[sum(c * 4 ** (k - 1 - j) for j, c in enumerate(letters[i:i + k]))] = 1
    core = [x] * (k - 1) + [y] + [x] * (k - 1)
    for i in range(k):
        mask[sum(c * 4 ** (k - 1 - j) for j, c in enumerate(core[i:i + k]))] = 1
    mask[sum(x * 4 ** j for j in range(k))] = 1
    for v in rng.sample(range(4 ** k), rng.choice([0, 0, 1, 3])):
        mask[v] = 1
    return mask


def core_with_tails(rng, k):
    """vertex mask: a closed branching core (all k-mers over 2 or 3 letters) with forward trees of one common depth hanging off
    it (each exit vertex appends a letter outside the core alphabet; the trees branch 1- or 2-fold and end in dead ends): under
    threshold 1 whole layers of the trees die in the same sweep, several successors of one core vertex at once."""
    d = rng.choice([2, 2, 3])
    letters = rng.sample(range(4), d)
    outside = [c for c in range(4) if c not in letters]
    n = 4 ** k
    mask = [1 if all(((v // 4 ** i) % 4) in letters for i in range(k)) else 0 for v in range(n)]
    depth = rng.choice([k - 1, k, k + 1, k + 2])
    q = rng.choice([0.15, 0.3, 0.6])
    frontier = []
    for g in range(n):
        if mask[g] and rng.random() < q:
            for c in outside:
                if rng.random() < 0.75:
                    frontier.append((4 * g + c) % n)
    for f in frontier:
        mask[f] = 1
    for _ in range(depth):
        nxt = []
        for f in frontier:
            for c in rng.sample(range(4), rng.choice([1, 1, 2])):
                w = (4 * f + c) % n
                if not mask[w]:
                    mask[w] = 1
                    nxt.append(w)
        frontier = nxt
    return mask


def funnel_mask(rng, k):
    """vertex mask: a small live branching core (all k-mers over two letters) and DOOMED sibling chains: from a core vertex g the
    exit vertices g[1:]+c (two or three letters c outside the core alphabet) are continued by the SAME appended words (a short
    random word and some of its suffixes, then a non-branching sink cycle of period 1 or 2 repeated): the chains from sibling
    vertices have equal length and merge after k steps, vertices with two doomed successors arise where two words overlap.
    Under threshold 1 the funnel dies level by level, sibling vertices losing their last arc in the same sweep."""
    n = 4 ** k
    letters = rng.sample(range(4), 2)
    outside = [c for c in range(4) if c not in letters]
    mask = [1 if all(((v // 4 ** i) % 4) in letters for i in range(k)) else 0 for v in range(n)]

    def add_string(st):
        for i in range(len(st) - k + 1):
            mask[sum(c * 4 ** (k - 1 - j) for j, c in enumerate(st[i:i + k]))] = 1
    for _ in range(rng.choice([1, 1, 2])):
        g = [rng.choice(letters) for _ in range(k)]
        sink = [rng.choice(outside)] if rng.random() < 0.6 else [rng.choice(outside), rng.randrange(4)]
        word = [rng.randrange(4) for _ in range(rng.randint(0, 3))]
        words = [word] + [word[i:] for i in range(1, len(word) + 1) if rng.random() < 0.6]
        exits = rng.sample(outside, 2) + ([rng.choice(letters)] if rng.random() < 0.3 else [])
        for c in exits:
            for wd in (words if rng.random() < 0.7 else words[:1]):
                add_string(g + [c] + wd + sink * (k + 2))
    for v in rng.sample(range(n), rng.choice([0, 0, 0, 1, 3])):
        mask[v] = 1
    return mask


def twin_graph(rng, rows, k):
    """a DIFFERENT arc subset with the same first-order statistics (same vertices with arcs, same number of arcs, same multiset
    of successors, same sums): one arc u -> w is moved to another predecessor u' -> w of the same vertex w.  None if impossible."""
    n = len(rows)
    cands = []
    for u in range(n):
        if sum(x >= 0 for x in rows[u]) < 2:
            continue
        for j in range(4):
            w = rows[u][j]
            if w < 0:
                continue
            for u2 in formers(w, k):
                if u2 != u and rows[u2][j] < 0 and any(x >= 0 for x in rows[u2]):
                    cands.append((u, u2, j, w))
    if not cands:
        return None
    u, u2, j, w = rng.choice(cands)
    out = [r[:] for r in rows]
    out[u][j] = -1
    out[u2][j] = w
    return out


_BIG = {}


def big_graph(k, seed, t=2, density=0.82):
    """rows of a LARGE coding graph (order 8..10: 65536 .. 1048576 vertices, vertex ids beyond every 16-bit range): a random
    vertex mask trimmed to the largest sub-graph with minimum out-degree t, computed with NumPy (this only shapes the input).
    Deterministic in (k, seed); cached per process."""
    key = (k, seed, t, density)
    if key not in _BIG:
        import numpy as np
        n = 4 ** k
        r = np.random.RandomState(seed)
        alive = r.random_sample(n) < density
        succ = ((np.arange(n, dtype=np.int64)[:, None] * 4) % n) + np.arange(4, dtype=np.int64)[None, :]
        while True:
            new = alive & (alive[succ].sum(axis=1) >= t)
            if (new == alive).all():
                break
            alive = new
        rows = np.where(alive[:, None] & alive[succ], succ, -1)
        _BIG.clear()                                # keep one at a time (tens of MB each)
        _BIG[key] = rows.tolist()
    return _BIG[key]


def wellformed_subset(rng, k):
    """arc subset in which every vertex reachable from a live vertex is live and reaches a branching vertex:
    start from a generated coding graph for t = 1 and delete arcs while that stays true."""
    _, _, rows = coding_graph(rng, k, t=rng.choice([1, 1, 2]))
    rows = [r[:] for r in rows]
    arcs = [(v, j) for v in range(len(rows)) for j in range(4) if rows[v][j] >= 0]
    rng.shuffle(arcs)
    for v, j in arcs[: len(arcs) // 2]:
        keep = rows[v][j]
        rows[v][j] = -1
        if not wellformed(rows):
            rows[v][j] = keep
    return rows


def live_vertices(rows):
    return [v for v, r in enumerate(rows) if any(x >= 0 for x in r)]


def wellformed(rows):
    """every arc leads to a live vertex and every live vertex reaches a vertex with >= 2 arcs"""
    live = set(live_vertices(rows))
    if not live:
        return False
    for v in live:
        for w in rows[v]:
            if w >= 0 and w not in live:
                return False
    good = set(v for v in live if sum(1 for w in rows[v] if w >= 0) >= 2)
    changed = True
    while changed:
        changed = False
        for v in live:
            if v not in good and any(w in good for w in rows[v] if w >= 0):
                good.add(v)
                changed = True
    return good == live


def is_walk(rows, v, s):
    n = len(rows)
    for c in s:
        if c not in NUC:
            return False
        if not (0 <= v < n):
            return False
        w = rows[v][NUC.index(c)]
        if w < 0:
            return False
        v = w
    return True


def end_vertex(rows, v, s):
    """the vertex a walk ends in (the string is a walk)"""
    for c in s:
        v = rows[v][NUC.index(c)]
    return v


def random_walk(rng, rows, v, length):
    out = ""
    for _ in range(length):
        js = [j for j in range(4) if rows[v][j] >= 0]
        if not js:
            break
        j = rng.choice(js)
        out += NUC[j]
        v = rows[v][j]
    return out


def random_table(rng, n, malformed=False):
    rows = []
    for _ in range(n):
        r = [0, 1, 2, 3]
        rng.shuffle(r)
        if malformed and rng.random() < 0.3:
            r[rng.randrange(4)] = rng.randrange(4)
        rows.append(r)
    return rows


def message(rng, maxlen):
    kind = rng.choice(["random", "random", "random", "zeros", "ones", "leading0", "pow2", "empty", "short"])
    n = rng.choice([0, 1, 2, 3, 5, 8, 13, 16, rng.randint(0, maxlen), rng.randint(0, maxlen), rng.randint(0, maxlen),
                    rng.choice([31, 32, 33, 63, 64, 65, 127, 128, 129])])
    n = min(n, max(maxlen, 0))
    if kind == "empty":
        return []
    if kind == "zeros":
        return [0] * n
    if kind == "ones":
        return [1] * n
    if kind == "short":
        return [rng.randint(0, 1) for _ in range(rng.randint(0, 6))]
    if kind == "leading0":
        z = rng.randint(0, n)
        return [0] * z + [rng.randint(0, 1) for _ in range(n - z)]
    if kind == "pow2":
        return ([1] + [0] * (n - 1)) if n else []
    out = [rng.randint(0, 1) for _ in range(n)]
    if out and rng.random() < 0.5:
        out[0] = 1          # a leading 1: the value needs the full width
    return out


class CountingAccessor(np.ndarray):
    """ndarray subclass that counts row reads and aborts beyond a budget (no hook in /repo needed)"""
    reads = 0
    budget = 1 << 60

    def __getitem__(self, item):
        if isinstance(item, (int, np.integer)) and self.ndim == 2:
            CountingAccessor.reads += 1
            if CountingAccessor.reads > CountingAccessor.budget:
                from core import Budget
                raise Budget("row-read budget exceeded")
        return super().__getitem__(item)


def counting(rows, budget):
    a = acc_array(rows).view(CountingAccessor)
    CountingAccessor.reads = 0
    CountingAccessor.budget = budget
    return a


# ------------------------------------------------------------------------------- filters
import math


def local_cfg(rng, k, decidable_only=False):
    """a LocalBioFilter configuration as a dict: k, run (or None), gc (lo, hi or None), motifs (or None)"""
    run = None
    if rng.random() < 0.7:
        run = rng.randint(1, k) if not decidable_only else rng.randint(1, max(1, k - 1))
        if decidable_only and run >= k:
            run = None
    gc = None
    if rng.random() < 0.7:
        grid = [0.0, 0.1, 0.2, 0.25, 0.3, 0.35, 0.4, 0.45, 0.5, 0.55, 0.6, 0.65, 0.7, 0.75, 0.8, 0.9, 1.0,
                round(rng.random(), 3)]
        lo = rng.choice(grid)
        hi = rng.choice([x for x in grid if x >= lo] + [lo])
        gc = [lo, hi]
        fam = rng.random()
        if fam < 0.15:
            # "centre +- j / window" and "j / window" bounds, as a user computes them: products and quotients with the window that
            # round differently (0.5 - 1/6 is 0.33333333333333337, times 6 it is exactly 2.0, while 2/6 is below it)
            j = rng.randint(0, max(0, k // 2))
            m = rng.choice([k, k, 2 * k, k + 1])
            gc = [0.5 - j / m, 0.5 + j / m]
        elif fam < 0.3:
            a, b = sorted([rng.randint(0, k), rng.randint(0, k)])
            lo, hi = a / k, b / k
            if rng.random() < 0.5:
                lo = math.nextafter(lo, rng.choice([0.0, 1.0]))
            if rng.random() < 0.5:
                hi = math.nextafter(hi, rng.choice([0.0, 1.0]))
            gc = [min(lo, hi), max(lo, hi)]
    motifs = None
    if rng.random() < 0.5:
        motifs = ["".join(rng.choice(NUC) for _ in range(rng.randint(1, k))) for _ in range(rng.randint(1, 3))]
        if rng.random() < 0.2:
            motifs.append(rng.choice(["AT", "GC", "ACGT", "TA"])[:k])
    return {"k": k, "run": run, "gc": gc, "motifs": motifs}


def make_filter(cfg):
    return dsw.LocalBioFilter(observed_length=cfg["k"], max_homopolymer_runs=cfg["run"], gc_range=cfg["gc"],
                              undesired_motifs=cfg["motifs"])


def thresholds(cfg):
    """integer thresholds equivalent to the float comparisons of LocalBioFilter.valid for integer counts:
    gc > hi*k <-> gc > floor(hi*k); gc < lo*k <-> gc < ceil(lo*k); at > (1-lo)*k <-> at > floor((1-lo)*k)"""
    lo, hi = cfg["gc"]
    k = cfg["k"]
    return math.ceil(lo * k), math.floor(hi * k), math.floor((1 - lo) * k)


def enc_cfg(cfg):
    """-> (header list, motif groups list) as dec_cfg in Dispatch.v expects"""
    gmin = gmax = amax = 0
    if cfg["gc"] is not None:
        gmin, gmax, amax = thresholds(cfg)
    h = [cfg["k"], int(cfg["run"] is not None), cfg["run"] or 0, int(cfg["gc"] is not None), gmin, gmax, amax,
         int(cfg["motifs"] is not None)]
    return h, enc_groups(cfg["motifs"] or [])


class TableFilter(dsw.DefaultBioFilter):
    """a user-defined filter through the documented interface valid(self, dna_string)"""

    def __init__(self, k, table):
        super().__init__(screen_name="table")
        self.k, self.table = k, table

    def valid(self, dna_string):
        x = 0
        for c in dna_string:
            x = 4 * x + NUC.index(c)
        return bool(self.table[x])


class TableFilterLocal(dsw.LocalBioFilter):
    """a user-defined filter made by SUBCLASSING the built-in LocalBioFilter (no built-in rule switched on) and overriding
    valid: its verdicts are the table's, not those of a LocalBioFilter"""

    def __init__(self, k, table):
        super().__init__(observed_length=k)
        self.k, self.table = k, table

    def valid(self, dna_string, only_last=True):
        x = 0
        for c in dna_string:
            x = 4 * x + NUC.index(c)
        return bool(self.table[x])


class TableFilterDuck(object):
    """a filter that is no subclass of anything: only the documented method"""

    def __init__(self, k, table):
        self.k, self.table = k, table

    def valid(self, dna_string):
        x = 0
        for c in dna_string:
            x = 4 * x + NUC.index(c)
        return bool(self.table[x])


def table_filter(k, table):
    """the same table behind one of three kinds of user-defined filter (chosen by the table itself, so that a payload determines it)"""
    kind = (sum(table) + len(table) + sum(i for i, x in enumerate(table) if x)) % 3
    return [TableFilter, TableFilterLocal, TableFilterDuck][kind](k, table)


def kmer(v, k):
    return "".join(NUC[(v // 4 ** (k - 1 - i)) % 4] for i in range(k))


def wellformed_from(rows, v0):
    """every vertex reachable from v0 is in range, live, and reaches a vertex with >= 2 arcs"""
    n = len(rows)
    if not (0 <= v0 < n):
        return False
    seen, todo = {v0}, [v0]
    while todo:
        v = todo.pop()
        for w in rows[v]:
            if w >= 0:
                if w >= n:
                    return False
                if w not in seen:
                    seen.add(w)
                    todo.append(w)
    good = set(v for v in seen if sum(1 for w in rows[v] if w >= 0) >= 2)
    changed = True
    while changed:
        changed = False
        for v in seen:
            if v not in good and any(w in good for w in rows[v] if w >= 0):
                good.add(v)
                changed = True
    return good == seen and all(any(w >= 0 for w in rows[v]) for v in seen)


def related_cfg(rng, a):
    """a configuration close to a: same k / run / gc, motif list re-split, permuted, truncated or with one letter changed;
    or one numeric field nudged"""
    b = {"k": a["k"], "run": a["run"], "gc": None if a["gc"] is None else list(a["gc"]),
         "motifs": None if a["motifs"] is None else list(a["motifs"])}
    kind = rng.choice(["resplit", "resplit", "permute", "letter", "drop", "run", "gc"])
    ms = b["motifs"]
    if kind == "resplit" and ms:
        joined = "".join(ms)
        cuts = sorted(rng.sample(range(1, len(joined)), min(len(joined) - 1, rng.randint(1, 2)))) if len(joined) > 1 else []
        parts, last = [], 0
        for c in cuts + [len(joined)]:
            parts.append(joined[last:c])
            last = c
        b["motifs"] = [x for x in parts if x and len(x) <= a["k"]] or ms
    elif kind == "permute" and ms:
        rng.shuffle(ms)
    elif kind == "letter" and ms:
        i = rng.randrange(len(ms))
        j = rng.randrange(len(ms[i]))
        ms[i] = ms[i][:j] + rng.choice(NUC) + ms[i][j + 1:]
    elif kind == "drop" and ms:
        b["motifs"] = ms[:-1] or None
    elif kind == "run":
        b["run"] = None if a["run"] is not None else 1
    else:
        b["gc"] = None if a["gc"] is not None else [0.25, 0.75]
    return b


_DICT = {}


def lmap_dict(rows, reuse=False):
    """the latter map of rows as a dict; reuse=True hands out ONE long-lived dict object that is cleared and refilled in
    place for every case (results must depend on the content only, not on the object's identity or history)"""
    m = {v: [x for x in r if x >= 0] for v, r in enumerate(rows) if any(x >= 0 for x in r)}
    if not reuse:
        return m
    _DICT.clear()
    _DICT.update(m)
    return _DICT


class _Str(str):
    """a str subclass (what a user's record type or a framework's string type is)"""


def typed_str(s):
    """the TYPE of a string argument must not matter: a share of the strings (chosen by their content, so that a replay builds the same
    object) is handed over as numpy.str_ (an element read from a NumPy array of strings) or as an instance of a str subclass"""
    if s is None or os.environ.get("VERIF_LAYOUT", "1") == "0":
        return s
    h = zlib.crc32(s.encode("utf-8", "surrogatepass")) % 6
    if h == 0:
        return np.str_(s)
    if h == 1:
        return _Str(s)
    return s


CRC32_OFFSETS = [0, 6, 9, 10, 16, 20, 21, 22, 24, 25, 27, 28, 30, 31, 32]   # 32 - (exponents of the CRC-32 polynomial)


def checksum_twin(rng, bits):
    """a message of the same length with the same CRC-32 of its '0'/'1' text (and of its bytes): flipping the bits at
    start + (32 - e) for the exponents e of the CRC-32 polynomial G adds G(x^8) = G(x)^8 to the text, a multiple of G; with two such
    flips patterns overlapping the value can change at both ends.  None when the message is shorter than 33 bits."""
    if len(bits) < 33:
        return None
    out = list(bits)
    for _ in range(rng.choice([1, 1, 2])):
        start = rng.randrange(0, len(bits) - 32)
        for o in CRC32_OFFSETS:
            out[start + o] ^= 1
    return out if out != list(bits) else None


# the documented parameter order of every public function (the pinned tree's signatures = its documentation)
API_ORDER = {
    'encode': ['binary_message', 'accessor', 'start_index', 'is_faster', 'vt_length', 'shuffles', 'need_path', 'verbose'],
    'decode': ['dna_sequence', 'bit_length', 'accessor', 'start_index', 'is_faster', 'vt_check', 'shuffles', 'verbose'],
    'set_vt': ['dna_sequence', 'vt_length'],
    'repair_dna': ['dna_sequence', 'accessor', 'start_index', 'observed_length', 'vt_check', 'has_indel', 'heap_size'],
    'find_vertices': ['observed_length', 'bio_filter', 'verbose'],
    'connect_valid_graph': ['observed_length', 'vertices', 'verbose'],
    'connect_coding_graph': ['observed_length', 'vertices', 'threshold', 'verbose'],
    'remove_nasty_arc': ['accessor', 'latter_map', 'iteration', 'has_insertion', 'has_deletion', 'verbose'],
    'create_random_shuffles': ['observed_length', 'random_seed', 'verbose'],
    'get_complete_accessor': ['observed_length', 'verbose'],
    'accessor_to_adjacency_matrix': ['accessor', 'maximum_length', 'verbose'],
    'adjacency_matrix_to_accessor': ['matrix', 'verbose'],
    'accessor_to_latter_map': ['accessor', 'verbose'],
    'latter_map_to_accessor': ['latter_map', 'observed_length', 'threshold', 'verbose'],
    'remove_useless': ['latter_map', 'threshold', 'verbose'],
    'obtain_formers': ['current', 'observed_length'],
    'obtain_latters': ['current', 'observed_length'],
    'obtain_vertices': ['accessor'],
    'obtain_leaf_vertices': ['vertex_index', 'depth', 'accessor', 'latter_map'],
    'approximate_capacity': ['accessor', 'tolerance_level', 'repeats', 'maximum_iteration', 'process', 'verbose'],
    'calculate_intersection_score': ['latter_map', 'observed_length', 'has_insertion', 'has_deletion', 'verbose'],
    'bit_to_number': ['bit_array', 'is_string', 'verbose'],
    'number_to_bit': ['decimal_number', 'bit_length'],
    'dna_to_number': ['dna_sequence', 'is_string'],
    'number_to_dna': ['decimal_number', 'dna_length'],
}


def api(name, **kw):
    """call dsw.<name> with the given arguments under one of three CALLING CONVENTIONS, chosen by the scalar arguments (so that a
    replay makes the same call): all by keyword in the documented order, the leading ones positionally in the documented order, or
    all by keyword in the reverse order.  The three are the same call; the answer must not depend on which is used."""
    order = API_ORDER[name]
    assert set(kw) <= set(order), (name, sorted(kw))
    f = getattr(dsw, name)
    if os.environ.get("VERIF_LAYOUT", "1") == "0":
        return f(**kw)
    key = name + repr(sorted((k, v) for k, v in kw.items() if isinstance(v, (int, bool, str, type(None))) and len(repr(v)) < 40))
    h = zlib.crc32(key.encode("utf-8", "surrogatepass")) % 3
    if h == 0:
        return f(**{k: kw[k] for k in order if k in kw})
    if h == 1:
        pos = []
        for k in order:
            if k not in kw:
                break
            pos.append(kw[k])
        rest = {k: kw[k] for k in order[len(pos):] if k in kw}
        return f(*pos, **rest)
    return f(**{k: kw[k] for k in reversed(order) if k in kw})


_VIEWS = {}


def shared_view(rows):
    """ONE long-lived READ-ONLY view object per shape of an owner array whose content is overwritten for every case (a read-only view
    only refuses writes through itself: its owner can change, e.g. by the library's own in-place arc removal).  Results must depend
    on what the array holds now, never on what this object held in an earlier call."""
    a = np.array(rows, dtype=int).reshape(-1, 4)
    ent = _VIEWS.get(a.shape)
    if ent is None:
        owner = a.copy()
        view = owner.view()
        view.setflags(write=False)
        ent = _VIEWS[a.shape] = (owner, view)
    else:
        ent[0][:] = a
    return ent[1]
