"""sourcetie.py -- a checked tie between the hand-written model and the exact source text it was validated against.

The model is hand-written, so what ties a theorem to /repo is the correspondence check, which samples inputs.  To make
that tie as strong as a regenerated model's, every function of the dsw package is fingerprinted (SHA-256 of its AST with
docstrings removed, so comments, blank lines and documentation do not matter) and the fingerprints of the tree the model
was written for are committed in harness/fingerprints.json.  On every run the fingerprints of the functions in a
property's cone (its root functions and everything they call inside dsw, transitively, plus the module-level code of the
files involved) are recomputed from the current working tree.  A difference means: the code the model mirrors has been
rewritten, so neither the proofs nor the earlier correspondence runs say anything about it any more.  The check then
searches much harder for a failing input and, if it finds none, still reports the violation with
`no-failing-input-found`, naming the functions whose source changed (exactly what a broken proof of a regenerated model
would do).

  python sourcetie.py record      rewrite harness/fingerprints.json from /repo (done by hand after a deliberate change to
                                  /repo - a fix: commit - once model and proofs have been brought up to date)"""
import ast
import hashlib
import json
import os
import sys

HERE = os.path.dirname(os.path.abspath(__file__))
FILES = ["dsw/__init__.py", "dsw/operation.py", "dsw/graphized.py", "dsw/spiderweb.py", "dsw/biofilter.py"]
STORE = os.path.join(HERE, "fingerprints.json")


def _strip_doc(node):
    for n in ast.walk(node):
        if isinstance(n, (ast.FunctionDef, ast.AsyncFunctionDef, ast.ClassDef, ast.Module)):
            if n.body and isinstance(n.body[0], ast.Expr) and isinstance(getattr(n.body[0], "value", None), ast.Constant) \
                    and isinstance(n.body[0].value.value, str):
                n.body = n.body[1:] or [ast.Pass()]
    return node


def _sha(node):
    return hashlib.sha256(ast.dump(_strip_doc(node), annotate_fields=True, include_attributes=False).encode()).hexdigest()


def scan(repo):
    """-> (functions: {qualified name: (file, sha, set of names referenced)}, module_level: {file: sha})"""
    functions, module_level = {}, {}
    for rel in FILES:
        path = os.path.join(repo, rel)
        if not os.path.exists(path):
            module_level[rel] = "missing"
            continue
        tree = ast.parse(open(path).read())
        rest = []
        for node in tree.body:
            if isinstance(node, (ast.FunctionDef, ast.AsyncFunctionDef)):
                functions[node.name] = (rel, _sha(node), _names(node))
            elif isinstance(node, ast.ClassDef):
                for sub in node.body:
                    if isinstance(sub, (ast.FunctionDef, ast.AsyncFunctionDef)):
                        functions[node.name + "." + sub.name] = (rel, _sha(sub), _names(sub) | {node.name})
                shell = ast.ClassDef(name=node.name, bases=node.bases, keywords=node.keywords, decorator_list=node.decorator_list,
                                     body=[x for x in node.body if not isinstance(x, (ast.FunctionDef, ast.AsyncFunctionDef))] or [ast.Pass()])
                rest.append(shell)
            else:
                rest.append(node)
        module_level[rel] = _sha(ast.Module(body=rest, type_ignores=[]))
    return functions, module_level


def _names(node):
    out = set()
    for n in ast.walk(node):
        if isinstance(n, ast.Name):
            out.add(n.id)
        elif isinstance(n, ast.Attribute):
            out.add(n.attr)
    return out


def closure(roots, functions):
    """functions reachable from the roots through names they mention (methods are reached through their class name or
    their own name)"""
    todo, seen = list(roots), set()
    short = {}
    for q in functions:
        short.setdefault(q.split(".")[-1], []).append(q)
        if "." in q:
            short.setdefault(q.split(".")[0], []).append(q)
    while todo:
        q = todo.pop()
        if q in seen:
            continue
        seen.add(q)
        if q not in functions:
            continue
        for name in functions[q][2]:
            for cand in short.get(name, []):
                if cand not in seen:
                    todo.append(cand)
    return seen


def record(repo="/repo"):
    functions, module_level = scan(repo)
    json.dump({"functions": {q: {"file": f, "sha": s} for q, (f, s, _) in sorted(functions.items())},
               "module_level": module_level}, open(STORE, "w"), indent=1, sort_keys=True)
    print("recorded %d functions from %s" % (len(functions), repo))


def check(repo, roots):
    """-> list of human-readable differences between the recorded tree and the current one, restricted to the cone"""
    if not os.path.exists(STORE):
        return ["harness/fingerprints.json is missing"]
    rec = json.load(open(STORE))
    functions, module_level = scan(repo)
    cone = closure(roots, functions)
    # the recorded call structure too: a function that disappeared from the cone is a change as well
    rec_funcs = rec["functions"]
    diffs = []
    files = set()
    for q in sorted(cone):
        if q in functions:
            files.add(functions[q][0])
            if q not in rec_funcs:
                diffs.append("new function %s in %s (reachable from %s)" % (q, functions[q][0], ", ".join(roots[:3])))
            elif rec_funcs[q]["sha"] != functions[q][1]:
                diffs.append("source of %s (%s) differs from the source the model was validated against" % (q, functions[q][0]))
        else:
            diffs.append("function %s is missing" % q)
    for r in roots:
        if r not in functions:
            diffs.append("root function %s is missing" % r)
    files.add("dsw/__init__.py")          # what the package exports / wraps at import time concerns every property
    for f in sorted(files):
        if rec["module_level"].get(f) != module_level.get(f):
            diffs.append("module-level code of %s (imports, globals, class bodies) differs" % f)
    # modules added to (or removed from) the package
    present = sorted(x for x in os.listdir(os.path.join(repo, "dsw")) if x.endswith(".py")) if os.path.isdir(os.path.join(repo, "dsw")) else []
    if present != sorted(os.path.basename(x) for x in FILES):
        diffs.append("the set of modules in dsw/ changed: %s" % ", ".join(present))
    return diffs


if __name__ == "__main__":
    if sys.argv[1:2] == ["record"]:
        record(sys.argv[2] if len(sys.argv) > 2 else "/repo")
    else:
        print("\n".join(check(sys.argv[2] if len(sys.argv) > 2 else "/repo", sys.argv[3:])) or "no difference")
