"""shared by C08 / C09 / C10: calling repair_dna on both sides, edits, generated graphs"""
import math

import numpy as np

import dsw
import gen
from core import enc_call, guard, s2c
from props.c07 import formula

NUC = "ACGT"


def apply_edits(w, edits):
    """edits: list of (kind, position in w, nucleotide), positions strictly increasing; applied right to left"""
    s = w
    for kind, p, c in sorted(edits, key=lambda e: -e[1]):
        if kind == "S":
            s = s[:p] + c + s[p + 1:]
        elif kind == "I":
            s = s[:p] + c + s[p:]
        else:
            s = s[:p] + s[p + 1:]
    return s


def repair_case_parts(rows, v0, k, s, vt, indel, heap, budget=None, no_call=False):
    """returns (call, impl) for one repair_dna invocation; heap is the Python value handed to repair_dna"""
    call = None if no_call else enc_call(24, s2c(s), gen.enc_acc(rows), v0, k, gen.enc_opt_str(vt), int(indel), math.floor(heap))

    def run():
        a = gen.counting(rows, budget if budget is not None else 1 << 60)
        r = gen.api("repair_dna", dna_sequence=gen.typed_str(s), accessor=a, start_index=v0, observed_length=k, vt_check=gen.typed_str(vt),
                           has_indel=indel, heap_size=heap)
        return r

    def enc(r):
        cands, st = r
        return [gen.enc_groups(cands), [int(st[0]), int(bool(st[1])), int(st[2]), int(st[3])]]
    return call, (lambda: guard(run, enc, seconds=60))


def generated_graph(rng, kmax):
    k = rng.randint(1, kmax)
    _, t, rows = gen.coding_graph(rng, k)
    return k, t, rows


def well_typed(raw):
    if not (isinstance(raw, tuple) and len(raw) == 2):
        return False
    cands, st = raw
    return isinstance(cands, list) and all(isinstance(c, str) for c in cands) and isinstance(st, tuple) and len(st) == 4


def read_budget(n, k):
    """a sound bound on accessor row reads of repair_dna, with a factor 2 of slack: the scan reads at most 2 rows per
    position; each path_matching call reads 1 row for the live arcs plus, for at most 4 substitution and 4 insertion
    candidates and 1 deletion, 1 row for the first arc and 2 rows per step of a chunk of at most 2k symbols; at most k
    calls per detection and at most n detections"""
    return 2 * n * (2 + 9 * k + 36 * k * k) + 64
