"""writes /verif/MANIFEST.json from the table below (kept in one place so that it stays valid)"""
import json
import os

VERIF = os.path.dirname(os.path.dirname(os.path.abspath(__file__)))
TB = ("Trusted: Coq 8.16.1 kernel (coqc; coqchk -o in the thorough tier), no native_compute; axioms per theorem as printed by "
      "Print Assumptions (expected: Closed under the global context); extraction with ExtrOcamlBasic only + driver.ml; "
      "the correspondence harness and the independent oracle in harness/props/; the Python/NumPy primitives are modelled, "
      "not verified.  See DESIGN.md section 3.")

CHECKS = {
    "C12": ("(LocalBioFilter.__init__ and valid() are REGENERATED from the current source on every run as terms of a deep embedding "
            "with binary64 floats and proved equal to the model: C12_valid_source.)  Theorems for every string of code points and every configuration (all integer thresholds): whole-sequence verdict = "
            "documented window predicate; last-window verdict = verdict of the final window; for window-decidable configurations "
            "and strings at least one window long the verdict is the conjunction over all windows; reverse-complement invariance "
            "(ACGT motifs); constructor validation.  The float thresholds are reduced to integers outside Coq (same binary64 "
            "products) and re-derived exactly with Fractions by the oracle.",
            "Coq proof (substring / window lemmas) + extraction-based correspondence", "5 C12"),
    "C13": ("(obtain_latters, obtain_formers, get_complete_accessor and connect_valid_graph are REGENERATED from the current source on every "
            "run as terms of a deep embedding and proved equal to the model: C13_complete_source.)  Theorems for every k >= 1 and every vertex (index<->k-mer bijection, successor/predecessor arithmetic = "
            "shift-append on k-mers, column layout, legality of built graphs), kernel-checked; the successor / predecessor "
            "arithmetic is regenerated from the current source on every run and re-proved equal to the model; tied to dsw by running the "
            "extracted model and the implementation on every vertex of every order up to 5 (7 thorough) plus samples to k = 12.",
            "Coq proof (induction on k-mers, Z arithmetic) + extraction-based correspondence check", "5 C13"),
    "C01": ("(encode, decode, set_vt and the number conversions are REGENERATED from the current source on every run as terms of a "
            "deep embedding of Python + NumPy arrays and proved equal to the model, value and exception: C01_*_source.)  Theorems: on every accessor that is well formed from the start vertex (any arc subset, out-degrees 1..4 mixed), for "
            "every 0/1 message (empty, all-zero, any length), every permutation table and every check length, encode returns "
            "within L x |V| steps and decode of its output returns the message (normal mode); the same in fast mode without "
            "out-degree 3; plus: whenever encode returns at all, decode inverts it.  Tied to dsw.encode/decode by the "
            "correspondence check (composite encode+decode call) on generated graphs, arc subsets, tables, checks, both modes.",
            "Coq proof (refinement of the decimal-string coder to a mixed-radix reference, termination by pigeonhole) + "
            "extraction-based correspondence", "5 C01"),
    "C02": ("(find_vertices, connect_valid_graph, connect_coding_graph, encode and LocalBioFilter.valid are REGENERATED from the current source on every run and proved equal to the model.)  "
            "Theorems: for ANY filter function, every window of start k-mer + strand is accepted by the filter the graph was "
            "generated for (walks and encoder outputs, both modes, with/without table); for window-decidable local filters the "
            "prefixed strand passes the whole-sequence check and the strand alone passes when at least one window long or when "
            "the integer thresholds are coherent.  Two clauses of the property are REFUTED with kernel-checked witnesses and "
            "recorded as known findings F7 (constructor accepts run == window) and F8 (binary64 rounding, short strand alone).  "
            "Tied to dsw by a composite pipeline call (filter -> vertices -> graph -> encode -> verdicts).",
            "Coq proof (composition of C03/C04/C11/C12/C13 lemmas) + refutation witnesses + extraction-based correspondence", "5 C02"),
    "C03": ("(connect_coding_graph is REGENERATED from the current source on every run as a term of a deep embedding of Python + NumPy and "
            "proved equal to the model, value and exception: C03_source.)  Theorems for every order k >= 1, every 0/1 mask and thresholds 1..4: connect_coding_graph returns the vertex-induced "
            "sub-graph on the LARGEST closed subset of the mask (greatest fixed point; for t = 1 incl. reachability of a branching "
            "vertex, proved through the cascade invariant), the vertex description denotes exactly the vertices with arcs, and "
            "ValueError is raised exactly when every closed subset is empty; monotonicity and uniqueness follow; the latter-map "
            "trimming (remove_useless) computes the largest min-degree-t subset and gives the same graph for t >= 2.  Tied to dsw by the "
            "correspondence check incl. (thorough) all 65536 order-2 masks x 4 thresholds.",
            "Coq proof (greatest fixed point of a monotone deflationary operator; cascade invariant) + extraction-based correspondence", "5 C03"),
    "C04": ("(connect_coding_graph, encode and the number conversions are REGENERATED from the current source on every run and proved equal to the model: C04_no_dead_end_source.)  "
            "Theorems: every graph returned by graph generation is well formed from every retained vertex; encoding from there is "
            "total within L x |V| steps (pigeonhole on out-degree-1 runs), never meets a dead end, emits a walk; tightness "
            "(last step information carrying, product of earlier out-degrees <= message value), L / ceil(L/2) length bounds, fast "
            "mode carries L or L+1 bits.  Tied to dsw by the correspondence check with a row-read-counting ndarray proxy "
            "(reads = 2 x strand length) on graphs produced by the implementation's own generator.",
            "Coq proof + extraction-based correspondence with read counting", "5 C04"),
    "C05": ("(encode, decode and the number conversions are REGENERATED from the current source on every run and proved equal to the model.)  "
            "Theorems: the code's normal-mode encoder (decimal strings, argsort) equals an integer reference coder written from the "
            "published scheme (error cases included); the reference emits a walk whose little-endian mixed-radix value is the "
            "message; digit d selects the d-th live arc / the live arc with the d-th smallest table entry (bijection); fast mode "
            "equals its reference; decoding ANY walk returns its value big-endian at the requested width.  Tied to dsw by the "
            "correspondence check and an independent Python reference coder.",
            "Coq proof (refinement to a reference coder over Z) + extraction-based correspondence", "5 C05"),
    "C06": ("(decode and set_vt are REGENERATED from the current source on every run and proved equal to the model, value and "
            "exception: C06_*_source.)  Theorem (both modes): for every accessor of four-column rows with in-range entries, every start vertex, every "
            "string of arbitrary code points, every table of the right shape and every optional check, decode returns exactly "
            "L bits iff the string is a walk and the check matches, and raises ValueError otherwise (fast mode: under the "
            "stated no-out-degree-3 / carried-bits precondition); tied to dsw.decode by the correspondence check on walks, "
            "edited walks, random and foreign strings, right/wrong checks, permutation and malformed tables.",
            "Coq proof (induction on the strand) + extraction-based correspondence", "5 C06"),
    "C07": ("(set_vt is REGENERATED from the current source on every run and proved equal to the model: C07_*_source.)  "
            "Theorems for every strand and every n >= 1: set_vt equals the documented VT function (first symbol = sum mod 4, "
            "then the (n-1)-digit base-4 rendering of the ascent-position sum mod 4^(n-1)), is defined on the empty strand, "
            "changes under every substitution and every C/G/T indel, and decode with the original check rejects; tied to "
            "dsw.set_vt / decode by the correspondence check incl. every single edit of sampled walks.",
            "Coq proof (sum mod 4 argument, radix rendering) + extraction-based correspondence", "5 C07"),
    "C08": ("(path_matching and repair_dna are REGENERATED from the current source on every run and proved equal to the model, value and exception: repair_dna_source.)  "
            "Theorems for every graph that graph generation can return (legal, vertex-induced, k >= 1) and every walk: EVERY single "
            "substitution / insertion / deletion at an interior position in [k, n-2k) is detected exactly when the corrupted "
            "strand is no longer a walk, exactly once, and the original walk is among the candidates; and for EVERY set of edits "
            "pairwise at least 3k+2 apart there is at most one detection per edit and, whenever the detection count equals the "
            "number of edits, the original walk is among the candidates (check absent or the check of the original); ~1750 "
            "lines of Coq following the scan loop, the look-back window and the recombination.  Tied to dsw by the "
            "correspondence check on every single edit of sampled walks, random admissible edit sets and twin-window edits.",
            "Coq proof (state tracking on vertex-induced de Bruijn graphs, scan-loop invariants, induction over the edits) + "
            "extraction-based correspondence", "5 C08"),
    "C09": ("(path_matching and repair_dna are REGENERATED from the current source on every run and proved equal to the model: C09_clean_source, C09_output_shape_source.)  "
            "Theorems: on a strand that is already a walk repair returns exactly that strand (or nothing if the supplied check "
            "disagrees) with zero detected errors, for every shaped accessor / option / heap limit; whenever repair returns, the "
            "candidate list is strictly increasing (sorted, duplicate-free) and every candidate reproduces the supplied check.",
            "Coq proof (scan-loop invariant, sorted-insertion lemmas) + extraction-based correspondence", "5 C09"),
    "C10": ("(path_matching and repair_dna are REGENERATED from the current source on every run and proved equal to the model: C10_returns_source.)  "
            "Theorem: for every ACGT strand at least k long, every order-k graph with in-range entries, every start vertex and "
            "option, repair_dna returns a (candidates, statistics) pair: the fuel-bounded scan loop never runs out of fuel, no "
            "subscript is out of range, and the look-up counter is at most n(1+16k^2).  Tied to dsw by the correspondence check "
            "(full result incl. the look-up counter) with the implementation under a row-read budget.",
            "Coq proof (termination measure on the scan position, shape invariants) + extraction-based correspondence", "5 C10"),
    "C11": ("(find_vertices and connect_valid_graph are REGENERATED from the current source on every run and proved equal to the model, "
            "for any filter function: C11_valid_graph_source.)  Theorems with the filter as an arbitrary function (so for every user-defined filter): find_vertices marks index i "
            "iff the filter accepts the i-th k-mer and raises ValueError iff none is accepted; connect_valid_graph returns "
            "exactly the induced sub-graph with the column = last nucleotide layout, ValueError for the empty mask; tied to dsw "
            "by the correspondence check with table-driven user filters (documented interface) and LocalBioFilters.",
            "Coq proof + extraction-based correspondence", "5 C11"),
    "C14": ("(obtain_vertices, obtain_leaf_vertices, accessor_to_latter_map, remove_useless, latter_map_to_accessor are REGENERATED from the "
            "current source on every run and proved equal to the model: C14_*_source; so are accessor_to_adjacency_matrix and "
            "adjacency_matrix_to_accessor (MiniPyM): C14_matrix_content_source, C14_matrix_roundtrip_source, C14_matrix_reject_source, "
            "for every iteration order of CPython's sets that meets MatrixRepr.set_order_ok, an assumption checked on CPython on every run.)  "
            "Theorems for every legal accessor (any arc subset, k >= 1): latter-map content and round trip, adjacency-matrix "
            "content, round trip and rejection of non-shift arcs, vertex listing, equality of leaf queries from both "
            "representations with the end points of all d-step walks; tied to dsw by the correspondence check on random arc "
            "subsets and illegal single-arc matrices.",
            "Coq proof + extraction-based correspondence", "5 C14"),
    "C17": ("PARTIAL.  REGENERATED: approximate_capacity is translated from the current source on every run (MiniPyC deep embedding with "
            "binary64 floats; NumPy's random stream is a parameter, log2 and 10**t are external functions) and proved equal to the "
            "model float for float: C17_returns_source, C17_arcless_source, C17_le_four_source, C17_regular_source.  "
            "Theorems on the binary64 model (Coq primitive floats): every eigenvalue estimate is <= 4 (capacity <= 2; via "
            "Flocq and the standard library's FloatAxioms), arc-less graphs give 0, graphs in which every live vertex has exactly "
            "d live successors give exactly d in the single-start mode; integer Collatz-Wielandt theorems turn per-graph "
            "certificates into brackets on the walk-growth rate for every n.  The model is compared BIT-FOR-BIT with NumPy "
            "(every per-iteration value).  The convergence clause (within 1e-4 for every graph with a 0.9 gap) is NOT a theorem: "
            "it is decided per sampled graph against kernel-checked brackets, and it is REFUTED with a witness for the random start "
            "(known finding F12, C17_random_start_refuted: a repeat stalls on the estimate 1.0); the single-start clause is known "
            "finding F9.",
            "Coq proof (Flocq monotone rounding; exact small-integer float arithmetic; Collatz-Wielandt) + vm_compute "
            "evaluation of the float model and of certificates", "5 C17"),
    "C18": ("REGENERATED: create_random_shuffles is translated from the current source on every run (MiniPyD; the permutations "
            "numpy.random.shuffle applies are a parameter, numpy.random.seed an external function) and proved equal to the model: "
            "C18_table_source, C18_seed_and_verbose_irrelevant_source, C18_bad_seed_source; encode / decode are regenerated too.  "
            "NumPy's legacy generator (MT19937 seeding, tempering, random_interval, in-place shuffle) is modelled in coq/MT19937.v: "
            "C18_numpy_table, C18_numpy_table_source and C18_reproducible_source make the table a function of (observed length, seed); "
            "that NumPy's RandomState is this generator is an assumption checked on every run (every sampled table compared entry for entry).  "
            "Theorems: argsort yields a permutation for any keys, digit->position and position->digit are inverse for any table "
            "row, for permutation rows the code's choice is the rank-selected live arc and digit<->arc is a bijection; the 24 x "
            "15 space is swept exhaustively inside Coq.",
            "Coq proof (sorting/permutation lemmas, exhaustive vm_compute sweep) + correspondence + run-time table checks", "5 C18"),
    "C15": ("Theorems for decimal strings of ANY length and all ten operand digits: the digit-serial add / subtract / multiply "
            "/ divide loops return the canonical decimal string of the exact result; tied to dsw/operation.py twice: the four "
            "functions are REGENERATED from the current source on every run as terms of a deep embedding of Python (MiniPy.v) and "
            "proved, for all inputs, to compute what the model computes (C15_*_source theorems about the source text), and the "
            "correspondence check runs model and implementation on shaped operands (carry and borrow chains up to 1400 digits).",
            "Coq proof (induction over digit lists with carry/borrow/remainder invariants; program-equivalence proofs over a "
            "regenerated deep embedding) + extraction-based correspondence", "5 C15"),
    "C16": ("Theorems for bit arrays / DNA strings / numbers of any size: round trips at the original width, agreement of the "
            "str and int code paths (also when truncating), fixed-width rendering with 0/A padding; fuel of the while loops "
            "proved sufficient; tied to dsw twice: the converters and their bignum callees are REGENERATED from the "
            "current source on every run (deep embedding MiniPy.v) and proved equal to the model for all inputs, giving the round "
            "trips for the source text (C16_*_source), and the correspondence check compares both code paths.",
            "Coq proof (fuel-bounded loops refined to radix expansion; program-equivalence proofs over a regenerated deep "
            "embedding) + extraction-based correspondence", "5 C16"),
    "C19": ("Theorems for every legal accessor of order k >= 1 with its own latter map and every sequence of calls (any flags) up to "
            "the first call that raises: each returning call removes exactly one existing arc, of maximum intersection score, "
            "changes no other entry, and hands back a legal accessor together with exactly its latter map; scores are "
            "non-negative, accessor-shaped and positive only on arcs.  REGENERATED: calculate_intersection_score and remove_nasty_arc are "
            "translated from the current source on every run (MiniPyS deep embedding) and proved equal to the model, value and "
            "exception; C19_scores_source, C19_step_source, C19_total_source, C19_history_source state the property for the source "
            "text.  Also tied to dsw by histories of removals compared after every call (accessors in C / Fortran / strided layout).",
            "Coq proof (invariant by induction over the call list; program-equivalence proofs over a regenerated deep embedding) + "
            "extraction-based correspondence of whole histories", "5 C19"),
    "C20": ("PARTIAL.  Theorems on the model's world: over any history without arc removal the shared arguments are unchanged and "
            "every result equals the result on the initial arguments; a call depends only on the slots it names; arc removal "
            "touches only its two slots.  These are true of any functional model by construction; what gives the check teeth is "
            "the run-time history correspondence: random interleavings on shared objects, byte-level argument snapshots around "
            "every call, verbose on/off, re-execution in a fresh process, and every call compared with the stateless model.  "
            "REGENERATED: every public function is translated from the current source on every run and proved equal to a pure "
            "function of its arguments' values for both values of verbose (under the translator's no-aliasing side condition), and "
            "the progress printer Monitor.__call__ is proved never to raise when current = 0 or total <> 0 (monitor_returns, MiniPyE "
            "with binary64 floats; the clock is an external function).",
            "Coq proof over the API state machine; program-equivalence proofs over a regenerated deep embedding + run-time history "
            "correspondence (snapshots, fresh process, verbose, calling conventions, memory layouts)", "5 C20"),
}

NOT_YET = {}


def main():
    checks = []
    for pid in sorted(CHECKS):
        text, tech, ref = CHECKS[pid]
        checks.append({
            "property_id": pid,
            "quick_cmd": "./check %s --tier quick" % pid,
            "thorough_cmd": "./check %s --tier thorough" % pid,
            "evidence_file": "/verif/evidence/%s.json" % pid,
            "replay_cmd_template": "./check %s --replay {path}" % pid,
            "engine": "coq-model+correspondence",
            "level_claimed": {"category": "proof", "text": text, "design_ref": "DESIGN.md section " + ref},
            "level_note": TB,
            "technique": tech,
        })
    props = [json.loads(l)["id"] for l in open(os.path.join(VERIF, "properties.jsonl"))]
    na = [{"property_id": p, "reason": NOT_YET.get(p, "not claimed yet: model / theorems for this property are still being built (see DESIGN.md status)")}
          for p in props if p not in CHECKS]
    m = {
        "version": 1,
        "setup_cmd": "./setup.sh",
        "hooks": {"guard": "DNASPIDERWEB_VERIF", "enable": "no source hook is needed: checks import dsw from /repo's working tree "
                  "and observe it through ndarray-subclass proxies", "baseline_off_cmd":
                  "cd /repo && /venv/bin/python -m pytest -q -p no:cacheprovider --timeout=900", "source_commits": [],
                  "add_only": True},
        "engines": [{"name": "coq-model+correspondence", "path": "/verif/check",
                     "serves_properties": sorted(CHECKS),
                     "kind_free_text": "Coq 8.16 theorems about a hand-written Gallina model; the model is extracted to OCaml and "
                                       "run against the implementation on generated inputs on every invocation; an independent "
                                       "oracle searches for a failing input when either breaks"}],
        "checks": checks,
        "not_applicable": na,
        "notes": "Fix commits in /repo (genuine defects found while building the proofs) are listed in KNOWN_FINDINGS.json as fixed entries.",
    }
    json.dump(m, open(os.path.join(VERIF, "MANIFEST.json"), "w"), indent=1)


if __name__ == "__main__":
    main()
