#!/venv/bin/python
"""mutation_eval.py -- validate seeded defects and run the checks against them.

  mutation_eval.py import  <src_dir> <prop> <name>   copy <src_dir>/<name>.diff, <name>_demo.py, <name>.txt into seeded/<prop>-<name>/
  mutation_eval.py validate <id>                     apply in a scratch worktree: demo fails, 30 tests pass; revert: demo passes
  mutation_eval.py run <id> [props...]               apply to a scratch worktree and run the quick checks against it (DSW_REPO)
  mutation_eval.py table                             print the detection table (from seeded/*/meta.json)

The scratch worktrees live under /tmp/muteval and are removed after use.  Nothing is ever committed to /repo."""
import json
import os
import shutil
import subprocess
import sys

VERIF = os.path.dirname(os.path.dirname(os.path.abspath(__file__)))
SEEDED = os.path.join(VERIF, "seeded")
PY = "/venv/bin/python"
ALL = ["C%02d" % i for i in range(1, 21)]


def sh(cmd, cwd=None, env=None, timeout=3600):
    p = subprocess.run(cmd, cwd=cwd, env=env, stdout=subprocess.PIPE, stderr=subprocess.STDOUT, universal_newlines=True,
                       timeout=timeout, shell=isinstance(cmd, str))
    return p.returncode, p.stdout


def worktree(tag):
    wt = "/tmp/muteval/" + tag
    os.makedirs("/tmp/muteval", exist_ok=True)
    if os.path.exists(wt):
        sh(["git", "-C", "/repo", "worktree", "remove", "--force", wt])
        shutil.rmtree(wt, ignore_errors=True)
    rc, out = sh(["git", "-C", "/repo", "worktree", "add", "--detach", wt, "HEAD", "-q"])
    assert rc == 0, out
    return wt


def drop(wt):
    sh(["git", "-C", "/repo", "worktree", "remove", "--force", wt])
    shutil.rmtree(wt, ignore_errors=True)


def cmd_import(src, prop, name):
    mid = "%s-%s" % (prop, name)
    d = os.path.join(SEEDED, mid)
    os.makedirs(d, exist_ok=True)
    shutil.copy(os.path.join(src, name + ".diff"), os.path.join(d, "patch.diff"))
    shutil.copy(os.path.join(src, name + "_demo.py"), os.path.join(d, "demo.py"))
    note = open(os.path.join(src, name + ".txt")).read() if os.path.exists(os.path.join(src, name + ".txt")) else ""
    meta = {"id": mid, "property": prop, "needs_to_manifest": note.strip(), "source": "independent sub-agent given only the property text"}
    json.dump(meta, open(os.path.join(d, "meta.json"), "w"), indent=1)
    print("imported", mid)


def load(mid):
    return json.load(open(os.path.join(SEEDED, mid, "meta.json")))


def save(mid, meta):
    json.dump(meta, open(os.path.join(SEEDED, mid, "meta.json"), "w"), indent=1)


def cmd_validate(mid):
    meta = load(mid)
    d = os.path.join(SEEDED, mid)
    wt = worktree("v-" + mid)
    env = dict(os.environ, PYTHONPATH=wt, PYTHONHASHSEED="0")
    res = {}
    try:
        rc, out = sh([PY, os.path.join(d, "demo.py")], cwd=wt, env=env, timeout=900)
        res["demo_on_unchanged"] = rc
        rc, out = sh(["git", "-C", wt, "apply", os.path.join(d, "patch.diff")])
        res["patch_applies"] = rc == 0
        if rc == 0:
            rc, out = sh([PY, os.path.join(d, "demo.py")], cwd=wt, env=env, timeout=900)
            res["demo_with_change"] = rc
            res["demo_message"] = out.strip().split("\n")[-1][:300] if out.strip() else ""
            rc, out = sh([PY, "-m", "pytest", "-q", "-p", "no:cacheprovider", "--timeout=900"], cwd=wt, env=env, timeout=1800)
            res["tests_rc"] = rc
            res["tests_tail"] = out.strip().split("\n")[-1]
    finally:
        drop(wt)
    res["valid"] = bool(res.get("patch_applies") and res.get("demo_on_unchanged") == 0 and res.get("demo_with_change", 0) != 0
                        and res.get("tests_rc") == 0)
    meta["validation"] = res
    meta["what_i_ran"] = ("scratch worktree of /repo HEAD: demo.py on the unchanged tree (must exit 0); git apply patch.diff; demo.py (must "
                          "fail); pytest -q (30 tests must pass); worktree removed")
    save(mid, meta)
    print(mid, "VALID" if res["valid"] else "INVALID", json.dumps(res)[:400])


def cmd_run(mid, props):
    meta = load(mid)
    d = os.path.join(SEEDED, mid)
    wt = worktree("r-" + mid)
    results = {}
    try:
        rc, out = sh(["git", "-C", wt, "apply", os.path.join(d, "patch.diff")])
        assert rc == 0, out
        env = dict(os.environ, DSW_REPO=wt, PYTHONHASHSEED="0", VERIF_SEARCH_SECONDS=os.environ.get("VERIF_SEARCH_SECONDS", "30"))
        procs = {}
        for p in props:
            procs[p] = subprocess.Popen([os.path.join(VERIF, "check"), p, "--tier", "quick"], cwd=VERIF, env=env,
                                        stdout=subprocess.PIPE, stderr=subprocess.STDOUT, universal_newlines=True)
            if len(procs) % 8 == 0:
                for q in list(procs.values()):
                    q.wait()
        for p, pr in procs.items():
            out = pr.communicate()[0]
            vio = [l for l in out.split("\n") if l.startswith("VIOLATION")]
            why = [l.strip() for l in out.split("\n") if l.strip().startswith(("failing input:", "disagreement:"))][:1]
            results[p] = {"exit": pr.returncode, "violation": vio[0] if vio else None, "first_evidence": (why[0][:300] if why else None),
                          "with_failing_input": bool(vio) and not vio[0].endswith("no-failing-input-found")}
    finally:
        drop(wt)
    meta.setdefault("detection", {}).update(results)
    meta["detected_by"] = sorted(p for p, r in meta["detection"].items() if r["exit"] == 1)
    meta["detected_with_failing_input_by"] = sorted(p for p, r in meta["detection"].items() if r["exit"] == 1 and r.get("with_failing_input"))
    meta["detected_by_own_property_check"] = meta["property"] in meta["detected_by"]
    save(mid, meta)
    print(mid, "detected by", meta["detected_by"], "| own:", meta["detected_by_own_property_check"])


def cmd_harvest(mid):
    """run the check of the targeted property against the seeded change and keep the (shrunk) failing input as a corpus entry:
    corpus entries are replayed first on every run"""
    meta = load(mid)
    d = os.path.join(SEEDED, mid)
    prop = meta["property"]
    wt = worktree("h-" + mid)
    try:
        rc, out = sh(["git", "-C", wt, "apply", os.path.join(d, "patch.diff")])
        assert rc == 0, out
        env = dict(os.environ, DSW_REPO=wt, PYTHONHASHSEED="0", VERIF_SEARCH_SECONDS="30")
        rc, out = sh([os.path.join(VERIF, "check"), prop, "--tier", "quick"], cwd=VERIF, env=env)
        vio = [l for l in out.split("\n") if l.startswith("VIOLATION")]
        if vio and "replay=" in vio[0] and not vio[0].endswith("no-failing-input-found"):
            rp = json.load(open(vio[0].split("replay=")[1].split()[0]))
            if rp.get("cases"):
                cdir = os.path.join(VERIF, "corpus", prop)
                os.makedirs(cdir, exist_ok=True)
                json.dump({"origin": "failing input found against seeded change " + mid, "why": rp.get("why"), "cases": rp["cases"][:1]},
                          open(os.path.join(cdir, mid + ".json"), "w"), indent=1)
                print(mid, "harvested")
                return
        print(mid, "nothing to harvest")
    finally:
        drop(wt)


def cmd_table():
    rows = []
    for mid in sorted(os.listdir(SEEDED)):
        mp = os.path.join(SEEDED, mid, "meta.json")
        if not os.path.exists(mp):
            continue
        m = json.load(open(mp))
        first = (m.get("needs_to_manifest", "").split("\n") or [""])[0][:110]
        wf = m.get("detected_with_failing_input_by", m.get("detected_by", []))
        only_tie = [p for p in m.get("detected_by", []) if p not in wf]
        rows.append("| %s | %s | %s | %s | %s | %s |" % (mid, m["property"], "yes" if m.get("validation", {}).get("valid") else "NO",
                                                      ", ".join(wf) or "-", ", ".join(only_tie) or "-", first.replace("|", "/")))
    print("| seeded change | breaks | valid | caught with a failing input by | reported as no-failing-input-found by | what it is |\n|---|---|---|---|---|---|")
    print("\n".join(rows))


if __name__ == "__main__":
    a = sys.argv[1:]
    if a[0] == "import":
        cmd_import(a[1], a[2], a[3])
    elif a[0] == "validate":
        cmd_validate(a[1])
    elif a[0] == "run":
        cmd_run(a[1], a[2:] or ALL)
    elif a[0] == "table":
        cmd_table()
    elif a[0] == "harvest":
        cmd_harvest(a[1])
