"""executes one C20 history in a fresh interpreter: every call on freshly built, equal arguments (no shared state)"""
import json
import os
import sys

sys.path.insert(0, os.path.dirname(os.path.abspath(__file__)))
sys.setrecursionlimit(100000)
import core  # noqa
from props import c20  # noqa


def main():
    p = json.loads(sys.stdin.read())
    w = c20.world(p["seed"], p["k"])
    calls = c20.plan(p["seed"], p["length"], w)
    # replay the history once to know the state each call saw (strand, in-place removals), but execute each call on
    # fresh copies of the arguments as they were at that point
    objs = c20.materialise(w)
    state, out = {}, []
    import copy
    for c in calls:
        fresh_objs = {k: (v.copy() if hasattr(v, "copy") and not isinstance(v, dict) else copy.deepcopy(v)) for k, v in objs.items()}
        fresh_objs["filter"] = c20.gen.make_filter(w["cfg"])
        st = dict(state)
        try:
            ans, _ = c20.execute(fresh_objs, w, c, st)
            ans = [[0]] + ans
        except core.Budget:
            ans = [[2]]
        except Exception as e:  # noqa
            ans = core.exn_answer(e)
        out.append(ans)
        try:
            c20.execute(objs, w, c, state)
        except (Exception, core.Budget):  # noqa
            pass
    print(json.dumps(out))


if __name__ == "__main__":
    main()
