"""core.py -- shared machinery of ./check: proof step (coqc + Print Assumptions), the
correspondence check (extracted Gallina model vs the implementation in /repo), the
independent oracle / violation search, verdicts, replay files and evidence files."""
import collections
import fcntl
import hashlib
import json
import os
import random
import re
import signal
import subprocess
import sys
import time

VERIF = os.path.dirname(os.path.dirname(os.path.abspath(__file__)))
REPO = os.environ.get("DSW_REPO", "/repo")
COQ = os.path.join(VERIF, "coq")
DRIVER = os.path.join(COQ, "extract", "driver")
if REPO not in sys.path:
    sys.path.insert(0, REPO)

FORBIDDEN = re.compile(r"\b(Admitted|admit|Axiom|Axioms|Parameter|Parameters|Conjecture|Admit Obligations)\b"
                       r"|Unset Guard|bypass_check|type-in-type|impredicative-set|Unset Universe Checking"
                       r"|Unset Positivity")

EXN_CODES = {"ValueError": 1, "IndexError": 2, "TypeError": 3, "OverflowError": 4, "KeyError": 5}


class Budget(BaseException):
    """raised inside the implementation when a case exceeds its time / look-up budget"""


# --------------------------------------------------------------------------------- protocol
def tok(i):
    i = int(i)
    if -(1 << 60) < i < (1 << 60):
        return str(i)
    return ("-b" if i < 0 else "b") + bin(abs(i))[2:]


def untok(t):
    if t.startswith("b"):
        return int(t[1:], 2)
    if t.startswith("-b"):
        return -int(t[2:], 2)
    return int(t)


def enc_call(fn, *args):
    parts = [str(fn)]
    for a in args:
        if isinstance(a, (list, tuple)):
            parts.append(",".join(tok(x) for x in a))
        else:
            parts.append(tok(a))
    return ";".join(parts)


def dec_answer(line):
    return [[untok(t) for t in part.split(",")] if part != "" else [] for part in line.rstrip("\n").split(";")]


def s2c(s):
    """python str -> code points"""
    return [ord(c) for c in s]


def c2s(l):
    return "".join(chr(c) for c in l)


def digits(s):
    """decimal str -> digit values"""
    return [int(c) for c in s]


def exn_answer(e):
    return [[1, EXN_CODES.get(type(e).__name__, 6)]]


def guard(fn, enc, seconds=120):
    """run fn(); return (answer, raw).  answer uses the model's status encoding."""
    def on_alarm(signum, frame):
        raise Budget("time budget")
    old = signal.signal(signal.SIGALRM, on_alarm)
    signal.alarm(seconds)
    # the library runs under CPython's DEFAULT recursion limit (the harness raises it for its own oracles): a call that only
    # returns with a raised limit does not "return" for a user
    old_limit = sys.getrecursionlimit()
    sys.setrecursionlimit(1000)
    try:
        try:
            raw = fn()
        finally:
            sys.setrecursionlimit(old_limit)
        signal.alarm(0)
        return [[0]] + enc(raw), raw
    except Budget as b:
        signal.alarm(0)
        return [[2]], b
    except Exception as e:  # noqa
        signal.alarm(0)
        return exn_answer(e), e
    finally:
        signal.alarm(0)
        signal.signal(signal.SIGALRM, old)


class Case(object):
    """one correspondence / oracle case.
    stream  : name of the stream (for the input distribution)
    payload : JSON-able description sufficient to rebuild the case (replay)
    call    : protocol line for the model, or None (oracle-only case)
    impl    : () -> (answer, raw)
    oracle  : (answer, raw) -> None | str        independent statement of the property on the implementation
    domain  : True if the case lies in the domain the property's theorem quantifies over
    nontrivial : counted in distinct_nontrivial
    tags    : strings counted into the input distribution"""

    def __init__(self, stream, payload, call, impl, oracle=None, domain=True, nontrivial=True, tags=(), canon=None):
        self.stream, self.payload, self.call, self.impl = stream, payload, call, impl
        self.oracle, self.domain, self.nontrivial, self.tags = oracle, domain, nontrivial, tuple(tags)
        self.canon = canon      # optional projection applied to both answers before comparing (the property's observable)

    def key(self):
        return hashlib.sha1(json.dumps([self.stream, self.payload], sort_keys=True, default=str).encode()).hexdigest()


# --------------------------------------------------------------------------------- building
def _run(cmd, timeout, cwd=None):
    try:
        p = subprocess.run(cmd, cwd=cwd, stdout=subprocess.PIPE, stderr=subprocess.STDOUT, timeout=timeout,
                           universal_newlines=True)
        return p.returncode, p.stdout
    except subprocess.TimeoutExpired as e:
        return 124, (e.stdout or "") + "\nTIMEOUT"


class Lock(object):
    def __enter__(self):
        self.f = open(os.path.join(VERIF, ".lock"), "w")
        fcntl.flock(self.f, fcntl.LOCK_EX)

    def __exit__(self, *a):
        fcntl.flock(self.f, fcntl.LOCK_UN)
        self.f.close()


def build_all(jobs=8):
    """make the Coq library and the extracted driver if stale.  returns (ok, log)"""
    with Lock():
        log = ""
        if not os.path.exists(os.path.join(COQ, "Makefile")):
            rc, out = _run(["coq_makefile", "-f", "_CoqProject", "-o", "Makefile"], 120, COQ)
            log += out
            if rc != 0:
                return False, log
        rc, out = _run(["timeout", "3000", "make", "-j%d" % jobs], 3100, COQ)
        log += out[-4000:]
        lib_ok = rc == 0
        ex = os.path.join(COQ, "extract")
        src = [os.path.join(COQ, f) for f in os.listdir(COQ) if f.endswith(".v")] + \
              [os.path.join(ex, "Extract.v"), os.path.join(ex, "driver.ml")]
        newest = max(os.path.getmtime(f) for f in src)
        if not os.path.exists(DRIVER) or os.path.getmtime(DRIVER) < newest:
            # the executable model only needs the model files (no proofs): build them explicitly so that a
            # broken proof does not prevent the correspondence from running
            rc, out = _run(["timeout", "900", "make", "-j%d" % jobs, "Dispatch.vo"], 1000, COQ)
            log += out[-2000:]
            rc, out = _run(["timeout", "600", "coqc", "-Q", "..", "DSW", "Extract.v"], 700, ex)
            log += out[-2000:]
            if rc == 0:
                rc, out = _run(["ocamlfind", "ocamlopt", "-O3", "-package", "str", "model.mli", "model.ml",
                                "driver.ml", "-o", "driver"], 600, ex)
                log += out[-2000:]
            if rc != 0:
                return False, log
        return lib_ok, log


def _run_shard(lines):
    p = subprocess.run(["bash", "-c", "ulimit -s unlimited 2>/dev/null; exec " + DRIVER], input="\n".join(lines) + "\n",
                       stdout=subprocess.PIPE, stderr=subprocess.PIPE, universal_newlines=True, timeout=6000)
    out = p.stdout.split("\n")
    if out and out[-1] == "":
        out.pop()
    if len(out) != len(lines):
        raise RuntimeError("model driver returned %d answers for %d calls: %s" % (len(out), len(lines), p.stderr[-500:]))
    return [dec_answer(l) for l in out]


def run_model(lines):
    """feed protocol lines to the extracted model (in parallel shards when there are many), return decoded answers"""
    if not lines:
        return []
    total = sum(len(l) for l in lines)
    shards = 1 if (len(lines) < 400 and total < 2000000) else min(8, max(2, len(lines) // 200))
    if shards == 1:
        return _run_shard(lines)
    from concurrent.futures import ThreadPoolExecutor
    # interleave so that every shard gets a similar mix of cheap and expensive calls
    parts = [lines[i::shards] for i in range(shards)]
    with ThreadPoolExecutor(max_workers=shards) as ex:
        results = list(ex.map(_run_shard, parts))
    out = [None] * len(lines)
    for i, res in enumerate(results):
        out[i::shards] = res
    return out


# --------------------------------------------------------------------------------- proof step
STMT = re.compile(r"^\s*(Theorem|Lemma|Corollary|Example|Fact|Proposition|Remark)\s+([A-Za-z0-9_']+)", re.M)


def strip_comments(text):
    out, depth, i = [], 0, 0
    while i < len(text):
        if text.startswith("(*", i):
            depth += 1
            i += 2
        elif text.startswith("*)", i) and depth > 0:
            depth -= 1
            i += 2
        else:
            if depth == 0:
                out.append(text[i])
            i += 1
    return "".join(out)


def scan_forbidden():
    bad = []
    for root, _, files in os.walk(COQ):
        for f in files:
            if f.endswith(".v"):
                p = os.path.join(root, f)
                for n, line in enumerate(strip_comments(open(p).read()).split("\n"), 1):
                    if FORBIDDEN.search(line):
                        bad.append("%s:%d: %s" % (os.path.relpath(p, VERIF), n, line.strip()))
    return bad


def proof_step(prop, tier):
    """re-check the property file against the compiled library and read Print Assumptions."""
    t0 = time.time()
    info = {"checker_cmd": "make -C coq (coq_makefile, full .vo build) ; coqc -Q coq DSW coq/%s" % prop.PROOF_FILE,
            "ok": False, "messages": []}
    ok, log = build_all()
    if not ok:
        info["messages"].append("library build failed: " + log[-1500:])
    pf = os.path.join(COQ, prop.PROOF_FILE)
    rc, out = _run(["timeout", "900", "coqc", "-Q", COQ, "DSW", pf], 1000, COQ)
    info["coqc_rc"] = rc
    closed = out.count("Closed under the global context")
    import axioms as ax_mod
    axioms = ax_mod.parse_print_assumptions(out)
    text = strip_comments(open(pf).read())
    n_print = len(re.findall(r"Print Assumptions", text))
    allowed = set(getattr(prop, "ALLOWED_AXIOMS", []))
    patterns = [re.compile(x) for x in getattr(prop, "ALLOWED_AXIOM_PATTERNS", [])]
    unexpected = ax_mod.unexpected(axioms, allowed, [x.pattern for x in patterns])
    info["print_assumptions"] = {"commands": n_print, "closed": closed, "axioms": sorted(set(axioms))}
    if rc != 0:
        info["messages"].append("coqc failed on %s: %s" % (prop.PROOF_FILE, out[-1500:]))
    if unexpected:
        info["messages"].append("unexpected axioms: %s" % unexpected)
    if closed + len(re.findall(r"Axioms:", out)) != n_print:
        info["messages"].append("Print Assumptions output incomplete")
    # every theorem name the property claims must be present in the file
    names = set(m.group(2) for m in STMT.finditer(text))
    missing = [t for t in prop.THEOREMS if t not in names]
    if missing:
        info["messages"].append("theorems missing from %s: %s" % (prop.PROOF_FILE, missing))
    forb = scan_forbidden()
    if forb:
        info["messages"].append("forbidden constructs: %s" % forb[:5])
    # obligations = statements in the property's cone, counted on this run
    obligations, discharged, per_file = 0, 0, {}
    for rel in [prop.PROOF_FILE] + list(getattr(prop, "CONE", [])):
        p = os.path.join(COQ, rel)
        if not os.path.exists(p):
            info["messages"].append("cone file missing: " + rel)
            continue
        n = len(STMT.findall(strip_comments(open(p).read())))
        vo = p[:-2] + ".vo"
        built = os.path.exists(vo) and os.path.getmtime(vo) >= os.path.getmtime(p)
        obligations += n
        discharged += n if built else 0
        per_file[rel] = {"statements": n, "vo_current": built}
        if not built:
            info["messages"].append("not compiled: " + rel)
    info.update(obligations=obligations, discharged=discharged, per_file=per_file, theorems=list(prop.THEOREMS))
    if tier == "thorough":
        vo = pf[:-2] + ".vo"
        mod = "DSW." + prop.PROOF_FILE[:-2].replace("/", ".")
        rc2, out2 = _run(["timeout", "3000", "coqchk", "-silent", "-o", "-Q", COQ, "DSW", mod], 3100, COQ)
        info["coqchk_rc"] = rc2
        info["coqchk_tail"] = out2[-1200:]
        if rc2 != 0:
            info["messages"].append("coqchk failed: " + out2[-800:])
    info["ok"] = not info["messages"]
    info["wall_s"] = round(time.time() - t0, 2)
    return info


# --------------------------------------------------------------------------------- findings
def load_known():
    p = os.path.join(VERIF, "KNOWN_FINDINGS.json")
    if not os.path.exists(p):
        return []
    return [f for f in json.load(open(p)).get("findings", [])]


# --------------------------------------------------------------------------------- main flow
def judge(c, a, r):
    """the oracle's verdict on one implementation result; a result the oracle cannot even take apart (wrong shape, wrong type) is a
    failure of the implementation, not a crash of the harness"""
    try:
        return c.oracle(a, r)
    except Exception as e:  # noqa
        return "the result has not the documented form (%s: %s): %r" % (type(e).__name__, e, a if len(repr(a)) < 300 else repr(a)[:300])



def run_property(prop, tier, seed, replay=None):
    t0 = time.time()
    rng = random.Random(seed)
    os.makedirs(os.path.join(VERIF, "evidence"), exist_ok=True)
    os.makedirs(os.path.join(VERIF, "replays"), exist_ok=True)
    proof = proof_step(prop, tier) if replay is None else {"ok": True, "messages": [], "obligations": 0,
                                                            "discharged": 0, "checker_cmd": "(replay)"}
    # ---- the tie between the model and the exact source it was validated against (harness/sourcetie.py)
    import sourcetie
    import roots as roots_mod
    tie_roots = roots_mod.ROOTS.get(prop.ID, [])
    tie = sourcetie.check(REPO, tie_roots) if (tie_roots and replay is None) else []
    # ---- functions whose model is REGENERATED from the current source (harness/translate.py): when the regenerated definitions
    #      are proved equal to the hand-written model, a fingerprint difference of those functions is a harmless rewrite
    regen = {"applies": False, "units": []}
    if tie_roots and replay is None:
        import regen as regen_mod
        funcs_now, _ = sourcetie.scan(REPO)
        cone_now = sourcetie.closure(tie_roots, funcs_now)
        for uname in regen_mod.units_for(cone_now):
            r = regen_mod.run_unit(uname, REPO)
            regen["applies"] = True
            regen["units"].append({k: v for k, v in r.items() if k != "log"})
            if r.get("proved"):
                tie = [d for d in tie if not any(("source of %s " % f) in d for f in r["functions"])]
            elif r.get("generated"):
                proof["ok"] = False
                proof.setdefault("messages", []).append(
                    "the model regenerated from the current source of %s is no longer proved equal to the hand-written model "
                    "(coq/Generated/%s): %s" % (", ".join(r["functions"]), r.get("failed_file", "?"), r.get("log", "")[-400:]))
    # ---- cases: corpus first, then generated
    cases = []
    if replay is not None:
        r = json.load(open(replay))
        for c in r.get("cases", []):
            cases.append(prop.build(c["stream"], c["payload"]))
    else:
        cdir = os.path.join(VERIF, "corpus", prop.ID)
        if os.path.isdir(cdir):
            for f in sorted(os.listdir(cdir)):
                if f.endswith(".json"):
                    for c in json.load(open(os.path.join(cdir, f))).get("cases", []):
                        cases.append(prop.build(c["stream"], c["payload"]))
        n_corpus = len(cases)
        for stream, payload in prop.payloads(rng, tier):
            cases.append(prop.build(stream, payload))
    # ---- implementation side
    answers, raws = [], []
    for c in cases:
        a, r = c.impl()
        answers.append(a)
        raws.append(r)
    # ---- model side
    idx = [i for i, c in enumerate(cases) if c.call is not None]
    model_error = None
    try:
        runner = getattr(prop, "MODEL_RUNNER", run_model)
        model_answers = runner([cases[i].call for i in idx])
    except Exception as e:  # noqa
        model_error = str(e)
        model_answers = [None] * len(idx)
    disagreements, informational = [], []
    for i, ma in zip(idx, model_answers):
        cn = cases[i].canon
        if (cn(ma) if (cn and ma is not None) else ma) != (cn(answers[i]) if cn else answers[i]):
            rec = {"stream": cases[i].stream, "payload": cases[i].payload, "impl": answers[i], "model": ma}
            (disagreements if cases[i].domain else informational).append(rec)
    # ---- oracle on the implementation
    failures, oracle_evals = [], 0
    for c, a, r in zip(cases, answers, raws):
        if c.oracle is not None:
            oracle_evals += 1
            msg = judge(c, a, r)
            if msg:
                failures.append({"stream": c.stream, "payload": c.payload, "impl": a, "why": msg})
    # ---- known findings: a recorded finding is a statement about the algorithm the model describes, so an oracle failure counts as
    # that finding only when the matcher recognises it AND the implementation agrees with the model on this very case
    known = [f for f in load_known() if f.get("property") == prop.ID and f.get("status", "open") == "open"]
    disagree_keys = {json.dumps([d["stream"], d["payload"]], sort_keys=True) for d in disagreements}

    def known_for(f, agrees=None):
        if agrees is None:
            agrees = json.dumps([f["stream"], f["payload"]], sort_keys=True) not in disagree_keys
        if not agrees:
            return None
        for kf in known:
            if hasattr(prop, "known_match") and prop.known_match(kf, f["stream"], f["payload"], f["why"]):
                return kf
        return None
    # ---- violation search when the proof or the correspondence broke and no NEW failing input is at hand
    searched = 0
    if (disagreements or not proof["ok"] or model_error or tie) and not [f for f in failures if known_for(f) is None] and replay is None:
        srng = random.Random(seed + 7919)
        extra = []
        if hasattr(prop, "neighbours"):
            for d in disagreements[:20]:
                extra.extend(prop.neighbours(d["stream"], d["payload"], srng))
        # when the source of a modelled function changed, earlier runs say nothing about the new code: search with the
        # thorough generators under a time budget (oracle on the implementation, cheap) before giving a verdict
        t_search = time.time()
        budget = float(os.environ.get("VERIF_SEARCH_SECONDS", "150" if tier == "quick" else "900"))
        import itertools
        stream_iter = itertools.chain(extra, prop.payloads(srng, "search"),
                                      prop.payloads(srng, "thorough") if tie else [])
        for stream, payload in stream_iter:
            c = prop.build(stream, payload)
            if c.oracle is None:
                continue
            a, r = c.impl()
            searched += 1
            msg = judge(c, a, r)
            if msg:
                f = {"stream": c.stream, "payload": c.payload, "impl": a, "why": msg}
                agrees = False
                if c.call is not None and known_for(f, agrees=True) is not None:
                    try:
                        ma = getattr(prop, "MODEL_RUNNER", run_model)([c.call])[0]
                        agrees = (c.canon(ma) if (c.canon and ma is not None) else ma) == (c.canon(a) if c.canon else a)
                    except Exception:  # noqa
                        agrees = False
                if known_for(f, agrees=agrees) is not None:
                    continue                       # the recorded finding again (model and implementation agree): keep searching
                disagree_keys.add(json.dumps([f["stream"], f["payload"]], sort_keys=True))
                failures.append(f)
                break
            if time.time() - t_search > budget:
                break
    known_hit, new_failures = {}, []
    for f in failures:
        hit = known_for(f)
        if hit is not None:
            known_hit.setdefault(hit["id"], {"finding": hit, "count": 0, "example": f})["count"] += 1
        else:
            new_failures.append(f)
    # ---- verdict
    violation, replay_path, suffix = False, None, ""
    if new_failures or disagreements or model_error or not proof["ok"] or tie:
        violation = True
        rp = {"property": prop.ID, "seed": seed, "tier": tier}
        if new_failures:
            first = new_failures[0]
            if hasattr(prop, "shrink"):
                first = shrink_failure(prop, first)
            rp["kind"] = "failing-input"
            rp["cases"] = [{"stream": first["stream"], "payload": first["payload"]}]
            rp["why"] = first["why"]
            rp["impl_answer"] = first["impl"]
            rp["other_failures"] = len(new_failures) - 1
        else:
            suffix = " no-failing-input-found"
            rp["kind"] = "no-failing-input-found"
            rp["broken"] = []
            if not proof["ok"]:
                rp["broken"].append({"proof": prop.PROOF_FILE, "theorems": list(prop.THEOREMS), "messages": proof["messages"]})
            if disagreements:
                rp["broken"].append({"correspondence": sorted(set(d["stream"] for d in disagreements)),
                                     "model_functions": list(getattr(prop, "MODEL_FUNCTIONS", []))})
            if model_error:
                rp["broken"].append({"model_driver": model_error})
            if tie:
                rp["broken"].append({"source_tie": tie, "meaning": "the source of these functions is not the source the model and "
                                     "its theorems were validated against; the property is no longer shown to hold for the "
                                     "new code (theorems: %s)" % ", ".join(prop.THEOREMS)})
            rp["cases"] = [{"stream": d["stream"], "payload": d["payload"]} for d in disagreements[:10]]
            rp["searched_for_failing_input"] = searched
        rp["disagreements"] = disagreements[:10]
        replay_path = os.path.join(VERIF, "replays", "%s-%s-%d.json" % (prop.ID, tier, seed))
        json.dump(rp, open(replay_path, "w"), indent=1, default=str)
    # ---- evidence
    dist = collections.Counter()
    for c in cases:
        dist[c.stream] += 1
        for t in c.tags:
            dist[t] += 1
    status = collections.Counter("raise" if a and a[0][:1] == [1] else "budget" if a == [[2]] else "ok" for a in answers)
    nontriv = set(c.key() for c in cases if c.nontrivial)
    samples = [{"stream": c.stream, "payload": c.payload, "impl_answer": a if len(json.dumps(a)) < 400 else "(long)"}
               for c, a in list(zip(cases, answers))[:: max(1, len(cases) // 6)][:6]]
    tb = list(prop.TRUSTED_BASE)
    ev = {
        "property_id": prop.ID, "tier": tier, "seed": seed, "level": "proof",
        "coverage": {
            "obligations": proof.get("obligations", 0), "discharged": proof.get("discharged", 0),
            "checker_cmd": proof.get("checker_cmd", ""), "trusted_base": tb,
            "theorems": proof.get("theorems", []), "print_assumptions": proof.get("print_assumptions", {}),
            "proof_files": proof.get("per_file", {}), "proof_messages": proof.get("messages", []),
            "evaluations": len(cases), "distinct_nontrivial": len(nontriv),
            "rule": prop.RULE, "samples": samples,
            "traces_validated_against_impl": len(idx),
            "correspondence": {"compared": len(idx), "disagreements_in_domain": len(disagreements),
                               "informational_disagreements": len(informational),
                               "informational_examples": informational[:3], "model_functions":
                                   list(getattr(prop, "MODEL_FUNCTIONS", [])), "model_error": model_error},
            "oracle": {"evaluations": oracle_evals, "failures": len(failures), "new_failures": len(new_failures),
                       "searched_after_break": searched},
            "regenerated_model": regen,
            "source_tie": {"roots": tie_roots, "differences": tie,
                           "rule": "SHA-256 of the docstring-free AST of every dsw function reachable from the roots, and of the "
                                   "module-level code of their files, compared with harness/fingerprints.json"},
            "input_distribution": dict(dist), "impl_outcomes": dict(status),
            "known_findings_hit": {k: v["count"] for k, v in known_hit.items()},
            "exhaustive": bool(getattr(prop, "EXHAUSTIVE", {}).get(tier, False)),
        },
        "assumptions": list(prop.ASSUMPTIONS),
        "wall_s": round(time.time() - t0, 2),
        "violations": (len(new_failures) if new_failures else 1) if violation else 0,
    }
    if replay is None:
        json.dump(ev, open(os.path.join(VERIF, "evidence", prop.ID + ".json"), "w"), indent=1, default=str)
    for k, v in known_hit.items():
        print("KNOWN-FINDING: property=%s %s (%s; %d case(s) this run)" % (prop.ID, k, v["finding"]["what_fails"], v["count"]))
    print("%s %s: proof %s (%d/%d obligations), %d cases, %d compared with the model, %d disagreements "
          "(%d informational), oracle %d evaluations / %d failures, %.1fs" % (
              prop.ID, tier, "ok" if proof["ok"] else "BROKEN", proof.get("discharged", 0), proof.get("obligations", 0),
              len(cases), len(idx), len(disagreements), len(informational), oracle_evals, len(failures),
              time.time() - t0))
    if violation:
        for m in proof.get("messages", [])[:5]:
            print("  proof: " + m[:600])
        for m in tie[:6]:
            print("  source tie: " + m)
        for d in disagreements[:3]:
            print("  disagreement: " + json.dumps(d, default=str)[:600])
        for f in new_failures[:3]:
            print("  failing input: " + json.dumps(f, default=str)[:600])
        print("VIOLATION property=%s replay=%s%s" % (prop.ID, replay_path, suffix))
        return 1
    return 0


def shrink_failure(prop, failure):
    """greedy shrinking: accept any smaller payload on which the oracle still fails"""
    cur = failure
    t_end = time.time() + float(os.environ.get("VERIF_SHRINK_SECONDS", "60"))
    for _ in range(200):
        progressed = False
        for payload in prop.shrink(cur["stream"], cur["payload"]):
            if time.time() > t_end:
                return cur
            try:
                c = prop.build(cur["stream"], payload)
                a, r = c.impl()
                msg = judge(c, a, r) if c.oracle else None
            except Exception:  # noqa
                msg = None
            if msg:
                cur = {"stream": cur["stream"], "payload": payload, "impl": a, "why": msg}
                progressed = True
                break
        if not progressed:
            break
    return cur
