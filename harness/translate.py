"""translate.py -- a small fail-closed translator from the Python source of the two arithmetic functions at the bottom of every
graph (dsw/graphized.py: obtain_latters, obtain_formers) to Gallina.  It is run on every invocation of the checks that depend
on them: the generated definitions are compiled together with coq/Generated/KmerGenProofs.v, which proves them equal to the
hand-written model Kmer.obtain_latters / Kmer.obtain_formers that all the theorems are about.  So for these two functions the
model is REGENERATED from the current source and the theorems are re-checked against what the code says now; a rewrite that
keeps the arithmetic meaning (reordered operands, renamed variables, different but equal expressions) still proves, a rewrite
that changes it breaks the proof.  Anything outside the recognised shape makes the translator refuse (fail closed), and the
AST fingerprint of harness/sourcetie.py then decides.

Recognised shape (exactly what the two functions look like):
    def f(current, observed_length):
        [docstring]
        nucleotides = "ACGT"
        acc = []
        for v in range(len(nucleotides)):
            x = <expr>
            acc.append(x)
        return acc
<expr> ::= int literal | current | observed_length | v | len(nucleotides) | int(<expr>) | <expr> (+|-|*|//|%|**) <expr>
Python's  //  and  %  on integers are Coq's Z.div and Z.modulo (both floor / sign of the divisor);  a ** b  is  Z.pow a b
for b >= 0, and int(a ** b) for b = -1 (the only negative exponent that can occur: observed_length - 1 with observed_length = 0)
is int(1/a) = 0 for a >= 2, which is also what Z.pow returns for a negative exponent."""
import ast
import os

FUNCS = ["obtain_latters", "obtain_formers"]


class Refuse(Exception):
    pass


def _expr(e, params, loopvar, strname):
    if isinstance(e, ast.Constant) and isinstance(e.value, int) and not isinstance(e.value, bool):
        return "(%d)" % e.value
    if isinstance(e, ast.Name):
        if e.id in params or e.id == loopvar:
            return e.id
        raise Refuse("unknown name %s" % e.id)
    if isinstance(e, ast.Call) and isinstance(e.func, ast.Name) and not e.keywords and len(e.args) == 1:
        if e.func.id == "len" and isinstance(e.args[0], ast.Name) and e.args[0].id == strname:
            return "(4)"
        if e.func.id == "int":
            return _expr(e.args[0], params, loopvar, strname)
        raise Refuse("call to %s" % e.func.id)
    if isinstance(e, ast.BinOp):
        a, b = _expr(e.left, params, loopvar, strname), _expr(e.right, params, loopvar, strname)
        ops = {ast.Add: "(%s + %s)", ast.Sub: "(%s - %s)", ast.Mult: "(%s * %s)", ast.FloorDiv: "(%s / %s)",
               ast.Mod: "(%s mod %s)", ast.Pow: "(%s ^ %s)"}
        for k, fmt in ops.items():
            if isinstance(e.op, k):
                return fmt % (a, b)
        raise Refuse("operator %s" % type(e.op).__name__)
    raise Refuse("expression %s" % type(e).__name__)


def translate_function(fn):
    body = list(fn.body)
    if body and isinstance(body[0], ast.Expr) and isinstance(getattr(body[0], "value", None), ast.Constant) \
            and isinstance(body[0].value.value, str):
        body = body[1:]
    params = [a.arg for a in fn.args.args]
    if params != ["current", "observed_length"] or fn.args.vararg or fn.args.kwarg or fn.args.kwonlyargs or fn.args.defaults:
        raise Refuse("signature")
    if len(body) != 4:
        raise Refuse("body has %d statements" % len(body))
    s0, s1, s2, s3 = body
    if not (isinstance(s0, ast.Assign) and len(s0.targets) == 1 and isinstance(s0.targets[0], ast.Name)
            and isinstance(s0.value, ast.Constant) and s0.value.value == "ACGT"):
        raise Refuse("first statement is not  name = \"ACGT\"")
    strname = s0.targets[0].id
    if not (isinstance(s1, ast.Assign) and len(s1.targets) == 1 and isinstance(s1.targets[0], ast.Name)
            and isinstance(s1.value, ast.List) and not s1.value.elts):
        raise Refuse("second statement is not  name = []")
    acc = s1.targets[0].id
    if not (isinstance(s2, ast.For) and isinstance(s2.target, ast.Name) and not s2.orelse and isinstance(s2.iter, ast.Call)
            and isinstance(s2.iter.func, ast.Name) and s2.iter.func.id == "range" and len(s2.iter.args) == 1
            and not s2.iter.keywords and _expr(s2.iter.args[0], [], None, strname) == "(4)"):
        raise Refuse("loop is not  for v in range(len(%s))" % strname)
    loopvar = s2.target.id
    if loopvar in params or len(s2.body) != 2:
        raise Refuse("loop body")
    b0, b1 = s2.body
    if not (isinstance(b0, ast.Assign) and len(b0.targets) == 1 and isinstance(b0.targets[0], ast.Name)):
        raise Refuse("loop body: first statement is not an assignment")
    tmp = b0.targets[0].id
    if tmp in params or tmp == loopvar:
        raise Refuse("loop body: assignment shadows a variable")
    if not (isinstance(b1, ast.Expr) and isinstance(b1.value, ast.Call) and isinstance(b1.value.func, ast.Attribute)
            and b1.value.func.attr == "append" and isinstance(b1.value.func.value, ast.Name) and b1.value.func.value.id == acc
            and len(b1.value.args) == 1 and isinstance(b1.value.args[0], ast.Name) and b1.value.args[0].id == tmp):
        raise Refuse("loop body: second statement is not  %s.append(%s)" % (acc, tmp))
    if not (isinstance(s3, ast.Return) and isinstance(s3.value, ast.Name) and s3.value.id == acc):
        raise Refuse("last statement is not  return %s" % acc)
    e = _expr(b0.value, params, loopvar, strname)
    return ("Definition %s_gen (current observed_length : Z) : list Z :=\n  map (fun %s : Z => %s) [0; 1; 2; 3].\n"
            % (fn.name, loopvar, e))


def generate(repo, out_path):
    """write the generated Gallina file; raises Refuse if a function is not in the recognised shape"""
    tree = ast.parse(open(os.path.join(repo, "dsw", "graphized.py")).read())
    defs = {n.name: n for n in tree.body if isinstance(n, ast.FunctionDef)}
    parts = ["(* GENERATED by harness/translate.py from %s/dsw/graphized.py -- do not edit *)\n"
             "From Coq Require Import ZArith List.\nImport ListNotations.\nOpen Scope Z_scope.\n" % repo]
    for f in FUNCS:
        if f not in defs:
            raise Refuse("function %s not found" % f)
        parts.append(translate_function(defs[f]))
    open(out_path, "w").write("\n".join(parts))
    return FUNCS


if __name__ == "__main__":
    import sys
    generate(sys.argv[1] if len(sys.argv) > 1 else "/repo", "/dev/stdout")
