"""the functions of dsw each property depends on directly (their callees inside dsw are added automatically)"""
CODER = ["encode", "decode", "set_vt"]
REPAIR = ["repair_dna", "path_matching", "set_vt"]
ALL_PUBLIC = ["encode", "decode", "set_vt", "repair_dna", "find_vertices", "connect_valid_graph", "connect_coding_graph",
              "remove_nasty_arc", "create_random_shuffles", "get_complete_accessor", "accessor_to_adjacency_matrix",
              "adjacency_matrix_to_accessor", "accessor_to_latter_map", "latter_map_to_accessor", "remove_useless",
              "obtain_formers", "obtain_latters", "obtain_vertices", "obtain_leaf_vertices", "approximate_capacity",
              "path_matching", "calculate_intersection_score", "calculus_addition", "calculus_subtraction",
              "calculus_multiplication", "calculus_division", "bit_to_number", "number_to_bit", "dna_to_number", "number_to_dna",
              "LocalBioFilter.__init__", "LocalBioFilter.valid", "DefaultBioFilter.__init__", "DefaultBioFilter.valid",
              "Monitor.__init__", "Monitor.__call__"]
ROOTS = {
    "C01": CODER,
    "C02": ["find_vertices", "connect_coding_graph", "encode", "LocalBioFilter.__init__", "LocalBioFilter.valid"],
    "C03": ["connect_coding_graph", "remove_useless", "latter_map_to_accessor", "accessor_to_latter_map", "connect_valid_graph"],
    "C04": ["connect_coding_graph", "encode"],
    "C05": ["encode", "decode"],
    "C06": ["decode", "set_vt"],
    "C07": ["set_vt", "decode", "number_to_dna"],
    "C08": REPAIR + ["connect_coding_graph"],
    "C09": REPAIR,
    "C10": REPAIR,
    "C11": ["find_vertices", "connect_valid_graph"],
    "C12": ["LocalBioFilter.__init__", "LocalBioFilter.valid"],
    "C13": ["obtain_latters", "obtain_formers", "get_complete_accessor", "number_to_dna", "dna_to_number"],
    "C14": ["accessor_to_latter_map", "latter_map_to_accessor", "accessor_to_adjacency_matrix", "adjacency_matrix_to_accessor",
            "obtain_vertices", "obtain_leaf_vertices"],
    "C15": ["calculus_addition", "calculus_subtraction", "calculus_multiplication", "calculus_division"],
    "C16": ["bit_to_number", "number_to_bit", "dna_to_number", "number_to_dna"],
    "C17": ["approximate_capacity"],
    "C18": ["create_random_shuffles", "encode", "decode"],
    "C19": ["remove_nasty_arc", "calculate_intersection_score"],
    "C20": ALL_PUBLIC,
}
