"""translate_minipy.py -- Python source of dsw/operation.py  ->  a term of the deep embedding coq/MiniPy.v.

The translation is purely syntactic: one MiniPy constructor per Python ast node, nothing is evaluated, simplified or
reordered here.  What the term MEANS is defined in Coq (MiniPy.run_fun); what it is EQUAL to is proved in
coq/Generated/OperationGenProofs.v against the regenerated term, on every run.  Anything outside the fragment makes the
translator refuse (fail closed) and the AST fingerprints of harness/sourcetie.py decide instead.

Besides syntax the translator checks the one side condition the value semantics of MiniPy needs -- NO ALIASING OF A LIST
THAT IS MUTATED IN PLACE:
  * a name that is the object of  x[i] = ..,  x[i] op= ..,  x.append(..),  x.insert(..)  ("mutated name") is only ever
    bound to a fresh object (list display, comprehension, list(..)/map(..)/join(..) call, arithmetic); if it is a parameter,
    an unconditional fresh re-binding at function level precedes every mutation;
  * a mutated name never occurs as a bare right-hand side, inside a list / tuple display, or as an argument of another
    function of the module (those would create a second reference);
  * the iterable of a for loop does not mention a name mutated in the loop body, unless the iterable is a range(..)
    (whose bounds Python evaluates once, like MiniPy).
Monitor() (progress output) is an opaque value and a call of it an expression statement whose arguments are evaluated and
dropped: console output is not modelled."""
import ast
import os

FUNCS = ["calculus_addition", "calculus_subtraction", "calculus_multiplication", "calculus_division",
         "bit_to_number", "number_to_bit", "dna_to_number", "number_to_dna"]
EXNS = {"ValueError": "ValueError", "IndexError": "IndexError", "TypeError": "TypeError", "OverflowError": "OverflowError",
        "KeyError": "KeyError"}
BINOPS = {ast.Add: "Add", ast.Sub: "Sub", ast.Mult: "Mul", ast.FloorDiv: "FloorDiv", ast.Mod: "Mod", ast.Pow: "Pow"}
CMPOPS = {ast.Eq: "CEq", ast.NotEq: "CNe", ast.Lt: "CLt", ast.LtE: "CLe", ast.Gt: "CGt", ast.GtE: "CGe"}
TYPES = {"str": "TStr", "int": "TInt", "list": "TList"}
B1 = {"len": "BLen", "int": "BInt", "str": "BStr", "list": "BList", "enumerate": "BEnumerate"}


class Refuse(Exception):
    pass


def qs(name):
    if not all(part.isidentifier() for part in name.split(".")) or '"' in name:
        raise Refuse("name %r" % name)
    return '"%s"%%string' % name


def codepoints(s):
    return "[" + "; ".join(str(ord(c)) for c in s) + "]"


def coq_list(items):
    return "[" + "; ".join(items) + "]"


def borrowed_params(fdef):
    """parameters a function only READS: never mutated in place, never re-bound, never returned / stored / copied as a bare name,
    never handed on to another call as a bare argument except to len(): passing a mutable object for such a parameter cannot
    create a second reference that outlives the call"""
    out = set()
    for a in fdef.args.args:
        p = a.arg
        ok = True
        for n in ast.walk(fdef):
            if isinstance(n, ast.Name) and n.id == p and isinstance(n.ctx, (ast.Store, ast.Del)):
                ok = False
            if isinstance(n, (ast.Assign, ast.AugAssign)):
                for t in (n.targets if isinstance(n, ast.Assign) else [n.target]):
                    if isinstance(t, ast.Subscript) and isinstance(t.value, ast.Name) and t.value.id == p:
                        ok = False
                    if isinstance(t, ast.Subscript) and isinstance(t.value, ast.Subscript) and isinstance(t.value.value, ast.Name) \
                            and t.value.value.id == p:
                        ok = False
                v = n.value
                for val in [v] + (list(v.elts) if isinstance(v, (ast.Tuple, ast.List)) else []):
                    if isinstance(val, ast.Name) and val.id == p:
                        ok = False
            if isinstance(n, ast.Return) and n.value is not None:
                for val in [n.value] + (list(n.value.elts) if isinstance(n.value, (ast.Tuple, ast.List)) else []):
                    if isinstance(val, ast.Name) and val.id == p:
                        ok = False
            if isinstance(n, ast.Call):
                fname = n.func.id if isinstance(n.func, ast.Name) else None
                for val in list(n.args) + [k.value for k in n.keywords]:
                    if isinstance(val, ast.Name) and val.id == p and fname != "len":
                        ok = False
                if isinstance(n.func, ast.Attribute) and isinstance(n.func.value, ast.Name) and n.func.value.id == p \
                        and n.func.attr in ("append", "insert", "extend", "pop", "remove", "sort", "reverse", "clear", "fill", "resize"):
                    ok = False
            if isinstance(n, (ast.List, ast.Tuple, ast.Dict, ast.Set)) and isinstance(getattr(n, "ctx", ast.Load()), ast.Load):
                for val in (n.elts if not isinstance(n, ast.Dict) else list(n.keys) + list(n.values)):
                    if isinstance(val, ast.Name) and val.id == p:
                        ok = False
        if ok:
            out.add(p)
    return out


class Fn:
    """translation context of one function"""

    def __init__(self, node, sigs, method=False, floats=False, numpy=(), graph=False, objects=(), coding=False, repair=False,
                 itertools=(), score=False, collections=(), inplace=(), matrix=False, capacity=False, shuffle=False, monitor=False):
        self.node = node
        self.sigs = sigs                      # name -> (params, {param: default ast})
        self.method = method                  # a method: `self.x` is the variable "self.x"; attributes read become parameters
        self.floats = floats                  # target MiniPyF.v (None tests, substring tests, count / replace / upper)
        self.numpy = set(numpy)               # names the module imports from numpy (where, argsort, sum, array, zeros)
        self.graph = graph                    # target MiniPyG.v (dicts, break, 2-D stores, masks, astype, true division)
        self.objects = set(objects)           # parameters that are objects whose methods are callees: p.m(x) is ECall "p.m"
        self.coding = coding                  # target MiniPyH.v (conditional comprehensions, chained comparisons, any / all / copy)
        self.borrowing = {}                   # callee name -> parameters it only reads (set by the generator)
        self.repair = repair                  # target MiniPyR.v (sets, del, zip, product, sorted, filter-lambda)
        self.itertools = set(itertools)       # names imported from itertools (product)
        self.score = score                    # target MiniPyS.v (combinations, union1d, unique, intersect1d, argmax, max, Counter ...)
        self.collections = set(collections)   # names imported from collections (Counter)
        self.inplace = set(inplace)           # parameters the function is documented to update in place and hands back
        self.monitor = monitor                # target MiniPyE.v (the progress printer: datetime externals, %-formatting, print to "__out__")
        self.shuffle = shuffle                # target MiniPyD.v (a[:, j] = v, the row-shuffle statement, external random.seed)
        self.capacity = capacity              # target MiniPyC.v (floats, float arrays, median, the random stream, external log2 / pow)
        self.matrix = matrix                  # target MiniPyM.v (shape[1], min, set(list) | set(list), list(set) external, fancy stores)
        self.params = [a.arg for a in node.args.args]
        a = node.args
        if a.vararg or a.kwarg or a.kwonlyargs or a.posonlyargs or node.decorator_list:
            raise Refuse("%s: signature" % node.name)
        self.attrs_read, self.attrs_written = [], []
        if method:
            if not self.params or self.params[0] != "self":
                raise Refuse("%s: first parameter is not self" % node.name)
            self.params = self.params[1:]
            for n in ast.walk(node):
                if isinstance(n, ast.Name) and n.id == "self":
                    pass
            for n in ast.walk(node):
                if isinstance(n, ast.Attribute) and isinstance(n.value, ast.Name) and n.value.id == "self":
                    tgt = self.attrs_written if isinstance(n.ctx, ast.Store) else self.attrs_read
                    if n.attr not in tgt:
                        tgt.append(n.attr)
            # self may only occur as  self.<attr>  (never passed on, never re-bound)
            attr_selfs = {id(n.value) for n in ast.walk(node) if isinstance(n, ast.Attribute) and isinstance(n.value, ast.Name)
                          and n.value.id == "self"}
            for n in ast.walk(node):
                if isinstance(n, ast.Name) and n.id == "self" and id(n) not in attr_selfs:
                    raise Refuse("%s: self used other than as self.<attribute>" % node.name)
        self.monitors = set()
        self.assigned = set(self.params) | {"self." + x for x in self.attrs_read + self.attrs_written}
        for n in ast.walk(node):
            if isinstance(n, ast.Name) and isinstance(n.ctx, ast.Store):
                self.assigned.add(n.id)
            if isinstance(n, (ast.Global, ast.Nonlocal, ast.FunctionDef)) and n is not node:
                raise Refuse("%s: %s" % (node.name, type(n).__name__))
            if isinstance(n, ast.Lambda) and not repair:
                raise Refuse("%s: Lambda" % node.name)
            if isinstance(n, ast.Assign) and isinstance(n.value, ast.Call) and isinstance(n.value.func, ast.Name) \
                    and n.value.func.id == "Monitor":
                if len(n.targets) != 1 or not isinstance(n.targets[0], ast.Name) or n.value.args or n.value.keywords:
                    raise Refuse("Monitor() binding")
                self.monitors.add(n.targets[0].id)
        for n in ast.walk(node):              # ... or through a tuple assignment  a, m, b = (x, Monitor(), y)
            if isinstance(n, ast.Assign) and len(n.targets) == 1 and isinstance(n.targets[0], ast.Tuple) \
                    and isinstance(n.value, ast.Tuple) and len(n.value.elts) == len(n.targets[0].elts):
                for t, v in zip(n.targets[0].elts, n.value.elts):
                    if isinstance(v, ast.Call) and isinstance(v.func, ast.Name) and v.func.id == "Monitor":
                        if not isinstance(t, ast.Name) or v.args or v.keywords:
                            raise Refuse("Monitor() binding")
                        self.monitors.add(t.id)
        for m in self.monitors:               # a monitor name is bound exactly once, to Monitor()
            stores = [n for n in ast.walk(node) if isinstance(n, ast.Name) and n.id == m and isinstance(n.ctx, ast.Store)]
            if len(stores) != 1 or m in self.params:
                raise Refuse("monitor name re-bound")

    # ---------------------------------------------------------------- expressions
    def expr(self, e):
        if self.monitor:
            # datetime.now()
            if self.is_now(e):
                return "(ECall %s [])" % qs("__now__")
            # (datetime.now() - t).total_seconds()
            if isinstance(e, ast.Call) and isinstance(e.func, ast.Attribute) and e.func.attr == "total_seconds" and not e.args \
                    and not e.keywords and isinstance(e.func.value, ast.BinOp) and isinstance(e.func.value.op, ast.Sub) \
                    and self.is_now(e.func.value.left):
                return "(ECall %s [%s])" % (qs("__elapsed__"), self.expr(e.func.value.right))
            # "%04d:%02d:%02d" % (h, m, s)
            if isinstance(e, ast.BinOp) and isinstance(e.op, ast.Mod) and isinstance(e.left, ast.Constant) \
                    and e.left.value == "%04d:%02d:%02d" and isinstance(e.right, ast.Tuple) and len(e.right.elts) == 3:
                return "(EB1 BFmtHMS %s)" % self.expr(e.right)
            # a.replace(b, c)
            if isinstance(e, ast.Call) and isinstance(e.func, ast.Attribute) and e.func.attr == "replace" and len(e.args) == 2 \
                    and not e.keywords:
                return "(EReplace %s %s %s)" % (self.expr(e.func.value), self.expr(e.args[0]), self.expr(e.args[1]))
        if self.capacity:
            if isinstance(e, ast.Constant) and isinstance(e.value, float):
                if e.value != e.value or e.value in (float("inf"), float("-inf")):
                    raise Refuse("non-finite float literal")
                return "(EFloat (%s)%%float)" % float(e.value).hex()
            # a ** b : ints with a negative exponent give a float computed by libm -- the external "__pow__"
            if isinstance(e, ast.BinOp) and isinstance(e.op, ast.Pow):
                return "(ECall %s [%s; %s])" % (qs("__pow__"), self.expr(e.left), self.expr(e.right))
            # "%.5f" % x  (only ever printed)
            if isinstance(e, ast.BinOp) and isinstance(e.op, ast.Mod) and isinstance(e.left, ast.Constant) and e.left.value == "%.5f":
                return "(EB1 BFmtFloat %s)" % self.expr(e.right)
            if isinstance(e, ast.Call) and isinstance(e.func, ast.Name) and e.func.id in self.numpy and e.func.id not in self.assigned:
                name, kws = e.func.id, {k.arg: k.value for k in e.keywords}
                one = {"all": "BNpAllAny", "abs": "BAbs", "zeros_like": "BZerosLike", "median": "BMedian"}
                if name in one and len(e.args) == 1 and not kws:
                    return "(EB1 %s %s)" % (one[name], self.expr(e.args[0]))
                if name == "log2" and len(e.args) == 1 and not kws:
                    return "(ECall %s [%s])" % (qs("__log2__"), self.expr(e.args[0]))
                if name == "ones" and not e.args and set(kws) == {"shape", "dtype"} and isinstance(kws["dtype"], ast.Name) \
                        and kws["dtype"].id == "float" and "float" not in self.assigned and isinstance(kws["shape"], ast.Tuple) \
                        and len(kws["shape"].elts) == 1:
                    return "(EB1 BNpOnesF %s)" % self.expr(kws["shape"].elts[0])
        if self.matrix:
            # a.shape[1]
            if isinstance(e, ast.Subscript) and isinstance(e.value, ast.Attribute) and e.value.attr == "shape" \
                    and isinstance(e.slice, ast.Constant) and e.slice.value == 1 and type(e.slice.value) is int:
                return "(EB1 BShape1 %s)" % self.expr(e.value.value)
            # set(x) | set(y)
            if isinstance(e, ast.BinOp) and isinstance(e.op, ast.BitOr) and all(self.is_set_of(x) for x in (e.left, e.right)):
                return "(EB2 BSetUnion %s %s)" % (self.expr(e.left), self.expr(e.right))
            if self.is_set_of(e):
                return "(EB1 BSetOf %s)" % self.expr(e.args[0])
            # list(<a set>): the iteration order of a set is the external function "__list_of_set__"
            if isinstance(e, ast.Call) and isinstance(e.func, ast.Name) and e.func.id == "list" and "list" not in self.assigned \
                    and len(e.args) == 1 and not e.keywords and isinstance(e.args[0], ast.BinOp) and isinstance(e.args[0].op, ast.BitOr):
                return "(ECall %s [%s])" % (qs("__list_of_set__"), self.expr(e.args[0]))
        if isinstance(e, ast.Constant):
            v = e.value
            if v is None:
                return "ENone"
            if isinstance(v, bool):
                return "(EBoolLit %s)" % ("true" if v else "false")
            if isinstance(v, int):
                return "(EInt (%d))" % v
            if isinstance(v, str):
                return "(EStr %s)" % codepoints(v)
            raise Refuse("constant %r" % (v,))
        if isinstance(e, ast.Name):
            if e.id in self.monitors:
                raise Refuse("monitor object used as a value")
            if e.id in self.objects:
                raise Refuse("object parameter %s used as a value" % e.id)
            if e.id not in self.assigned:
                raise Refuse("free name %s" % e.id)
            return "(EVar %s)" % qs(e.id)
        if isinstance(e, ast.Attribute) and self.method and isinstance(e.value, ast.Name) and e.value.id == "self":
            return "(EVar %s)" % qs("self." + e.attr)
        if isinstance(e, ast.BinOp):
            if self.graph and isinstance(e.op, ast.Div):
                return "(EBin TrueDiv %s %s)" % (self.expr(e.left), self.expr(e.right))
            if type(e.op) not in BINOPS:
                raise Refuse("operator %s" % type(e.op).__name__)
            return "(EBin %s %s %s)" % (BINOPS[type(e.op)], self.expr(e.left), self.expr(e.right))
        if isinstance(e, ast.UnaryOp):
            if isinstance(e.op, ast.Not):
                return "(ENot %s)" % self.expr(e.operand)
            if isinstance(e.op, ast.USub):
                if isinstance(e.operand, ast.Constant) and isinstance(e.operand.value, int) and not isinstance(e.operand.value, bool):
                    return "(EInt (%d))" % (-e.operand.value)
                return "(EBin Sub (EInt 0) %s)" % self.expr(e.operand)
            raise Refuse("unary %s" % type(e.op).__name__)
        if isinstance(e, ast.BoolOp):
            parts = [self.expr(v) for v in e.values]
            c = "EAnd" if isinstance(e.op, ast.And) else "EOr"
            out = parts[-1]
            for p in reversed(parts[:-1]):
                out = "(%s %s %s)" % (c, p, out)
            return out
        if isinstance(e, ast.Compare):
            if self.coding and len(e.ops) == 2 and all(type(o) in CMPOPS for o in e.ops) \
                    and isinstance(e.comparators[0], (ast.Name, ast.Constant)):
                # a < b < c  is  (a < b) and (b < c)  with b evaluated once: b is a name or a constant here
                first = ast.Compare(left=e.left, ops=[e.ops[0]], comparators=[e.comparators[0]])
                second = ast.Compare(left=e.comparators[0], ops=[e.ops[1]], comparators=[e.comparators[1]])
                return "(EAnd %s %s)" % (self.expr(first), self.expr(second))
            l, r = e.left, e.comparators[0]
            if (self.floats or self.numpy or self.monitor) and len(e.ops) == 1:
                if isinstance(e.ops[0], (ast.Is, ast.IsNot)) and isinstance(r, ast.Constant) and r.value is None:
                    t = "(EB1 BIsNone %s)" % self.expr(l)
                    return t if isinstance(e.ops[0], ast.Is) else "(ENot %s)" % t
                if isinstance(e.ops[0], (ast.In, ast.NotIn)):
                    return "(ECmp %s %s %s)" % ("CIn" if isinstance(e.ops[0], ast.In) else "CNotIn", self.expr(l), self.expr(r))
            if len(e.ops) != 1 or type(e.ops[0]) not in CMPOPS:
                raise Refuse("comparison")
            # type(x) == str
            if isinstance(l, ast.Call) and isinstance(l.func, ast.Name) and l.func.id == "type" and len(l.args) == 1 \
                    and not l.keywords and isinstance(r, ast.Name) and r.id in TYPES and r.id not in self.assigned \
                    and isinstance(e.ops[0], ast.Eq):
                return "(ETypeIs %s %s)" % (self.expr(l.args[0]), TYPES[r.id])
            return "(ECmp %s %s %s)" % (CMPOPS[type(e.ops[0])], self.expr(l), self.expr(r))
        if self.graph and isinstance(e, ast.Dict):
            if any(k is None for k in e.keys):
                raise Refuse("dict unpacking")
            return "(EDict %s)" % coq_list(["(%s, %s)" % (self.expr(k), self.expr(v)) for k, v in zip(e.keys, e.values)])
        if isinstance(e, ast.IfExp):
            return "(EIf %s %s %s)" % (self.expr(e.test), self.expr(e.body), self.expr(e.orelse))
        if isinstance(e, ast.List):
            return "(EList %s)" % coq_list([self.expr(x) for x in e.elts])
        if isinstance(e, ast.Tuple):
            return "(ETuple %s)" % coq_list([self.expr(x) for x in e.elts])
        if isinstance(e, ast.ListComp):
            if len(e.generators) != 1:
                raise Refuse("comprehension")
            g = e.generators[0]
            if g.is_async or not isinstance(g.target, ast.Name) or (g.ifs and not (self.coding and len(g.ifs) == 1)):
                raise Refuse("comprehension")
            if g.target.id in self.assigned - {g.target.id} or g.target.id in self.params:
                raise Refuse("comprehension variable shadows a parameter")
            # the comprehension variable is local to the comprehension
            saved = set(self.assigned)
            self.assigned.add(g.target.id)
            body = self.expr(e.elt)
            cond = self.expr(g.ifs[0]) if g.ifs else None
            self.assigned = saved | {g.target.id}
            if cond is not None:
                return "(ECompIf %s %s %s %s)" % (body, qs(g.target.id), self.expr(g.iter), cond)
            return "(EComp %s %s %s)" % (body, qs(g.target.id), self.expr(g.iter))
        if self.score:
            # int(log(a) / log(b))
            if isinstance(e, ast.Call) and isinstance(e.func, ast.Name) and e.func.id == "int" and "int" not in self.assigned \
                    and len(e.args) == 1 and not e.keywords and isinstance(e.args[0], ast.BinOp) and isinstance(e.args[0].op, ast.Div):
                l, r = e.args[0].left, e.args[0].right
                if all(isinstance(x, ast.Call) and isinstance(x.func, ast.Name) and x.func.id == "log" and "log" in self.numpy
                       and len(x.args) == 1 and not x.keywords for x in (l, r)):
                    return "(EB2 BIntLogRatio %s %s)" % (self.expr(l.args[0]), self.expr(r.args[0]))
            # x.T
            if isinstance(e, ast.Attribute) and e.attr == "T" and not (self.method and isinstance(e.value, ast.Name) and e.value.id == "self"):
                return "(EB1 BTranspose %s)" % self.expr(e.value)
            # a[:, idx]
            if isinstance(e, ast.Subscript) and isinstance(e.slice, ast.Tuple) and len(e.slice.elts) == 2 \
                    and isinstance(e.slice.elts[0], ast.Slice) and e.slice.elts[0].lower is None and e.slice.elts[0].upper is None \
                    and e.slice.elts[0].step is None and not isinstance(e.slice.elts[1], ast.Slice):
                return "(EB2 BColumns %s %s)" % (self.expr(e.value), self.expr(e.slice.elts[1]))
            # Counter(x).items()
            if isinstance(e, ast.Call) and isinstance(e.func, ast.Attribute) and e.func.attr == "items" and not e.args and not e.keywords \
                    and isinstance(e.func.value, ast.Call) and isinstance(e.func.value.func, ast.Name) \
                    and e.func.value.func.id == "Counter" and "Counter" in self.collections and len(e.func.value.args) == 1 \
                    and not e.func.value.keywords:
                return "(EB1 BCounterItems %s)" % self.expr(e.func.value.args[0])
            # x.reshape(-1)
            if isinstance(e, ast.Call) and isinstance(e.func, ast.Attribute) and e.func.attr == "reshape" and len(e.args) == 1 \
                    and not e.keywords and isinstance(e.args[0], ast.UnaryOp) and isinstance(e.args[0].op, ast.USub) \
                    and isinstance(e.args[0].operand, ast.Constant) and e.args[0].operand.value == 1:
                return "(EB1 BReshapeFlat %s)" % self.expr(e.func.value)
        if isinstance(e, ast.Subscript):
            s = e.slice
            if isinstance(s, ast.Slice):
                if s.step is not None:
                    if s.lower is None and s.upper is None and isinstance(s.step, ast.UnaryOp) and isinstance(s.step.op, ast.USub) \
                            and isinstance(s.step.operand, ast.Constant) and s.step.operand.value == 1:
                        return "(EB1 BRev %s)" % self.expr(e.value)
                    raise Refuse("slice step")
                lo = "None" if s.lower is None else "(Some %s)" % self.expr(s.lower)
                hi = "None" if s.upper is None else "(Some %s)" % self.expr(s.upper)
                return "(ESlice %s %s %s)" % (self.expr(e.value), lo, hi)
            return "(EIndex %s %s)" % (self.expr(e.value), self.expr(s))
        if isinstance(e, ast.Call):
            return self.call(e)
        raise Refuse("expression %s" % type(e).__name__)

    def call(self, e):
        f = e.func
        if isinstance(f, ast.Name) and f.id not in self.assigned:
            name = f.id
            if name == "Monitor" and not e.args and not e.keywords:
                return "EOpaque"
            if name in self.sigs:
                params, defaults = self.sigs[name]
                if len(e.args) > len(params):
                    raise Refuse("call of %s: too many arguments" % name)
                given = {}
                for p, a in zip(params, e.args):
                    given[p] = a
                for kw in e.keywords:
                    if kw.arg is None or kw.arg not in params or kw.arg in given:
                        raise Refuse("call of %s: keyword %s" % (name, kw.arg))
                    given[kw.arg] = kw.value
                # Python evaluates positional arguments, then keywords, in source order; all arguments in dsw/operation.py
                # are names, constants or str(..)/len(..) of names, so the order cannot be observed -- checked here
                out = []
                for p in params:
                    if p in given:
                        if not self.pure(given[p]):
                            raise Refuse("call of %s: argument with a possible effect" % name)
                        out.append(self.expr(given[p]))
                    elif p in defaults:
                        out.append(self.expr(defaults[p]))
                    else:
                        raise Refuse("call of %s: missing argument %s" % (name, p))
                return "(ECall %s %s)" % (qs(name), coq_list(out))
            if self.score and name in self.numpy and not e.keywords:
                one = {"max": "BNpMax", "unique": "BNpUnique", "argmax": "BNpArgmax"}
                if self.matrix:
                    one["min"] = "BNpMin"
                two = {"union1d": "BUnion1d", "intersect1d": "BIntersect1d"}
                if name in one and len(e.args) == 1:
                    return "(EB1 %s %s)" % (one[name], self.expr(e.args[0]))
                if name in two and len(e.args) == 2:
                    return "(EB2 %s %s %s)" % (two[name], self.expr(e.args[0]), self.expr(e.args[1]))
            if self.score and name == "combinations" and name in self.itertools and len(e.args) == 2 and not e.keywords \
                    and isinstance(e.args[1], ast.Constant) and e.args[1].value == 2:
                return "(EB1 BCombinations2 %s)" % self.expr(e.args[0])
            if name in self.numpy:
                kws = {k.arg: k.value for k in e.keywords}
                dtype_int = "dtype" not in kws or (isinstance(kws["dtype"], ast.Name) and kws["dtype"].id == "int"
                                                   and "int" not in self.assigned)
                if name in ("where", "argsort", "sum") and len(e.args) == 1 and not kws:
                    return "(EB1 %s %s)" % ({"where": "BNpWhere", "argsort": "BNpArgsort", "sum": "BNpSum"}[name], self.expr(e.args[0]))
                if name == "array" and len(e.args) == 1 and set(kws) <= {"dtype"} and dtype_int:
                    return "(EB1 BNpArray %s)" % self.expr(e.args[0])
                if name == "zeros" and not e.args and set(kws) == {"shape", "dtype"} and dtype_int \
                        and isinstance(kws["shape"], ast.Tuple) and len(kws["shape"].elts) == 1:
                    return "(EB1 BNpZeros %s)" % self.expr(kws["shape"].elts[0])
                if self.repair and name == "ones" and not e.args and set(kws) == {"shape", "dtype"} and dtype_int \
                        and isinstance(kws["shape"], ast.Tuple) and len(kws["shape"].elts) == 1:
                    return "(EB1 BNpOnes1 %s)" % self.expr(kws["shape"].elts[0])
                if self.graph:
                    dtype_bool = "dtype" in kws and isinstance(kws["dtype"], ast.Name) and kws["dtype"].id == "bool" \
                        and "bool" not in self.assigned
                    shape = kws.get("shape")
                    if name == "zeros" and not e.args and set(kws) == {"shape", "dtype"} and dtype_bool \
                            and isinstance(shape, ast.Tuple) and len(shape.elts) == 1:
                        return "(EB1 BNpZerosBool %s)" % self.expr(shape.elts[0])
                    if name in ("ones", "zeros") and not e.args and set(kws) == {"shape", "dtype"} and dtype_int \
                            and isinstance(shape, ast.Tuple) and len(shape.elts) == 2:
                        return "(EB2 %s %s %s)" % ("BNpOnes2" if name == "ones" else "BNpZeros2", self.expr(shape.elts[0]),
                                                   self.expr(shape.elts[1]))
                    if name == "sum" and len(e.args) == 1 and set(kws) == {"axis"} and isinstance(kws["axis"], ast.Constant) \
                            and kws["axis"].value == 1:
                        return "(EB1 BNpSumAxis1 %s)" % self.expr(e.args[0])
                raise Refuse("numpy call %s" % ast.unparse(e)[:60])
            if e.keywords:
                raise Refuse("keyword arguments to %s" % name)
            if name in ("sum", "max", "min", "any", "all") or (name == "sorted" and not self.repair):
                raise Refuse("builtin %s" % name)
            if self.repair:
                if name == "set" and not e.args:
                    return "ESetNew"
                if name == "zip" and len(e.args) == 2:
                    return "(EB2 BZip %s %s)" % (self.expr(e.args[0]), self.expr(e.args[1]))
                if name == "sorted" and len(e.args) == 1:
                    return "(EB1 BSorted %s)" % self.expr(e.args[0])
                if name == "product" and name in self.itertools and len(e.args) == 1 and isinstance(e.args[0], ast.Starred):
                    return "(EB1 BProduct %s)" % self.expr(e.args[0].value)
                # list(filter(lambda v: cond, xs))  is  [v for v in xs if cond]
                if name == "list" and len(e.args) == 1 and isinstance(e.args[0], ast.Call) and isinstance(e.args[0].func, ast.Name) \
                        and e.args[0].func.id == "filter" and "filter" not in self.assigned and len(e.args[0].args) == 2 \
                        and isinstance(e.args[0].args[0], ast.Lambda):
                    lam, xs = e.args[0].args
                    la = lam.args
                    if len(la.args) != 1 or la.vararg or la.kwarg or la.defaults or la.kwonlyargs:
                        raise Refuse("lambda signature")
                    v = la.args[0].arg
                    if v in self.assigned:
                        raise Refuse("lambda variable shadows a name")
                    saved = set(self.assigned)
                    self.assigned.add(v)
                    cond = self.expr(lam.body)
                    self.assigned = saved
                    return "(ECompIf (EVar %s) %s %s %s)" % (qs(v), qs(v), self.expr(xs), cond)
            if name in B1 and len(e.args) == 1:
                return "(EB1 %s %s)" % (B1[name], self.expr(e.args[0]))
            if name == "range":
                a = [self.expr(x) for x in e.args]
                if len(a) == 1:
                    return "(EB1 BRange %s)" % a[0]
                if len(a) == 2:
                    return "(ERange3 %s %s (EInt (1)))" % (a[0], a[1])
                if len(a) == 3:
                    return "(ERange3 %s %s %s)" % tuple(a)
            if name == "divmod" and len(e.args) == 2:
                return "(EB2 BDivmod %s %s)" % (self.expr(e.args[0]), self.expr(e.args[1]))
            if name == "map" and len(e.args) == 2:
                g = e.args[0]
                if isinstance(g, ast.Name) and g.id not in self.assigned and g.id in ("str", "int"):
                    return "(EB1 %s %s)" % ("BMapStr" if g.id == "str" else "BMapInt", self.expr(e.args[1]))
                if isinstance(g, ast.Attribute) and g.attr == "index":
                    return "(EB2 BMapIndex %s %s)" % (self.expr(g.value), self.expr(e.args[1]))
            raise Refuse("call of %s/%d" % (name, len(e.args)))
        if self.floats and isinstance(f, ast.Attribute) and not e.keywords:
            if f.attr == "count" and len(e.args) == 1:
                return "(EB2 BCount %s %s)" % (self.expr(f.value), self.expr(e.args[0]))
            if f.attr == "replace" and len(e.args) == 2:
                return "(EReplace %s %s %s)" % (self.expr(f.value), self.expr(e.args[0]), self.expr(e.args[1]))
            if f.attr == "upper" and len(e.args) == 0:
                return "(EB1 BUpper %s)" % self.expr(f.value)
        if self.graph and isinstance(f, ast.Attribute) and not e.keywords:
            if f.attr == "astype" and len(e.args) == 1 and isinstance(e.args[0], ast.Name) and e.args[0].id in ("bool", "int") \
                    and e.args[0].id not in self.assigned:
                return "(EB1 %s %s)" % ("BAstypeBool" if e.args[0].id == "bool" else "BAstypeInt", self.expr(f.value))
            if f.attr in ("tolist", "items", "keys") and not e.args:
                return "(EB1 %s %s)" % ({"tolist": "BTolist", "items": "BItems", "keys": "BKeys"}[f.attr], self.expr(f.value))
            if self.coding and f.attr in ("any", "all", "copy") and not e.args:
                return "(EB1 %s %s)" % ({"any": "BAny", "all": "BAll", "copy": "BCopy"}[f.attr], self.expr(f.value))
            if isinstance(f.value, ast.Name) and f.value.id in self.objects:
                return "(ECall %s %s)" % (qs(f.value.id + "." + f.attr), coq_list([self.expr(a) for a in e.args]))
        if self.numpy and isinstance(f, ast.Attribute) and not e.keywords and len(e.args) == 1 and f.attr == "index":
            return "(EB2 BIndexOf %s %s)" % (self.expr(f.value), self.expr(e.args[0]))
        if isinstance(f, ast.Attribute) and not e.keywords and len(e.args) == 1:
            if f.attr == "zfill":
                return "(EB2 BZfill %s %s)" % (self.expr(f.value), self.expr(e.args[0]))
            if f.attr == "join":
                return "(EB2 BJoin %s %s)" % (self.expr(f.value), self.expr(e.args[0]))
        raise Refuse("call %s" % ast.unparse(e)[:60])

    def scalars(self):
        """names that only ever hold ints / bools / strs / None: every binding is a constant, arithmetic, a comparison, len / int / str /
        range-loop variable (used to let  x[i] = n  and  x.append(n)  through for containers with mutated elements)"""
        if getattr(self, "_scalars", None) is not None:
            return self._scalars
        node = self.node
        bad, seen = set(self.params), set()

        def scalar_expr(v):
            if isinstance(v, ast.Constant):
                return True
            if isinstance(v, (ast.BinOp, ast.Compare, ast.BoolOp, ast.UnaryOp)):
                return all(scalar_expr(q) or isinstance(q, ast.Name) for q in ast.iter_child_nodes(v)
                           if isinstance(q, ast.expr) and not isinstance(q, (ast.operator, ast.cmpop, ast.boolop, ast.unaryop)))
            if isinstance(v, ast.Call) and isinstance(v.func, ast.Name) and v.func.id in ("len", "int", "str") and v.func.id not in self.assigned:
                return True
            return False
        for z in ast.walk(node):
            if isinstance(z, ast.Assign):
                t, v = z.targets[0], z.value
                prs = [(t, v)] if isinstance(t, ast.Name) else \
                    (list(zip(t.elts, v.elts)) if isinstance(t, ast.Tuple) and isinstance(v, ast.Tuple) and len(t.elts) == len(v.elts)
                     else [(q, None) for q in getattr(t, "elts", [])])
                for a, b in prs:
                    if isinstance(a, ast.Name):
                        seen.add(a.id)
                        if b is None or not scalar_expr(b):
                            bad.add(a.id)
            elif isinstance(z, ast.AugAssign) and isinstance(z.target, ast.Name):
                seen.add(z.target.id)
            elif isinstance(z, (ast.For, ast.comprehension)):
                it = z.iter
                rng = isinstance(it, ast.Call) and isinstance(it.func, ast.Name) and it.func.id == "range" and "range" not in self.assigned
                for q in ast.walk(z.target):
                    if isinstance(q, ast.Name):
                        seen.add(q.id)
                        if not rng:
                            bad.add(q.id)
        self._scalars = seen - bad
        return self._scalars

    def is_random_random(self, e):
        """random.random(size=(n,)) with numpy's random module"""
        return isinstance(e, ast.Call) and isinstance(e.func, ast.Attribute) and e.func.attr == "random" \
            and isinstance(e.func.value, ast.Name) and e.func.value.id == "random" and "random" in self.numpy \
            and "random" not in self.assigned and not e.args and len(e.keywords) == 1 and e.keywords[0].arg == "size" \
            and isinstance(e.keywords[0].value, ast.Tuple) and len(e.keywords[0].value.elts) == 1

    def is_now(self, e):
        """datetime.now() with the class imported from the datetime module"""
        return isinstance(e, ast.Call) and isinstance(e.func, ast.Attribute) and e.func.attr == "now" and not e.args \
            and not e.keywords and isinstance(e.func.value, ast.Name) and e.func.value.id == "datetime" \
            and "datetime" not in self.assigned

    def is_set_of(self, e):
        """set(x) with the builtin set"""
        return isinstance(e, ast.Call) and isinstance(e.func, ast.Name) and e.func.id == "set" and "set" not in self.assigned \
            and len(e.args) == 1 and not e.keywords

    def has_break(self, stmts):
        """a break that belongs to THIS loop (not to a loop nested in its body)"""
        for st in stmts:
            if isinstance(st, ast.Break):
                if not self.graph:
                    raise Refuse("break")
                return True
            if isinstance(st, ast.If) and (self.has_break(st.body) or self.has_break(st.orelse)):
                return True
            if isinstance(st, (ast.With, ast.Try)):
                raise Refuse(type(st).__name__)
        return False

    def printable(self, e):
        """an argument of print() that cannot raise and has no effect: literals, names, str()/round()/len()/sum() and + * / of those"""
        if isinstance(e, ast.Constant):
            return True
        if isinstance(e, ast.Name):
            return e.id in self.assigned and e.id not in self.monitors and e.id not in self.objects
        if isinstance(e, ast.BinOp) and isinstance(e.op, (ast.Add, ast.Mult, ast.Div)):
            return self.printable(e.left) and self.printable(e.right)
        if isinstance(e, ast.Call) and isinstance(e.func, ast.Name) and e.func.id in ("str", "round", "len", "sum") \
                and not e.keywords and e.func.id not in self.assigned:
            return all(self.printable(a) for a in e.args)
        return False

    def pure(self, e):
        """no call of another module function inside (so evaluation order of the arguments cannot matter)"""
        return not any(isinstance(n, ast.Call) and isinstance(n.func, ast.Name) and n.func.id in self.sigs for n in ast.walk(e))

    # ---------------------------------------------------------------- statements
    def target(self, t):
        if self.method and isinstance(t, ast.Attribute) and isinstance(t.value, ast.Name) and t.value.id == "self":
            return "(TVar %s)" % qs("self." + t.attr)
        if isinstance(t, ast.Name):
            if t.id in self.monitors:
                raise Refuse("monitor")
            return "(TVar %s)" % qs(t.id)
        if isinstance(t, ast.Tuple) and all(isinstance(x, ast.Name) for x in t.elts):
            return "(TTuple %s)" % coq_list([qs(x.id) for x in t.elts])
        if self.numpy and isinstance(t, ast.Tuple) and len(t.elts) == 2 and isinstance(t.elts[0], ast.Name) \
                and isinstance(t.elts[1], ast.Tuple) and all(isinstance(x, ast.Name) for x in t.elts[1].elts):
            return "(TPair %s %s)" % (qs(t.elts[0].id), coq_list([qs(x.id) for x in t.elts[1].elts]))
        if self.shuffle and isinstance(t, ast.Subscript) and isinstance(t.value, ast.Name) and isinstance(t.slice, ast.Tuple) \
                and len(t.slice.elts) == 2 and isinstance(t.slice.elts[0], ast.Slice) and t.slice.elts[0].lower is None \
                and t.slice.elts[0].upper is None and t.slice.elts[0].step is None and not isinstance(t.slice.elts[1], ast.Slice):
            return "(TColumn %s %s)" % (qs(t.value.id), self.expr(t.slice.elts[1]))
        if self.graph and isinstance(t, ast.Subscript) and isinstance(t.value, ast.Name) and isinstance(t.slice, ast.Tuple) \
                and len(t.slice.elts) == 2:
            return "(TIndex2 %s %s %s)" % (qs(t.value.id), self.expr(t.slice.elts[0]), self.expr(t.slice.elts[1]))
        if self.graph and isinstance(t, ast.Subscript) and isinstance(t.value, ast.Subscript) and isinstance(t.value.value, ast.Name) \
                and not isinstance(t.slice, (ast.Slice, ast.Tuple)) and not isinstance(t.value.slice, (ast.Slice, ast.Tuple)):
            return "(TIndex2 %s %s %s)" % (qs(t.value.value.id), self.expr(t.value.slice), self.expr(t.slice))
        if isinstance(t, ast.Subscript) and isinstance(t.value, ast.Name) and not isinstance(t.slice, ast.Slice):
            return "(TIndex %s %s)" % (qs(t.value.id), self.expr(t.slice))
        raise Refuse("assignment target %s" % ast.unparse(t)[:40])

    def block(self, stmts):
        out = [self.stmt(s) for s in stmts]
        out = [s for s in out if s is not None]
        if not out:
            return "SSkip"
        acc = out[-1]
        for s in reversed(out[:-1]):
            acc = "(SSeq %s\n %s)" % (s, acc)
        return acc

    def stmt(self, s):
        if self.monitor and isinstance(s, ast.Expr) and isinstance(s.value, ast.Call) and isinstance(s.value.func, ast.Name) \
                and s.value.func.id == "print" and "print" not in self.assigned:
            v = s.value
            kws = {k.arg: k.value for k in v.keywords}
            if not v.args and not kws:
                return "(SPrintOut (EStr [10]))"                                   # print(): a newline
            if len(v.args) == 1 and set(kws) <= {"end", "flush"} and isinstance(kws.get("end"), ast.Constant) \
                    and kws["end"].value == "" and isinstance(kws.get("flush", ast.Constant(value=True)), ast.Constant):
                return "(SPrintOut %s)" % self.expr(v.args[0])
            raise Refuse("print call")
        if self.shuffle and isinstance(s, ast.Expr) and isinstance(s.value, ast.Call) and isinstance(s.value.func, ast.Name) \
                and s.value.func.id == "__shuffle_row__":
            return "(SShuffleRow %s %s)" % (qs(s.value.args[0].id), self.expr(s.value.args[1]))
        if self.shuffle and isinstance(s, ast.Expr) and isinstance(s.value, ast.Call) and isinstance(s.value.func, ast.Attribute) \
                and s.value.func.attr == "seed" and isinstance(s.value.func.value, ast.Name) and s.value.func.value.id == "random" \
                and "random" in self.numpy and "random" not in self.assigned and len(s.value.args) == 1 and not s.value.keywords:
            # numpy.random.seed(x): the generator's state is not modelled, but the call may raise (a seed NumPy rejects)
            return "(SExpr (ECall %s [%s]))" % (qs("__seed__"), self.expr(s.value.args[0]))
        if isinstance(s, ast.Expr):
            v = s.value
            if isinstance(v, ast.Constant) and isinstance(v.value, str):
                return None                                   # docstring
            if self.method and isinstance(v, ast.Call) and isinstance(v.func, ast.Attribute) and v.func.attr == "__init__" \
                    and isinstance(v.func.value, ast.Call) and isinstance(v.func.value.func, ast.Name) \
                    and v.func.value.func.id == "super" and not v.func.value.args and not v.args \
                    and all(isinstance(k.value, ast.Constant) for k in v.keywords):
                return None          # the base class constructor with constant arguments (it stores a display name): not modelled
            if isinstance(v, ast.Call) and isinstance(v.func, ast.Name) and v.func.id in self.monitors and not v.keywords:
                return "(SExpr (ETuple %s))" % coq_list([self.expr(a) for a in v.args])
            if self.graph and isinstance(v, ast.Call) and isinstance(v.func, ast.Name) and v.func.id in self.monitors \
                    and all(k.arg is not None for k in v.keywords):
                # progress call with keyword arguments: positional then keyword values are evaluated in source order and dropped
                return "(SExpr (ETuple %s))" % coq_list([self.expr(a) for a in v.args] + [self.expr(k.value) for k in v.keywords])
            if self.graph and isinstance(v, ast.Call) and isinstance(v.func, ast.Name) and v.func.id == "print" \
                    and "print" not in self.assigned and not v.keywords and all(self.printable(a) for a in v.args):
                return "SSkip"           # console output is not modelled; the arguments are total expressions (checked)
            if self.score and isinstance(v, ast.Call) and isinstance(v.func, ast.Name) and v.func.id == "print" \
                    and "print" not in self.assigned and not v.keywords:
                # arguments that may call other functions: evaluated (in order) and dropped
                return "(SExpr (ETuple %s))" % coq_list([self.expr(a) for a in v.args])
            if isinstance(v, ast.Call) and isinstance(v.func, ast.Attribute) and isinstance(v.func.value, ast.Name) \
                    and not v.keywords and v.func.value.id in self.assigned:
                x = v.func.value.id
                if v.func.attr == "append" and len(v.args) == 1:
                    return "(SAppend %s %s)" % (qs(x), self.expr(v.args[0]))
                if v.func.attr == "insert" and len(v.args) == 2:
                    return "(SInsert %s %s %s)" % (qs(x), self.expr(v.args[0]), self.expr(v.args[1]))
                if self.repair and v.func.attr == "add" and len(v.args) == 1:
                    return "(SSetAdd %s %s)" % (qs(x), self.expr(v.args[0]))
            if self.repair and isinstance(v, ast.Call) and isinstance(v.func, ast.Attribute) and v.func.attr == "add" \
                    and len(v.args) == 1 and not v.keywords and isinstance(v.func.value, ast.Subscript) \
                    and isinstance(v.func.value.value, ast.Name) and not isinstance(v.func.value.slice, (ast.Slice, ast.Tuple)):
                return "(SSetAdd2 %s %s %s)" % (qs(v.func.value.value.id), self.expr(v.func.value.slice), self.expr(v.args[0]))
            if self.capacity and isinstance(v, ast.Call) and isinstance(v.func, ast.Attribute) and v.func.attr == "append" \
                    and len(v.args) == 1 and not v.keywords and isinstance(v.func.value, ast.Subscript) \
                    and isinstance(v.func.value.value, ast.Name) and not isinstance(v.func.value.slice, (ast.Slice, ast.Tuple)):
                return "(SAppendAt %s %s %s)" % (qs(v.func.value.value.id), self.expr(v.func.value.slice), self.expr(v.args[0]))
            raise Refuse("expression statement %s" % ast.unparse(s)[:60])
        if isinstance(s, ast.Assign):
            if len(s.targets) != 1:
                raise Refuse("chained assignment")
            if self.capacity:
                # x = abs(random.random(size=(n,))): the next array of NumPy's global generator = the hidden parameter "__rng__"
                v = s.value
                if isinstance(v, ast.Call) and isinstance(v.func, ast.Name) and v.func.id == "abs" and "abs" in self.numpy \
                        and len(v.args) == 1 and not v.keywords and self.is_random_random(v.args[0]) and isinstance(s.targets[0], ast.Name):
                    size = v.args[0].keywords[0].value.elts[0]
                    return "(SSeq (SNextRandom %s %s)\n (SAssign (TVar %s) (EB1 BAbs (EVar %s))))" % (
                        qs("__rand__"), self.expr(size), qs(s.targets[0].id), qs("__rand__"))
            if isinstance(s.targets[0], ast.Name) and s.targets[0].id in self.monitors:
                return "(SAssign (TVar %s) EOpaque)" % qs(s.targets[0].id)
            return "(SAssign %s %s)" % (self.target(s.targets[0]), self.expr(s.value))
        if isinstance(s, ast.AugAssign):
            if type(s.op) not in BINOPS or isinstance(s.target, ast.Tuple):
                raise Refuse("augmented assignment")
            return "(SAug %s %s %s)" % (self.target(s.target), BINOPS[type(s.op)], self.expr(s.value))
        if isinstance(s, ast.If):
            return "(SIf %s\n %s\n %s)" % (self.expr(s.test), self.block(s.body), self.block(s.orelse))
        if isinstance(s, ast.For):
            if s.orelse:
                raise Refuse("for/else")
            t = s.target
            return "(%s %s %s\n %s)" % ("SForB" if self.has_break(s.body) else "SFor", self.target(t), self.expr(s.iter),
                                        self.block(s.body))
        if isinstance(s, ast.While):
            if s.orelse:
                raise Refuse("while/else")
            return "(%s %s\n %s)" % ("SWhileB" if self.has_break(s.body) else "SWhile", self.expr(s.test), self.block(s.body))
        if isinstance(s, ast.Return):
            return "(SReturn %s)" % ("ENone" if s.value is None else self.expr(s.value))
        if isinstance(s, ast.Raise):
            x = s.exc
            if s.cause is None and isinstance(x, ast.Call) and isinstance(x.func, ast.Name) and x.func.id in EXNS:
                return "(SRaise %s)" % EXNS[x.func.id]           # the message is not modelled (and not evaluated)
            if self.matrix and s.cause is None and isinstance(x, ast.Call) and isinstance(x.func, ast.Name) and x.func.id == "MemoryError" \
                    and "MemoryError" not in self.assigned:
                return "(SRaise OtherExn)"
            raise Refuse("raise")
        if isinstance(s, ast.Pass):
            return "SSkip"
        if self.graph and isinstance(s, ast.Break):
            return "SBreak"
        if self.repair and isinstance(s, ast.Delete) and len(s.targets) == 1 and isinstance(s.targets[0], ast.Subscript) \
                and isinstance(s.targets[0].value, ast.Name) and not isinstance(s.targets[0].slice, (ast.Slice, ast.Tuple)):
            return "(SDel %s %s)" % (qs(s.targets[0].value.id), self.expr(s.targets[0].slice))
        if self.score and isinstance(s, ast.Delete) and len(s.targets) == 1:
            t = s.targets[0]
            if isinstance(t, ast.Name) and t.id in self.assigned and t.id not in self.params:
                return "(SDelVar %s)" % qs(t.id)
            if isinstance(t, ast.Subscript) and isinstance(t.value, ast.Subscript) and isinstance(t.value.value, ast.Name) \
                    and not isinstance(t.slice, (ast.Slice, ast.Tuple)) and not isinstance(t.value.slice, (ast.Slice, ast.Tuple)):
                return "(SDel2 %s %s %s)" % (qs(t.value.value.id), self.expr(t.value.slice), self.expr(t.slice))
        raise Refuse("statement %s" % type(s).__name__)

    # ---------------------------------------------------------------- aliasing side condition
    def check_aliasing(self):
        node = self.node
        mutated = set()

        def mutations(n):
            out = set()
            for x in ast.walk(n):
                if isinstance(x, (ast.Assign, ast.AugAssign)):
                    for t in (x.targets if isinstance(x, ast.Assign) else [x.target]):
                        if isinstance(t, ast.Subscript) and isinstance(t.value, ast.Name):
                            out.add(t.value.id)
                        if isinstance(t, ast.Subscript) and isinstance(t.value, ast.Subscript) and isinstance(t.value.value, ast.Name):
                            out.add(t.value.value.id)
                if isinstance(x, ast.Call) and isinstance(x.func, ast.Attribute) and isinstance(x.func.value, ast.Name) \
                        and x.func.attr in ("append", "insert", "extend", "pop", "remove", "sort", "reverse", "clear", "add", "discard", "update"):
                    out.add(x.func.value.id)
                if isinstance(x, ast.Call) and isinstance(x.func, ast.Attribute) and isinstance(x.func.value, ast.Subscript) \
                        and isinstance(x.func.value.value, ast.Name) \
                        and x.func.attr in ("append", "insert", "extend", "pop", "remove", "sort", "reverse", "clear", "add", "discard", "update"):
                    out.add(x.func.value.value.id)
                if isinstance(x, ast.Delete):
                    for t in x.targets:
                        if isinstance(t, ast.Subscript) and isinstance(t.value, ast.Name):
                            out.add(t.value.id)
            return out
        mutated = mutations(node)
        # x += e extends a list IN PLACE: a mutation when x is ever bound to a list
        listy = set()
        for x in ast.walk(node):
            if isinstance(x, ast.Assign):
                tv = []
                t0 = x.targets[0]
                if isinstance(t0, ast.Name):
                    tv = [(t0, x.value)]
                elif isinstance(t0, ast.Tuple) and isinstance(x.value, ast.Tuple) and len(t0.elts) == len(x.value.elts):
                    tv = list(zip(t0.elts, x.value.elts))
                for a, b in tv:
                    if isinstance(a, ast.Name) and (isinstance(b, (ast.List, ast.ListComp))
                                                    or (isinstance(b, ast.Call) and isinstance(b.func, ast.Name) and b.func.id == "list")):
                        listy.add(a.id)
        for x in ast.walk(node):
            if isinstance(x, ast.AugAssign) and isinstance(x.target, ast.Name) and x.target.id in listy:
                mutated.add(x.target.id)
        # an alias  y = x  of a mutated object x is harmless in one shape: both statements are direct children of one loop body,
        # x is freshly re-bound earlier in that body ([] / {} / a display), every in-place mutation of x in the whole function sits
        # between the re-binding and the alias, and y is never mutated: each iteration hands a finished object over to y
        def sites(root, nm):
            c = 0
            for z in ast.walk(root):
                if isinstance(z, ast.AugAssign) and isinstance(z.target, ast.Name) and z.target.id == nm and nm in listy:
                    c += 1
                if isinstance(z, ast.Call) and isinstance(z.func, ast.Attribute) and isinstance(z.func.value, ast.Name) \
                        and z.func.value.id == nm and z.func.attr in ("append", "insert", "extend", "pop", "remove", "sort", "reverse", "clear"):
                    c += 1
                if isinstance(z, (ast.Assign, ast.AugAssign)):
                    for t in (z.targets if isinstance(z, ast.Assign) else [z.target]):
                        if isinstance(t, ast.Subscript) and isinstance(t.value, ast.Name) and t.value.id == nm:
                            c += 1
                        if isinstance(t, ast.Subscript) and isinstance(t.value, ast.Subscript) and isinstance(t.value.value, ast.Name) \
                                and t.value.value.id == nm:
                            c += 1
            return c

        def rebinds_fresh(st, nm):
            if not isinstance(st, ast.Assign):
                return False
            t0, v0 = st.targets[0], st.value
            pairs0 = [(t0, v0)] if isinstance(t0, ast.Name) else \
                (list(zip(t0.elts, v0.elts)) if isinstance(t0, ast.Tuple) and isinstance(v0, ast.Tuple) and len(t0.elts) == len(v0.elts) else [])
            def brand_new(b):
                if isinstance(b, (ast.List, ast.Dict)) and not getattr(b, "elts", None) and not getattr(b, "keys", None):
                    return True
                if isinstance(b, ast.Call) and isinstance(b.func, ast.Attribute) and b.func.attr == "copy" and not b.args:
                    return True
                return isinstance(b, ast.Call) and isinstance(b.func, ast.Name) and b.func.id in ("zeros", "ones") \
                    and b.func.id in self.numpy
            return any(isinstance(a, ast.Name) and a.id == nm and brand_new(b) for a, b in pairs0)
        harmless_alias, cands = set(), {}
        blocks = [node.body]
        for z in ast.walk(node):
            if isinstance(z, (ast.For, ast.While, ast.If)):
                blocks.append(z.body)
                if z.orelse:
                    blocks.append(z.orelse)
        for blk in blocks:
            for ai, st in enumerate(blk):
                # y = x   or   d[k] = x   with a bare name x on the right
                if isinstance(st, ast.Assign) and isinstance(st.value, ast.Name) and \
                        (isinstance(st.targets[0], ast.Name) or (isinstance(st.targets[0], ast.Subscript)
                                                                  and isinstance(st.targets[0].value, ast.Name))):
                    xname = st.value.id
                    yname = st.targets[0].id if isinstance(st.targets[0], ast.Name) else None
                    js = [k for k in range(ai) if rebinds_fresh(blk[k], xname)]
                    if not js or (yname is not None and yname in mutated):
                        continue
                    jj = js[-1]
                    cands.setdefault(xname, []).append((st, sum(sites(b2, xname) for b2 in blk[jj + 1:ai])))
        for xname, lst in cands.items():
            # the spans (one per loop) together hold every in-place mutation of x
            if sites(node, xname) == sum(c for _, c in lst):
                harmless_alias.update(id(st) for st, _ in lst)

        def fresh(v):
            if isinstance(v, (ast.List, ast.ListComp, ast.BinOp, ast.Constant, ast.Dict)):
                return True
            if isinstance(v, ast.Call) and isinstance(v.func, ast.Name) and v.func.id in ("list", "map", "range") \
                    and v.func.id not in self.assigned:
                return True
            if isinstance(v, ast.Call) and isinstance(v.func, ast.Name) and v.func.id in ("array", "zeros", "ones") and v.func.id in self.numpy:
                return True
            if isinstance(v, ast.Call) and isinstance(v.func, ast.Name) and v.func.id in ("set", "sorted") and v.func.id not in self.assigned:
                return True
            if isinstance(v, ast.UnaryOp) and isinstance(v.op, ast.USub):
                return True                      # arithmetic always builds a new object
            if isinstance(v, ast.Compare):
                return True                      # a comparison builds a new (boolean) object
            if isinstance(v, ast.Call) and isinstance(v.func, ast.Attribute) and v.func.attr == "copy" and not v.args:
                return True
            if isinstance(v, ast.Call) and isinstance(v.func, ast.Attribute) and v.func.attr == "join":
                return True
            if self.capacity and isinstance(v, ast.Call) and isinstance(v.func, ast.Name) and v.func.id in ("abs", "zeros_like") \
                    and v.func.id in self.numpy and v.func.id not in self.assigned:
                return True                      # NumPy builds a new array
            return False
        # RULE D (flow-sensitive, used by the capacity unit): a mutated name x may be bound to / copied from shared objects when EVERY
        # in-place mutation of x is dominated, inside its own or an enclosing statement list, by an unconditional FRESH re-binding of x
        # (x = zeros_like(..) / ones(..) / abs(..) / [] ..., or an if / else whose two branches both end in one), such that between the
        # re-binding and the mutation -- including the whole of every compound statement that encloses the mutation below that level --
        # x is mentioned nowhere except as the target of such mutations.  The object x names at the mutation was then created in this
        # execution of the block and nothing else refers to it, so the value semantics of MiniPy (no sharing) describes it.
        def mentions_other(root, nm):
            targets = set()
            for z in ast.walk(root):
                if isinstance(z, (ast.Assign, ast.AugAssign)):
                    for t in (z.targets if isinstance(z, ast.Assign) else [z.target]):
                        if isinstance(t, ast.Subscript) and isinstance(t.value, ast.Name) and t.value.id == nm:
                            targets.add(id(t.value))
            return any(isinstance(z, ast.Name) and z.id == nm and id(z) not in targets for z in ast.walk(root))

        def fresh_rebind(st, nm):
            if isinstance(st, ast.Assign) and len(st.targets) == 1:
                t0, v0 = st.targets[0], st.value
                if isinstance(t0, ast.Name) and t0.id == nm:
                    return fresh(v0) and not any(isinstance(z, ast.Name) and z.id == nm for z in ast.walk(v0))
                if isinstance(t0, ast.Tuple) and isinstance(v0, ast.Tuple) and len(t0.elts) == len(v0.elts):
                    hits = [(a, b) for a, b in zip(t0.elts, v0.elts) if isinstance(a, ast.Name) and a.id == nm]
                    return len(hits) == 1 and fresh(hits[0][1]) and not any(isinstance(z, ast.Name) and z.id == nm for z in ast.walk(v0))
                return False
            if isinstance(st, ast.If) and st.body and st.orelse and not mentions_other(st.test, nm):
                def branch_ok(blk):
                    idx = [k for k, q in enumerate(blk) if fresh_rebind(q, nm)]
                    return bool(idx) and not any(mentions_other(q, nm) for q in blk[idx[-1] + 1:])
                return branch_ok(st.body) and branch_ok(st.orelse)
            return False

        def is_mutation_stmt(st, nm):
            return isinstance(st, (ast.Assign, ast.AugAssign)) and any(
                isinstance(t, ast.Subscript) and isinstance(t.value, ast.Name) and t.value.id == nm
                for t in (st.targets if isinstance(st, ast.Assign) else [st.target]))

        def chains(blk, nm, prefix):
            # ancestor chains (list of (block, index)) of the statements that mutate nm by a subscript store
            for i, st in enumerate(blk):
                if is_mutation_stmt(st, nm):
                    yield prefix + [(blk, i)]
                for sub in ("body", "orelse"):
                    inner = getattr(st, sub, None)
                    if isinstance(inner, list) and inner and isinstance(inner[0], ast.stmt):
                        yield from chains(inner, nm, prefix + [(blk, i)])

        def dominated_name(nm):
            if sites(node, nm) == 0:
                return False
            # every kind of mutation must be a plain subscript store / augmented store (no append, no x[i][j] = ..)
            n_plain = sum(1 for z in ast.walk(node) if isinstance(z, ast.stmt) and is_mutation_stmt(z, nm))
            if n_plain != sites(node, nm) or nm in (mutations(node) - {nm}) and False:
                return False
            for z in ast.walk(node):
                if isinstance(z, ast.Call) and isinstance(z.func, ast.Attribute) and isinstance(z.func.value, ast.Name) \
                        and z.func.value.id == nm and z.func.attr in ("append", "insert", "extend", "pop", "remove", "sort", "reverse",
                                                                       "clear", "add", "discard", "update"):
                    return False
                if isinstance(z, ast.Delete) and any(isinstance(t, ast.Subscript) and isinstance(t.value, ast.Name) and t.value.id == nm
                                                     for t in z.targets):
                    return False
            for chain in chains(node.body, nm, []):
                ok = False
                for level in range(len(chain) - 1, -1, -1):
                    blk, i = chain[level]
                    # the compound statement enclosing the mutation at this level (or the mutation itself) mentions nm only as a store target
                    if mentions_other(blk[i], nm):
                        break
                    found = None
                    bad = False
                    for j in range(i - 1, -1, -1):
                        if fresh_rebind(blk[j], nm):
                            found = j
                            break
                        if mentions_other(blk[j], nm) or any(isinstance(z, ast.Name) and z.id == nm for z in ast.walk(blk[j])
                                                               if not is_mutation_stmt(blk[j], nm)):
                            bad = True
                            break
                    if bad:
                        break
                    if found is not None:
                        ok = True
                        break
                if not ok:
                    return False
            return True
        dominated = {nm for nm in mutated if self.capacity and nm not in self.params and dominated_name(nm)}
        # a display that is returned hands its elements over to the caller: nothing of this function runs afterwards
        returned = {id(n.value) for n in ast.walk(node) if isinstance(n, ast.Return) and n.value is not None}
        for n in ast.walk(node):             # ... also when the returned display is a branch of a conditional expression
            if isinstance(n, ast.Return) and isinstance(n.value, ast.IfExp):
                stack = [n.value]
                while stack:
                    q = stack.pop()
                    if isinstance(q, ast.IfExp):
                        stack += [q.body, q.orelse]
                    else:
                        returned.add(id(q))
        for n in ast.walk(node):
            if isinstance(n, ast.Assign):
                t, v = n.targets[0], n.value
                pairs = []
                if isinstance(t, ast.Name):
                    pairs = [(t.id, v)]
                elif isinstance(t, ast.Tuple):
                    if isinstance(v, ast.Tuple) and len(v.elts) == len(t.elts):
                        pairs = [(a.id, b) for a, b in zip(t.elts, v.elts) if isinstance(a, ast.Name)]
                    else:
                        pairs = [(a.id, None) for a in t.elts if isinstance(a, ast.Name)]
                for name, val in pairs:
                    if name in mutated and name not in dominated and (val is None or not fresh(val)):
                        raise Refuse("aliasing: mutated name %s bound to a possibly shared object" % name)
                # a mutated name as a bare right-hand side or inside a display creates a second reference
                vals = [v] + (list(v.elts) if isinstance(v, (ast.Tuple, ast.List)) else [])
                for val in vals:
                    if isinstance(val, ast.Name) and val.id in mutated and id(n) not in harmless_alias and val.id not in dominated:
                        raise Refuse("aliasing: mutated name %s copied by reference" % val.id)
            if isinstance(n, (ast.List, ast.Tuple)) and isinstance(getattr(n, "ctx", None), ast.Load) and id(n) not in returned:
                for val in n.elts:
                    if isinstance(val, ast.Name) and val.id in mutated and val.id not in dominated:
                        raise Refuse("aliasing: mutated name %s inside a display" % val.id)
            if isinstance(n, ast.Call) and isinstance(n.func, ast.Name) and n.func.id in self.sigs:
                cparams = self.sigs[n.func.id][0]
                bound = list(zip(cparams, n.args)) + [(k.arg, k.value) for k in n.keywords]
                for pname, val in bound:
                    if isinstance(val, ast.Name) and val.id in mutated and pname not in self.borrowing.get(n.func.id, ()):
                        raise Refuse("aliasing: mutated name %s passed to %s" % (val.id, n.func.id))
            if isinstance(n, ast.Call) and isinstance(n.func, ast.Attribute) and n.func.attr in ("append", "insert"):
                for val in n.args:
                    if isinstance(val, ast.Name) and val.id in mutated:
                        raise Refuse("aliasing: mutated name %s stored in a list" % val.id)
            if isinstance(n, ast.For):
                it = n.iter
                is_range = isinstance(it, ast.Call) and isinstance(it.func, ast.Name) and it.func.id == "range"
                is_range = is_range or (isinstance(it, ast.Subscript) and isinstance(it.value, ast.Call)
                                        and isinstance(it.value.func, ast.Name) and it.value.func.id == "range")
                if not is_range:
                    body_mut = set()
                    for b in n.body:
                        body_mut |= mutations(b)
                    names = {x.id for x in ast.walk(it) if isinstance(x, ast.Name)}
                    if names & body_mut:
                        raise Refuse("for loop over a list mutated in its body")
            if isinstance(n, ast.Return) and isinstance(n.value, ast.Name) and n.value.id in self.params and n.value.id in mutated:
                pass  # returning the (re-bound) parameter hands over ownership
        # a container whose ELEMENTS are mutated in place (x[i][j] = .., x[i].append(..)) must not hold objects that have another name:
        # it is never built from bare names (display, comprehension element) and never receives one by append / insert / x[i] = y
        nested = set()
        for z in ast.walk(node):
            if isinstance(z, (ast.Assign, ast.AugAssign)):
                for t in (z.targets if isinstance(z, ast.Assign) else [z.target]):
                    if isinstance(t, ast.Subscript) and isinstance(t.value, ast.Subscript) and isinstance(t.value.value, ast.Name):
                        nested.add(t.value.value.id)
            if isinstance(z, ast.Call) and isinstance(z.func, ast.Attribute) and isinstance(z.func.value, ast.Subscript) \
                    and isinstance(z.func.value.value, ast.Name) \
                    and z.func.attr in ("append", "insert", "extend", "pop", "remove", "sort", "reverse", "clear", "add", "discard", "update"):
                nested.add(z.func.value.value.id)
        nested -= set(self.inplace)
        for z in ast.walk(node):
            if isinstance(z, ast.Assign):
                t, v = z.targets[0], z.value
                prs = [(t, v)] if isinstance(t, ast.Name) else \
                    (list(zip(t.elts, v.elts)) if isinstance(t, ast.Tuple) and isinstance(v, ast.Tuple) and len(t.elts) == len(v.elts) else [])
                for a, b in prs:
                    if isinstance(a, ast.Name) and a.id in nested:
                        elts = list(getattr(b, "elts", [])) + ([b.elt] if isinstance(b, ast.ListComp) else []) \
                            + (list(b.values) if isinstance(b, ast.Dict) else [])
                        if any(isinstance(q, ast.Name) for q in elts):
                            raise Refuse("aliasing: container %s with mutated elements is built from named objects" % a.id)
                if isinstance(t, ast.Subscript) and isinstance(t.value, ast.Name) and t.value.id in nested and isinstance(v, ast.Name) \
                        and v.id not in self.scalars():
                    raise Refuse("aliasing: named object stored into container %s whose elements are mutated" % t.value.id)
            if isinstance(z, ast.Call) and isinstance(z.func, ast.Attribute) and isinstance(z.func.value, ast.Name) \
                    and z.func.value.id in nested and z.func.attr in ("append", "insert", "extend") \
                    and any(isinstance(q, ast.Name) and q.id not in self.scalars() for q in z.args):
                raise Refuse("aliasing: named object appended to container %s whose elements are mutated" % z.func.value.id)
        # a mutated parameter is freshly re-bound, unconditionally, before its first mutation
        body = list(node.body)
        for p in self.params:
            if p not in mutated:
                continue
            rebound_at = None
            for i, st in enumerate(body):
                if isinstance(st, ast.Assign):
                    t = st.targets[0]
                    names = [t.id] if isinstance(t, ast.Name) else [a.id for a in t.elts if isinstance(a, ast.Name)] if isinstance(t, ast.Tuple) else []
                    if p in names:
                        rebound_at = i
                        break
            if rebound_at is None and p in self.inplace:
                continue          # documented in-place update of an argument that is handed back: the result IS the argument
            if rebound_at is None:
                raise Refuse("aliasing: parameter %s is mutated in place" % p)
            for st in body[:rebound_at]:
                if p in mutations(st):
                    raise Refuse("aliasing: parameter %s is mutated before it is re-bound" % p)

    def translate(self, name=None):
        self.check_aliasing()
        body = self.block(self.node.body)
        params = self.params + ["self." + a for a in self.attrs_read if a not in self.attrs_written]
        return ("Definition %s_def : fundef :=\n {| params := %s;\n    body :=\n %s |}.\n"
                % (name or self.node.name, coq_list([qs(p) for p in params]), body))


def generate(repo, out_path, funcs=None):
    funcs = funcs or FUNCS
    tree = ast.parse(open(os.path.join(repo, "dsw", "operation.py")).read())
    defs = {n.name: n for n in tree.body if isinstance(n, ast.FunctionDef)}
    sigs = {}
    for f in funcs:
        if f not in defs:
            raise Refuse("function %s not found" % f)
        a = defs[f].args
        params = [x.arg for x in a.args]
        dflt = dict(zip(params[len(params) - len(a.defaults):], a.defaults))
        for d in dflt.values():
            if not isinstance(d, ast.Constant):
                raise Refuse("non-constant default in %s" % f)
        sigs[f] = (params, dflt)
    # no function of the module may be re-bound at module level (def twice, assignment to its name, decorators are refused above)
    names = [n.name for n in tree.body if isinstance(n, (ast.FunctionDef, ast.ClassDef))]
    for n in tree.body:
        if isinstance(n, (ast.Assign, ast.AugAssign, ast.AnnAssign)):
            for x in ast.walk(n):
                if isinstance(x, ast.Name) and isinstance(x.ctx, ast.Store) and x.id in funcs:
                    raise Refuse("module-level re-binding of %s" % x.id)
    for f in funcs:
        if names.count(f) != 1:
            raise Refuse("%s defined %d times" % (f, names.count(f)))
    parts = ["(* GENERATED by harness/translate_minipy.py from %s/dsw/operation.py -- do not edit *)\n"
             "From DSW Require Import MiniPy.\nOpen Scope Z_scope.\n" % repo]
    for f in funcs:
        parts.append(Fn(defs[f], sigs).translate())
    # callers first: a function may call the ones after it
    parts.append("Definition operation_module : module :=\n %s.\n"
                 % coq_list(["(%s, %s_def)" % (qs(f), f) for f in reversed(funcs)]))
    open(out_path, "w").write("\n".join(parts))
    return funcs


CODER_FUNCS = ["set_vt", "encode", "decode"]


def generate_coder(repo, out_path):
    """dsw/spiderweb.py: set_vt, encode, decode as MiniPy terms (NumPy arrays are VArr values, the few numpy functions used
    are builtins of MiniPy.v); the functions of dsw/operation.py they call are resolved in OperationGen.operation_module."""
    tree = ast.parse(open(os.path.join(repo, "dsw", "spiderweb.py")).read())
    op_tree = ast.parse(open(os.path.join(repo, "dsw", "operation.py")).read())
    defs = {n.name: n for n in tree.body if isinstance(n, ast.FunctionDef)}
    names = [n.name for n in tree.body if isinstance(n, (ast.FunctionDef, ast.ClassDef))]
    numpy_names, op_names = set(), set()
    for n in tree.body:
        if isinstance(n, ast.ImportFrom):
            for a in n.names:
                if a.asname is not None:
                    raise Refuse("import ... as")
                if n.module == "numpy":
                    numpy_names.add(a.name)
                elif n.module == "dsw.operation":
                    op_names.add(a.name)
        elif isinstance(n, ast.Import):
            raise Refuse("plain import at module level")
        elif isinstance(n, (ast.Assign, ast.AugAssign, ast.AnnAssign)):
            raise Refuse("module-level assignment")
    for f in CODER_FUNCS:
        if names.count(f) != 1:
            raise Refuse("%s defined %d times" % (f, names.count(f)))
    # names a function could silently pick up from elsewhere: a module function shadowing an operation / numpy name
    for f in names:
        if f in numpy_names or f in op_names:
            raise Refuse("%s shadows an imported name" % f)
    sigs = {}
    op_defs = {n.name: n for n in op_tree.body if isinstance(n, ast.FunctionDef)}
    for f in list(CODER_FUNCS) + [x for x in FUNCS if x in op_names]:
        d = defs[f] if f in defs else op_defs.get(f)
        if d is None:
            raise Refuse("function %s not found" % f)
        a = d.args
        params = [x.arg for x in a.args]
        dflt = dict(zip(params[len(params) - len(a.defaults):], a.defaults))
        for v in dflt.values():
            if not isinstance(v, ast.Constant):
                raise Refuse("non-constant default in %s" % f)
        sigs[f] = (params, dflt)
    used_numpy = {"where", "argsort", "sum", "array", "zeros"} & numpy_names
    parts = ["(* GENERATED by harness/translate_minipy.py from %s/dsw/spiderweb.py -- do not edit *)\n"
             "From DSW Require Import MiniPy.\nFrom DSWGen Require Import OperationGen.\nOpen Scope Z_scope.\n" % repo]
    for f in CODER_FUNCS:
        fn = Fn(defs[f], sigs, numpy=used_numpy)
        # a call of a numpy function that was not imported from numpy would be a free name: refused by expr()
        parts.append(fn.translate())
    parts.append("Definition coder_module : module :=\n (%s ++ operation_module).\n"
                 % coq_list(["(%s, %s_def)" % (qs(f), f) for f in reversed(CODER_FUNCS)]))
    open(out_path, "w").write("\n".join(parts))
    return CODER_FUNCS


GRAPH_FUNCS = {"dsw/graphized.py": ["obtain_formers", "obtain_latters", "get_complete_accessor", "obtain_vertices",
                                    "obtain_leaf_vertices", "accessor_to_latter_map", "remove_useless", "latter_map_to_accessor"],
               "dsw/spiderweb.py": ["connect_valid_graph", "find_vertices"]}
GRAPH_FUNC_NAMES = [f for fs in GRAPH_FUNCS.values() for f in fs]


def generate_graph(repo, out_path):
    """graph representations and the two simple graph builders as MiniPyG terms.  Callees outside the list (number_to_dna of
    dsw/operation.py, the valid() method of the filter object) are left to the callee environment."""
    parts = ["(* GENERATED by harness/translate_minipy.py from %s/dsw/graphized.py and spiderweb.py -- do not edit *)\n"
             "From DSW Require Import MiniPyG.\nOpen Scope Z_scope.\n" % repo]
    trees, defs, sigs, numpy_of = {}, {}, {}, {}
    for rel in GRAPH_FUNCS:
        tree = ast.parse(open(os.path.join(repo, rel)).read())
        trees[rel] = tree
        numpy_names, other = set(), set()
        for n in tree.body:
            if isinstance(n, ast.ImportFrom):
                for a in n.names:
                    if a.asname is not None:
                        raise Refuse("import ... as")
                    (numpy_names if n.module == "numpy" else other).add(a.name)
            elif isinstance(n, ast.Import):
                raise Refuse("plain import at module level")
            elif isinstance(n, (ast.Assign, ast.AugAssign, ast.AnnAssign)):
                raise Refuse("module-level assignment")
        numpy_of[rel] = numpy_names
        names = [n.name for n in tree.body if isinstance(n, (ast.FunctionDef, ast.ClassDef))]
        for f in GRAPH_FUNCS[rel]:
            if names.count(f) != 1:
                raise Refuse("%s defined %d times" % (f, names.count(f)))
            if f in numpy_names:
                raise Refuse("%s shadows a numpy name" % f)
        for n in tree.body:
            if isinstance(n, ast.FunctionDef) and n.name in GRAPH_FUNCS[rel]:
                defs[n.name] = (rel, n)
    # spiderweb.py must take the graphized functions it calls from dsw.graphized
    for n in trees["dsw/spiderweb.py"].body:
        if isinstance(n, ast.ImportFrom) and n.module == "dsw.graphized":
            imported = {a.name for a in n.names}
            break
    else:
        raise Refuse("spiderweb.py does not import from dsw.graphized")
    # signatures: the generated functions + number_to_dna (dsw/operation.py), which find_vertices calls
    op_tree = ast.parse(open(os.path.join(repo, "dsw", "operation.py")).read())
    extra = {n.name: n for n in op_tree.body if isinstance(n, ast.FunctionDef) and n.name == "number_to_dna"}
    for f, d in list((k, v[1]) for k, v in defs.items()) + list(extra.items()):
        a = d.args
        params = [x.arg for x in a.args]
        dflt = dict(zip(params[len(params) - len(a.defaults):], a.defaults))
        for v in dflt.values():
            if not isinstance(v, ast.Constant):
                raise Refuse("non-constant default in %s" % f)
        sigs[f] = (params, dflt)
    order = GRAPH_FUNC_NAMES
    for f in order:
        rel, d = defs[f]
        used = {"where", "sum", "array", "zeros", "ones"} & numpy_of[rel]
        # a spiderweb function may only call graphized functions it imports
        visible = dict((k, v) for k, v in sigs.items()
                       if rel == "dsw/graphized.py" and (k in GRAPH_FUNCS[rel])
                       or rel == "dsw/spiderweb.py" and (k in GRAPH_FUNCS[rel] or k in imported or k == "number_to_dna"))
        objects = ["bio_filter"] if f == "find_vertices" else []
        parts.append(Fn(d, visible, numpy=used, graph=True, objects=objects).translate())
    parts.append("Definition graph_module : module :=\n %s.\n"
                 % coq_list(["(%s, %s_def)" % (qs(f), f) for f in reversed(order)]))
    open(out_path, "w").write("\n".join(parts))
    return order


SCORE_FUNCS = ["calculate_intersection_score", "remove_nasty_arc"]


def generate_score(repo, out_path):
    """calculate_intersection_score (dsw/graphized.py) and remove_nasty_arc (dsw/spiderweb.py) as MiniPyS terms, in front of
    MiniPyS copies of obtain_leaf_vertices and obtain_vertices; number_to_dna (only inside a verbose print) is left to the
    callee environment.  remove_nasty_arc updates its arguments accessor and latter_map IN PLACE and returns them: the value
    semantics describes the returned objects, which are the caller's objects."""
    sp = ast.parse(open(os.path.join(repo, "dsw", "spiderweb.py")).read())
    gr = ast.parse(open(os.path.join(repo, "dsw", "graphized.py")).read())
    op = ast.parse(open(os.path.join(repo, "dsw", "operation.py")).read())
    names = {"s": {}, "g": {}}
    imported = set()
    for rel, tree in (("s", sp), ("g", gr)):
        for n in tree.body:
            if isinstance(n, ast.ImportFrom):
                for a in n.names:
                    if a.asname is not None:
                        raise Refuse("import ... as")
                    names[rel].setdefault(n.module, set()).add(a.name)
                    if rel == "s" and n.module in ("dsw.graphized", "dsw.operation"):
                        imported.add(a.name)
            elif isinstance(n, ast.Import):
                raise Refuse("plain import at module level")
            elif isinstance(n, (ast.Assign, ast.AugAssign, ast.AnnAssign)):
                raise Refuse("module-level assignment")
    for c in ("calculate_intersection_score", "obtain_vertices", "number_to_dna"):
        if c not in imported:
            raise Refuse("spiderweb.py does not import %s" % c)
    gnames = ["calculate_intersection_score", "obtain_leaf_vertices", "obtain_vertices"]
    gdefs = {n.name: n for n in gr.body if isinstance(n, ast.FunctionDef) and n.name in gnames}
    sdefs = [n for n in sp.body if isinstance(n, ast.FunctionDef) and n.name == "remove_nasty_arc"]
    odefs = [n for n in op.body if isinstance(n, ast.FunctionDef) and n.name == "number_to_dna"]
    if len(gdefs) != 3 or len(sdefs) != 1 or len(odefs) != 1:
        raise Refuse("function definitions")
    if any(isinstance(n, (ast.FunctionDef, ast.ClassDef)) and n.name in gnames + ["number_to_dna"] for n in sp.body):
        raise Refuse("spiderweb.py re-defines an imported function")
    sigs = {}
    for d in list(gdefs.values()) + sdefs + odefs:
        a = d.args
        params = [x.arg for x in a.args]
        dflt = dict(zip(params[len(params) - len(a.defaults):], a.defaults))
        if any(not isinstance(v, ast.Constant) for v in dflt.values()):
            raise Refuse("non-constant default")
        sigs[d.name] = (params, dflt)
    parts = ["(* GENERATED by harness/translate_minipy.py from %s/dsw/graphized.py and spiderweb.py -- do not edit *)\n"
             "From DSW Require Import MiniPyS.\nOpen Scope Z_scope.\n" % repo]
    npn = {"where", "sum", "array", "zeros", "ones", "max", "unique", "argmax", "union1d", "intersect1d", "log", "argsort"}
    gsig = {k: v for k, v in sigs.items() if k in gnames}
    borrow = {"obtain_vertices": borrowed_params(gdefs["obtain_vertices"]),
              "obtain_leaf_vertices": borrowed_params(gdefs["obtain_leaf_vertices"])}
    # calculate_intersection_score hands latter_map on to obtain_leaf_vertices, which only reads it
    cis = gdefs["calculate_intersection_score"]
    for fname in ("obtain_vertices", "obtain_leaf_vertices"):
        f = Fn(gdefs[fname], gsig, numpy=npn & names["g"].get("numpy", set()), graph=True, coding=True, repair=True, score=True,
               itertools=names["g"].get("itertools", set()), collections=names["g"].get("collections", set()))
        parts.append(f.translate())
    f = Fn(cis, gsig, numpy=npn & names["g"].get("numpy", set()), graph=True, coding=True, repair=True, score=True,
           itertools=names["g"].get("itertools", set()), collections=names["g"].get("collections", set()))
    f.borrowing = borrow
    parts.append(f.translate())
    # latter_map is read-only in calculate_intersection_score if every use is a read or a hand-over to a borrowing callee
    cis_borrow = set()
    for prm in [a.arg for a in cis.args.args]:
        ok = True
        for n in ast.walk(cis):
            if isinstance(n, ast.Name) and n.id == prm and isinstance(n.ctx, (ast.Store, ast.Del)):
                ok = False
            if isinstance(n, (ast.Assign, ast.AugAssign)):
                for t in (n.targets if isinstance(n, ast.Assign) else [n.target]):
                    if isinstance(t, ast.Subscript) and isinstance(t.value, ast.Name) and t.value.id == prm:
                        ok = False
                v = n.value
                for val in [v] + (list(v.elts) if isinstance(v, (ast.Tuple, ast.List)) else []):
                    if isinstance(val, ast.Name) and val.id == prm:
                        ok = False
            if isinstance(n, ast.Return) and isinstance(n.value, ast.Name) and n.value.id == prm:
                ok = False
            if isinstance(n, ast.Call) and isinstance(n.func, ast.Name):
                cal = n.func.id
                cp = sigs.get(cal, ([], {}))[0]
                for pn, val in list(zip(cp, n.args)) + [(k.arg, k.value) for k in n.keywords]:
                    if isinstance(val, ast.Name) and val.id == prm and cal != "len" and pn not in borrow.get(cal, ()):
                        ok = False
            if isinstance(n, ast.Call) and isinstance(n.func, ast.Attribute) and isinstance(n.func.value, ast.Name) and n.func.value.id == prm \
                    and n.func.attr not in ("keys", "items", "values", "get", "index", "count", "copy", "tolist", "astype", "reshape"):
                ok = False
        if ok:
            cis_borrow.add(prm)
    top = Fn(sdefs[0], sigs, numpy=npn & names["s"].get("numpy", set()), graph=True, coding=True, repair=True, score=True,
             itertools=names["s"].get("itertools", set()), collections=names["s"].get("collections", set()),
             inplace=["accessor", "latter_map"])
    top.borrowing = dict(borrow, calculate_intersection_score=cis_borrow)
    parts.append(top.translate())
    parts.append("Definition score_module : module :=\n %s.\n"
                 % coq_list(["(%s, %s_def)" % (qs(f), f) for f in ["remove_nasty_arc", "calculate_intersection_score", "obtain_leaf_vertices",
                                                                 "obtain_vertices"]]))
    open(out_path, "w").write("\n".join(parts))
    return SCORE_FUNCS


MATRIX_FUNCS = ["accessor_to_adjacency_matrix", "adjacency_matrix_to_accessor"]


def generate_matrix(repo, out_path):
    """accessor_to_adjacency_matrix and adjacency_matrix_to_accessor (dsw/graphized.py) as MiniPyM terms, in front of a MiniPyM
    copy of obtain_latters.  The iteration order of `list(a_set)` is left to the callee environment (the external function
    "__list_of_set__"): the theorems assume of it only that it lists the elements of the set, each once, and lists non-negative
    ints that lie in one aligned block of eight in ascending order (what CPython's open-addressing int sets do)."""
    gr = ast.parse(open(os.path.join(repo, "dsw", "graphized.py")).read())
    names = {}
    for n in gr.body:
        if isinstance(n, ast.ImportFrom):
            for a in n.names:
                if a.asname is not None:
                    raise Refuse("import ... as")
                names.setdefault(n.module, set()).add(a.name)
        elif isinstance(n, ast.Import):
            raise Refuse("plain import at module level")
        elif isinstance(n, (ast.Assign, ast.AugAssign, ast.AnnAssign)):
            raise Refuse("module-level assignment")
    gnames = MATRIX_FUNCS + ["obtain_latters"]
    gdefs = {n.name: n for n in gr.body if isinstance(n, ast.FunctionDef) and n.name in gnames}
    if len(gdefs) != 3:
        raise Refuse("function definitions")
    sigs = {}
    for d in gdefs.values():
        a = d.args
        params = [x.arg for x in a.args]
        dflt = dict(zip(params[len(params) - len(a.defaults):], a.defaults))
        if any(not isinstance(v, ast.Constant) for v in dflt.values()):
            raise Refuse("non-constant default")
        sigs[d.name] = (params, dflt)
    parts = ["(* GENERATED by harness/translate_minipy.py from %s/dsw/graphized.py -- do not edit *)\n"
             "From DSW Require Import MiniPyM.\nOpen Scope Z_scope.\n" % repo]
    npn = {"where", "sum", "array", "zeros", "ones", "max", "min", "log"}
    for fname in ("obtain_latters", "accessor_to_adjacency_matrix", "adjacency_matrix_to_accessor"):
        f = Fn(gdefs[fname], sigs, numpy=npn & names.get("numpy", set()), graph=True, coding=True, repair=True, score=True,
               itertools=names.get("itertools", set()), collections=names.get("collections", set()), matrix=True)
        f.borrowing = {"obtain_latters": borrowed_params(gdefs["obtain_latters"])}
        parts.append(f.translate())
    parts.append("Definition matrix_module : module :=\n %s.\n"
                 % coq_list(["(%s, %s_def)" % (qs(f), f) for f in ["accessor_to_adjacency_matrix", "adjacency_matrix_to_accessor",
                                                                 "obtain_latters"]]))
    open(out_path, "w").write("\n".join(parts))
    return MATRIX_FUNCS


CAPACITY_FUNCS = ["approximate_capacity"]


def generate_capacity(repo, out_path):
    """approximate_capacity (dsw/graphized.py) as a MiniPyC term.  numpy.random.random is the hidden parameter "__rng__" (a list of
    arrays, consumed from the front); log2 and ** with a negative exponent are the external functions "__log2__", "__pow__"."""
    gr = ast.parse(open(os.path.join(repo, "dsw", "graphized.py")).read())
    names = {}
    for n in gr.body:
        if isinstance(n, ast.ImportFrom):
            for a in n.names:
                if a.asname is not None:
                    raise Refuse("import ... as")
                names.setdefault(n.module, set()).add(a.name)
        elif isinstance(n, ast.Import):
            raise Refuse("plain import at module level")
        elif isinstance(n, (ast.Assign, ast.AugAssign, ast.AnnAssign)):
            raise Refuse("module-level assignment")
    defs = [n for n in gr.body if isinstance(n, ast.FunctionDef) and n.name == "approximate_capacity"]
    if len(defs) != 1:
        raise Refuse("function definitions")
    d = defs[0]
    a = d.args
    params = [x.arg for x in a.args]
    dflt = dict(zip(params[len(params) - len(a.defaults):], a.defaults))
    if "__rng__" in params or "__rand__" in params:
        raise Refuse("reserved name")
    sigs = {d.name: (params, dflt)}
    npn = {"where", "sum", "array", "zeros", "ones", "max", "min", "log", "all", "abs", "zeros_like", "median", "log2", "random"}
    f = Fn(d, sigs, numpy=npn & names.get("numpy", set()), graph=True, coding=True, repair=True, score=True,
           itertools=names.get("itertools", set()), collections=names.get("collections", set()), capacity=True)
    for n in ast.walk(d):
        if isinstance(n, ast.Name) and n.id in ("__rng__", "__rand__"):
            raise Refuse("reserved name")
    text = f.translate()
    # the hidden parameter: the stream of arrays numpy.random.random will return
    head = 'params := [%s]' % "; ".join(qs(p) for p in params)
    if text.count(head) != 1:
        raise Refuse("parameter list")
    text = text.replace(head, 'params := [%s]' % "; ".join(qs(p) for p in params + ["__rng__"]))
    parts = ["(* GENERATED by harness/translate_minipy.py from %s/dsw/graphized.py -- do not edit *)\n"
             "From Coq Require Import PrimFloat.\nFrom DSW Require Import MiniPyC.\nOpen Scope Z_scope.\n" % repo, text,
             "Definition capacity_module : module :=\n %s.\n" % coq_list(["(%s, %s_def)" % (qs("approximate_capacity"), "approximate_capacity")])]
    open(out_path, "w").write("\n".join(parts))
    return CAPACITY_FUNCS


SHUFFLE_FUNCS = ["create_random_shuffles"]


def _fold_row_shuffles(fdef, numpy_names):
    """card = a[i]; random.shuffle(card); a[i] = card  -- a row VIEW shuffled in place and written back -- becomes ONE synthetic
    statement __shuffle_row__(a, i).  In Python `card` aliases row i of `a` (the write-back stores the row into itself); with copy-in /
    copy-out the final `a` is the same, PROVIDED the three statements are adjacent, `i` is a name, and `card` occurs nowhere else in
    the function (it is dead after the write-back).  Anything else is left alone (and then refused by the aliasing check)."""
    if "random" not in numpy_names:
        return
    uses = {}
    for n in ast.walk(fdef):
        if isinstance(n, ast.Name):
            uses[n.id] = uses.get(n.id, 0) + 1
    for node in ast.walk(fdef):
        for fld in ("body", "orelse"):
            blk = getattr(node, fld, None)
            if not (isinstance(blk, list) and blk and isinstance(blk[0], ast.stmt)):
                continue
            i = 0
            while i + 2 < len(blk):
                a, b, c = blk[i], blk[i + 1], blk[i + 2]
                ok = isinstance(a, ast.Assign) and len(a.targets) == 1 and isinstance(a.targets[0], ast.Name) \
                    and isinstance(a.value, ast.Subscript) and isinstance(a.value.value, ast.Name) and isinstance(a.value.slice, ast.Name) \
                    and isinstance(b, ast.Expr) and isinstance(b.value, ast.Call) and isinstance(b.value.func, ast.Attribute) \
                    and b.value.func.attr == "shuffle" and isinstance(b.value.func.value, ast.Name) and b.value.func.value.id == "random" \
                    and len(b.value.args) == 1 and not b.value.keywords and isinstance(b.value.args[0], ast.Name) \
                    and isinstance(c, ast.Assign) and len(c.targets) == 1 and isinstance(c.targets[0], ast.Subscript) \
                    and isinstance(c.targets[0].value, ast.Name) and isinstance(c.targets[0].slice, ast.Name) and isinstance(c.value, ast.Name)
                if ok:
                    y, x, idx = a.targets[0].id, a.value.value.id, a.value.slice.id
                    ok = b.value.args[0].id == y and c.value.id == y and c.targets[0].value.id == x and c.targets[0].slice.id == idx \
                        and uses.get(y, 0) == 3 and y not in (x, idx) and x != idx
                if ok:
                    call = ast.Expr(value=ast.Call(func=ast.Name(id="__shuffle_row__", ctx=ast.Load()),
                                                   args=[ast.Name(id=x, ctx=ast.Load()), ast.Name(id=idx, ctx=ast.Load())], keywords=[]))
                    blk[i:i + 3] = [ast.copy_location(call, a)]
                i += 1


def generate_shuffle(repo, out_path):
    """create_random_shuffles (dsw/spiderweb.py) as a MiniPyD term.  The permutation numpy.random.shuffle applies to each row is the
    next item of the hidden parameter "__rng__"; numpy.random.seed is the external function "__seed__"."""
    sp = ast.parse(open(os.path.join(repo, "dsw", "spiderweb.py")).read())
    names = {}
    for n in sp.body:
        if isinstance(n, ast.ImportFrom):
            for a in n.names:
                if a.asname is not None:
                    raise Refuse("import ... as")
                names.setdefault(n.module, set()).add(a.name)
        elif isinstance(n, ast.Import):
            raise Refuse("plain import at module level")
        elif isinstance(n, (ast.Assign, ast.AugAssign, ast.AnnAssign)):
            raise Refuse("module-level assignment")
    defs = [n for n in sp.body if isinstance(n, ast.FunctionDef) and n.name == "create_random_shuffles"]
    if len(defs) != 1:
        raise Refuse("function definitions")
    d = defs[0]
    for n in ast.walk(d):
        if isinstance(n, ast.Name) and n.id in ("__rng__", "__shuffle_row__"):
            raise Refuse("reserved name")
    a = d.args
    params = [x.arg for x in a.args]
    dflt = dict(zip(params[len(params) - len(a.defaults):], a.defaults))
    sigs = {d.name: (params, dflt)}
    npn = {"where", "sum", "array", "zeros", "ones", "max", "random"}
    npnames = npn & names.get("numpy", set())
    _fold_row_shuffles(d, npnames)
    f = Fn(d, sigs, numpy=npnames, graph=True, coding=True, repair=True, score=True,
           itertools=names.get("itertools", set()), collections=names.get("collections", set()), shuffle=True)
    f.assigned.discard("__shuffle_row__")
    text = f.translate()
    head = 'params := [%s]' % "; ".join(qs(p) for p in params)
    if text.count(head) != 1:
        raise Refuse("parameter list")
    text = text.replace(head, 'params := [%s]' % "; ".join(qs(p) for p in params + ["__rng__"]))
    parts = ["(* GENERATED by harness/translate_minipy.py from %s/dsw/spiderweb.py -- do not edit *)\n"
             "From DSW Require Import MiniPyD.\nOpen Scope Z_scope.\n" % repo, text,
             "Definition shuffle_module : module :=\n %s.\n" % coq_list(["(%s, %s_def)" % (qs("create_random_shuffles"), "create_random_shuffles")])]
    open(out_path, "w").write("\n".join(parts))
    return SHUFFLE_FUNCS


MONITOR_FUNCS = ["Monitor.__call__"]


def generate_monitor(repo, out_path):
    """Monitor.__call__ (dsw/operation.py) as a MiniPyE term.  Parameters: current_state, total_state, extra, then the attribute
    self.last_time as it is before the call, then "__out__" (the list of strings printed so far).  Every exit of the method returns
    the triple (None, printed strings, self.last_time after the call).  datetime.now() and the elapsed seconds are the external
    functions "__now__" / "__elapsed__"."""
    tree = ast.parse(open(os.path.join(repo, "dsw", "operation.py")).read())
    imports = {}
    for n in tree.body:
        if isinstance(n, ast.ImportFrom):
            for a in n.names:
                if a.asname is not None:
                    raise Refuse("import ... as")
                imports.setdefault(n.module, set()).add(a.name)
        elif isinstance(n, ast.Import):
            raise Refuse("plain import at module level")
    if "datetime" not in imports.get("datetime", set()):
        raise Refuse("datetime is not imported from datetime")
    classes = [n for n in tree.body if isinstance(n, ast.ClassDef) and n.name == "Monitor"]
    if len(classes) != 1 or classes[0].decorator_list or classes[0].keywords:
        raise Refuse("class Monitor")
    cls = classes[0]
    methods = {x.name: x for x in cls.body if isinstance(x, ast.FunctionDef)}
    if set(methods) != {"__init__", "__call__"}:
        raise Refuse("methods of Monitor: %s" % sorted(methods))
    for x in cls.body:
        if not isinstance(x, ast.FunctionDef) and not (isinstance(x, ast.Expr) and isinstance(x.value, ast.Constant)):
            raise Refuse("class-level statement")
    # __init__ only sets self.last_time = None
    init_body = [st for st in methods["__init__"].body if not (isinstance(st, ast.Expr) and isinstance(st.value, ast.Constant))]
    if len(init_body) != 1 or ast.dump(init_body[0]) != ast.dump(ast.parse("self.last_time = None").body[0]) \
            or [a.arg for a in methods["__init__"].args.args] != ["self"]:
        raise Refuse("Monitor.__init__")
    call = methods["__call__"]
    for d in call.args.defaults:
        if not isinstance(d, ast.Constant):
            raise Refuse("non-constant default")
    for n in ast.walk(call):
        if isinstance(n, ast.Name) and n.id in ("__out__",):
            raise Refuse("reserved name")
        if isinstance(n, ast.Return) and n.value is not None:
            raise Refuse("return with a value")
    f = Fn(call, {}, method=True, numpy=set(), graph=True, coding=True, repair=True, score=True, monitor=True)
    if sorted(set(f.attrs_read + f.attrs_written)) != ["last_time"]:
        raise Refuse("attributes of Monitor: %s" % sorted(set(f.attrs_read + f.attrs_written)))
    f.assigned.add("__out__")
    f.check_aliasing()
    body = f.block(call.body)
    ret = "(SReturn (ETuple [ENone; (EVar %s); (EVar %s)]))" % (qs("__out__"), qs("self.last_time"))
    if body.count("(SReturn ENone)") != sum(1 for n in ast.walk(call) if isinstance(n, ast.Return)):
        raise Refuse("return statements")
    body = body.replace("(SReturn ENone)", ret)
    params = f.params + ["self.last_time", "__out__"]
    text = ("Definition monitor_call_def : fundef :=\n {| params := %s;\n    body :=\n (SSeq %s\n %s) |}.\n"
            % (coq_list([qs(p) for p in params]), body, ret))
    parts = ["(* GENERATED by harness/translate_minipy.py from %s/dsw/operation.py -- do not edit *)\n"
             "From Coq Require Import PrimFloat.\nFrom DSW Require Import MiniPyE.\nOpen Scope Z_scope.\n" % repo, text,
             "Definition monitor_module : module :=\n %s.\n" % coq_list(["(%s, monitor_call_def)" % qs("Monitor.__call__")])]
    open(out_path, "w").write("\n".join(parts))
    return MONITOR_FUNCS


REPAIR_FUNCS = ["path_matching", "repair_dna"]


def generate_repair(repo, out_path):
    """path_matching (dsw/graphized.py) and repair_dna (dsw/spiderweb.py) as MiniPyR terms; dna_to_number (dsw/operation.py) and
    set_vt (regenerated in the coder unit) are left to the callee environment."""
    sp = ast.parse(open(os.path.join(repo, "dsw", "spiderweb.py")).read())
    gr = ast.parse(open(os.path.join(repo, "dsw", "graphized.py")).read())
    op = ast.parse(open(os.path.join(repo, "dsw", "operation.py")).read())
    np_names, it_names, imported = {"s": set(), "g": set()}, {"s": set(), "g": set()}, set()
    for rel, tree in (("s", sp), ("g", gr)):
        for n in tree.body:
            if isinstance(n, ast.ImportFrom):
                for a in n.names:
                    if a.asname is not None:
                        raise Refuse("import ... as")
                    if n.module == "numpy":
                        np_names[rel].add(a.name)
                    if n.module == "itertools":
                        it_names[rel].add(a.name)
                    if rel == "s" and n.module in ("dsw.graphized", "dsw.operation"):
                        imported.add(a.name)
            elif isinstance(n, ast.Import):
                raise Refuse("plain import at module level")
            elif isinstance(n, (ast.Assign, ast.AugAssign, ast.AnnAssign)):
                raise Refuse("module-level assignment")
    for c in ("path_matching", "dna_to_number"):
        if c not in imported:
            raise Refuse("spiderweb.py does not import %s" % c)
    pm = [n for n in gr.body if isinstance(n, ast.FunctionDef) and n.name == "path_matching"]
    rd = [n for n in sp.body if isinstance(n, ast.FunctionDef) and n.name == "repair_dna"]
    sv = [n for n in sp.body if isinstance(n, ast.FunctionDef) and n.name == "set_vt"]
    d2n = [n for n in op.body if isinstance(n, ast.FunctionDef) and n.name == "dna_to_number"]
    if len(pm) != 1 or len(rd) != 1 or len(sv) != 1 or len(d2n) != 1:
        raise Refuse("function definitions")
    if any(isinstance(n, (ast.FunctionDef, ast.ClassDef)) and n.name in ("path_matching", "dna_to_number") for n in sp.body):
        raise Refuse("spiderweb.py re-defines an imported function")
    sigs = {}
    for d in pm + rd + sv + d2n:
        a = d.args
        params = [x.arg for x in a.args]
        dflt = dict(zip(params[len(params) - len(a.defaults):], a.defaults))
        if any(not isinstance(v, ast.Constant) for v in dflt.values()):
            raise Refuse("non-constant default")
        sigs[d.name] = (params, dflt)
    parts = ["(* GENERATED by harness/translate_minipy.py from %s/dsw/graphized.py and spiderweb.py -- do not edit *)\n"
             "From DSW Require Import MiniPyR.\nOpen Scope Z_scope.\n" % repo]
    used = {"where", "sum", "array", "zeros", "ones"}
    f1 = Fn(pm[0], {}, numpy=used & np_names["g"], graph=True, coding=True, repair=True, itertools=it_names["g"])
    parts.append(f1.translate())
    f2 = Fn(rd[0], sigs, numpy=used & np_names["s"], graph=True, coding=True, repair=True, itertools=it_names["s"])
    f2.borrowing = {"path_matching": borrowed_params(pm[0])}
    parts.append(f2.translate())
    parts.append("Definition repair_module : module :=\n %s.\n"
                 % coq_list(["(%s, %s_def)" % (qs(f), f) for f in ["repair_dna", "path_matching"]]))
    open(out_path, "w").write("\n".join(parts))
    return REPAIR_FUNCS


CODING_FUNCS = ["connect_coding_graph"]


def generate_coding(repo, out_path):
    """connect_coding_graph (dsw/spiderweb.py) as a MiniPyH term, in front of MiniPyH copies of the three graphized functions it
    calls (obtain_vertices, obtain_latters, obtain_formers)."""
    sp = ast.parse(open(os.path.join(repo, "dsw", "spiderweb.py")).read())
    gr = ast.parse(open(os.path.join(repo, "dsw", "graphized.py")).read())
    numpy_of, imported = {}, set()
    for rel, tree in (("s", sp), ("g", gr)):
        names = set()
        for n in tree.body:
            if isinstance(n, ast.ImportFrom):
                for a in n.names:
                    if a.asname is not None:
                        raise Refuse("import ... as")
                    if n.module == "numpy":
                        names.add(a.name)
                    if rel == "s" and n.module == "dsw.graphized":
                        imported.add(a.name)
            elif isinstance(n, ast.Import):
                raise Refuse("plain import at module level")
            elif isinstance(n, (ast.Assign, ast.AugAssign, ast.AnnAssign)):
                raise Refuse("module-level assignment")
        numpy_of[rel] = names
    callees = ["obtain_vertices", "obtain_latters", "obtain_formers"]
    for c in callees:
        if c not in imported:
            raise Refuse("spiderweb.py does not import %s from dsw.graphized" % c)
    sdefs = [n for n in sp.body if isinstance(n, ast.FunctionDef) and n.name == "connect_coding_graph"]
    gdefs = {n.name: n for n in gr.body if isinstance(n, ast.FunctionDef) and n.name in callees}
    if len(sdefs) != 1 or len(gdefs) != 3 or any([n.name for n in gr.body if isinstance(n, ast.FunctionDef)].count(c) != 1 for c in callees):
        raise Refuse("function definitions")
    if any(isinstance(n, (ast.FunctionDef, ast.ClassDef)) and n.name in callees for n in sp.body):
        raise Refuse("spiderweb.py re-defines a graphized function")
    sigs = {}
    for d in sdefs + list(gdefs.values()):
        a = d.args
        params = [x.arg for x in a.args]
        dflt = dict(zip(params[len(params) - len(a.defaults):], a.defaults))
        if any(not isinstance(v, ast.Constant) for v in dflt.values()):
            raise Refuse("non-constant default")
        sigs[d.name] = (params, dflt)
    parts = ["(* GENERATED by harness/translate_minipy.py from %s/dsw/spiderweb.py and graphized.py -- do not edit *)\n"
             "From DSW Require Import MiniPyH.\nOpen Scope Z_scope.\n" % repo]
    used_g = {"where", "sum", "array", "zeros", "ones"} & numpy_of["g"]
    used_s = {"where", "sum", "array", "zeros", "ones"} & numpy_of["s"]
    for c in reversed(callees):
        parts.append(Fn(gdefs[c], {k: v for k, v in sigs.items() if k in callees}, numpy=used_g, graph=True, coding=True).translate())
    top = Fn(sdefs[0], sigs, numpy=used_s, graph=True, coding=True)
    top.borrowing = {c: borrowed_params(gdefs[c]) for c in callees}
    parts.append(top.translate())
    parts.append("Definition coding_module : module :=\n %s.\n"
                 % coq_list(["(%s, %s_def)" % (qs(f), f) for f in ["connect_coding_graph"] + callees]))
    open(out_path, "w").write("\n".join(parts))
    return CODING_FUNCS


BIOFILTER_FUNCS = ["LocalBioFilter.__init__", "LocalBioFilter.valid"]


def generate_biofilter(repo, out_path):
    """dsw/biofilter.py, class LocalBioFilter: the constructor and valid() as MiniPyF terms.  A method's parameters are its own
    (without self) followed by the attributes it reads, in order of first occurrence; `self.x = e` is an assignment to the
    variable "self.x"."""
    tree = ast.parse(open(os.path.join(repo, "dsw", "biofilter.py")).read())
    classes = [n for n in tree.body if isinstance(n, ast.ClassDef) and n.name == "LocalBioFilter"]
    if len(classes) != 1:
        raise Refuse("class LocalBioFilter not found exactly once")
    cls = classes[0]
    if cls.decorator_list or cls.keywords or len(cls.bases) != 1 or not isinstance(cls.bases[0], ast.Name) \
            or cls.bases[0].id != "DefaultBioFilter":
        raise Refuse("class header")
    # the base class must not define anything valid() could pick up instead (no __getattr__ tricks, no properties)
    for n in tree.body:
        if isinstance(n, ast.ClassDef) and n.name == "DefaultBioFilter":
            for x in n.body:
                if isinstance(x, ast.FunctionDef) and x.name not in ("__init__", "valid", "__str__"):
                    raise Refuse("DefaultBioFilter defines %s" % x.name)
    methods = {}
    for x in cls.body:
        if isinstance(x, ast.FunctionDef):
            if x.name in methods:
                raise Refuse("%s defined twice" % x.name)
            methods[x.name] = x
        elif not (isinstance(x, ast.Expr) and isinstance(x.value, ast.Constant)):
            raise Refuse("class-level statement %s" % type(x).__name__)
    for x in methods:
        if x not in ("__init__", "valid", "__str__"):
            raise Refuse("unexpected method %s" % x)
    parts = ["(* GENERATED by harness/translate_minipy.py from %s/dsw/biofilter.py -- do not edit *)\n"
             "From DSW Require Import MiniPyF.\nOpen Scope Z_scope.\n" % repo]
    for m, nm in (("__init__", "filter_init"), ("valid", "filter_valid")):
        if m not in methods:
            raise Refuse("method %s not found" % m)
        for d in methods[m].args.defaults:
            if not isinstance(d, ast.Constant):
                raise Refuse("non-constant default")
        parts.append(Fn(methods[m], {}, method=True, floats=True).translate(nm))
    open(out_path, "w").write("\n".join(parts))
    return BIOFILTER_FUNCS


if __name__ == "__main__":
    import sys
    if sys.argv[1:2] == ["biofilter"]:
        generate_biofilter(sys.argv[2], sys.argv[3])
        sys.exit(0)
    if sys.argv[1:2] == ["score"]:
        generate_score(sys.argv[2], sys.argv[3])
        sys.exit(0)
    if sys.argv[1:2] == ["repair"]:
        generate_repair(sys.argv[2], sys.argv[3])
        sys.exit(0)
    if sys.argv[1:2] == ["coding"]:
        generate_coding(sys.argv[2], sys.argv[3])
        sys.exit(0)
    if sys.argv[1:2] == ["graph"]:
        generate_graph(sys.argv[2], sys.argv[3])
        sys.exit(0)
    if sys.argv[1:2] == ["coder"]:
        generate_coder(sys.argv[2], sys.argv[3])
        sys.exit(0)
    generate(sys.argv[1] if len(sys.argv) > 1 else "/repo", sys.argv[2] if len(sys.argv) > 2 else "/dev/stdout")
