"""translate_minipy.py -- Python source of dsw/operation.py  ->  a term of the deep embedding coq/MiniPy.v.

The translation is purely syntactic: one MiniPy constructor per Python ast node, nothing is evaluated, simplified or
reordered here.  What the term MEANS is defined in Coq (MiniPy.run_fun); what it is EQUAL to is proved in
coq/Generated/OperationGenProofs.v against the regenerated term, on every run.  Anything outside the fragment makes the
translator refuse (fail closed) and the AST fingerprints of harness/sourcetie.py decide instead.

Besides syntax the translator checks the one side condition the value semantics of MiniPy needs -- NO ALIASING OF A LIST
THAT IS MUTATED IN PLACE:
  * a name that is the object of  x[i] = ..,  x[i] op= ..,  x.append(..),  x.insert(..)  ("mutated name") is only ever
    bound to a fresh object (list display, comprehension, list(..)/map(..)/join(..) call, arithmetic); if it is a parameter,
    an unconditional fresh re-binding at function level precedes every mutation;
  * a mutated name never occurs as a bare right-hand side, inside a list / tuple display, or as an argument of another
    function of the module (those would create a second reference);
  * the iterable of a for loop does not mention a name mutated in the loop body, unless the iterable is a range(..)
    (whose bounds Python evaluates once, like MiniPy).
Monitor() (progress output) is an opaque value and a call of it an expression statement whose arguments are evaluated and
dropped: console output is not modelled."""
import ast
import os

FUNCS = ["calculus_addition", "calculus_subtraction", "calculus_multiplication", "calculus_division",
         "bit_to_number", "number_to_bit", "dna_to_number", "number_to_dna"]
EXNS = {"ValueError": "ValueError", "IndexError": "IndexError", "TypeError": "TypeError", "OverflowError": "OverflowError",
        "KeyError": "KeyError"}
BINOPS = {ast.Add: "Add", ast.Sub: "Sub", ast.Mult: "Mul", ast.FloorDiv: "FloorDiv", ast.Mod: "Mod", ast.Pow: "Pow"}
CMPOPS = {ast.Eq: "CEq", ast.NotEq: "CNe", ast.Lt: "CLt", ast.LtE: "CLe", ast.Gt: "CGt", ast.GtE: "CGe"}
TYPES = {"str": "TStr", "int": "TInt", "list": "TList"}
B1 = {"len": "BLen", "int": "BInt", "str": "BStr", "list": "BList", "enumerate": "BEnumerate"}


class Refuse(Exception):
    pass


def qs(name):
    if not all(part.isidentifier() for part in name.split(".")) or '"' in name:
        raise Refuse("name %r" % name)
    return '"%s"%%string' % name


def codepoints(s):
    return "[" + "; ".join(str(ord(c)) for c in s) + "]"


def coq_list(items):
    return "[" + "; ".join(items) + "]"


class Fn:
    """translation context of one function"""

    def __init__(self, node, sigs, method=False, floats=False, numpy=()):
        self.node = node
        self.sigs = sigs                      # name -> (params, {param: default ast})
        self.method = method                  # a method: `self.x` is the variable "self.x"; attributes read become parameters
        self.floats = floats                  # target MiniPyF.v (None tests, substring tests, count / replace / upper)
        self.numpy = set(numpy)               # names the module imports from numpy (where, argsort, sum, array, zeros)
        self.params = [a.arg for a in node.args.args]
        a = node.args
        if a.vararg or a.kwarg or a.kwonlyargs or a.posonlyargs or node.decorator_list:
            raise Refuse("%s: signature" % node.name)
        self.attrs_read, self.attrs_written = [], []
        if method:
            if not self.params or self.params[0] != "self":
                raise Refuse("%s: first parameter is not self" % node.name)
            self.params = self.params[1:]
            for n in ast.walk(node):
                if isinstance(n, ast.Name) and n.id == "self":
                    pass
            for n in ast.walk(node):
                if isinstance(n, ast.Attribute) and isinstance(n.value, ast.Name) and n.value.id == "self":
                    tgt = self.attrs_written if isinstance(n.ctx, ast.Store) else self.attrs_read
                    if n.attr not in tgt:
                        tgt.append(n.attr)
            # self may only occur as  self.<attr>  (never passed on, never re-bound)
            attr_selfs = {id(n.value) for n in ast.walk(node) if isinstance(n, ast.Attribute) and isinstance(n.value, ast.Name)
                          and n.value.id == "self"}
            for n in ast.walk(node):
                if isinstance(n, ast.Name) and n.id == "self" and id(n) not in attr_selfs:
                    raise Refuse("%s: self used other than as self.<attribute>" % node.name)
        self.monitors = set()
        self.assigned = set(self.params) | {"self." + x for x in self.attrs_read + self.attrs_written}
        for n in ast.walk(node):
            if isinstance(n, ast.Name) and isinstance(n.ctx, ast.Store):
                self.assigned.add(n.id)
            if isinstance(n, (ast.Global, ast.Nonlocal, ast.Lambda, ast.FunctionDef)) and n is not node:
                raise Refuse("%s: %s" % (node.name, type(n).__name__))
            if isinstance(n, ast.Assign) and isinstance(n.value, ast.Call) and isinstance(n.value.func, ast.Name) \
                    and n.value.func.id == "Monitor":
                if len(n.targets) != 1 or not isinstance(n.targets[0], ast.Name) or n.value.args or n.value.keywords:
                    raise Refuse("Monitor() binding")
                self.monitors.add(n.targets[0].id)
        for n in ast.walk(node):              # ... or through a tuple assignment  a, m, b = (x, Monitor(), y)
            if isinstance(n, ast.Assign) and len(n.targets) == 1 and isinstance(n.targets[0], ast.Tuple) \
                    and isinstance(n.value, ast.Tuple) and len(n.value.elts) == len(n.targets[0].elts):
                for t, v in zip(n.targets[0].elts, n.value.elts):
                    if isinstance(v, ast.Call) and isinstance(v.func, ast.Name) and v.func.id == "Monitor":
                        if not isinstance(t, ast.Name) or v.args or v.keywords:
                            raise Refuse("Monitor() binding")
                        self.monitors.add(t.id)
        for m in self.monitors:               # a monitor name is bound exactly once, to Monitor()
            stores = [n for n in ast.walk(node) if isinstance(n, ast.Name) and n.id == m and isinstance(n.ctx, ast.Store)]
            if len(stores) != 1 or m in self.params:
                raise Refuse("monitor name re-bound")

    # ---------------------------------------------------------------- expressions
    def expr(self, e):
        if isinstance(e, ast.Constant):
            v = e.value
            if v is None:
                return "ENone"
            if isinstance(v, bool):
                return "(EBoolLit %s)" % ("true" if v else "false")
            if isinstance(v, int):
                return "(EInt (%d))" % v
            if isinstance(v, str):
                return "(EStr %s)" % codepoints(v)
            raise Refuse("constant %r" % (v,))
        if isinstance(e, ast.Name):
            if e.id in self.monitors:
                raise Refuse("monitor object used as a value")
            if e.id not in self.assigned:
                raise Refuse("free name %s" % e.id)
            return "(EVar %s)" % qs(e.id)
        if isinstance(e, ast.Attribute) and self.method and isinstance(e.value, ast.Name) and e.value.id == "self":
            return "(EVar %s)" % qs("self." + e.attr)
        if isinstance(e, ast.BinOp):
            if type(e.op) not in BINOPS:
                raise Refuse("operator %s" % type(e.op).__name__)
            return "(EBin %s %s %s)" % (BINOPS[type(e.op)], self.expr(e.left), self.expr(e.right))
        if isinstance(e, ast.UnaryOp):
            if isinstance(e.op, ast.Not):
                return "(ENot %s)" % self.expr(e.operand)
            if isinstance(e.op, ast.USub):
                if isinstance(e.operand, ast.Constant) and isinstance(e.operand.value, int) and not isinstance(e.operand.value, bool):
                    return "(EInt (%d))" % (-e.operand.value)
                return "(EBin Sub (EInt 0) %s)" % self.expr(e.operand)
            raise Refuse("unary %s" % type(e.op).__name__)
        if isinstance(e, ast.BoolOp):
            parts = [self.expr(v) for v in e.values]
            c = "EAnd" if isinstance(e.op, ast.And) else "EOr"
            out = parts[-1]
            for p in reversed(parts[:-1]):
                out = "(%s %s %s)" % (c, p, out)
            return out
        if isinstance(e, ast.Compare):
            l, r = e.left, e.comparators[0]
            if (self.floats or self.numpy) and len(e.ops) == 1:
                if isinstance(e.ops[0], (ast.Is, ast.IsNot)) and isinstance(r, ast.Constant) and r.value is None:
                    t = "(EB1 BIsNone %s)" % self.expr(l)
                    return t if isinstance(e.ops[0], ast.Is) else "(ENot %s)" % t
                if isinstance(e.ops[0], (ast.In, ast.NotIn)):
                    return "(ECmp %s %s %s)" % ("CIn" if isinstance(e.ops[0], ast.In) else "CNotIn", self.expr(l), self.expr(r))
            if len(e.ops) != 1 or type(e.ops[0]) not in CMPOPS:
                raise Refuse("comparison")
            # type(x) == str
            if isinstance(l, ast.Call) and isinstance(l.func, ast.Name) and l.func.id == "type" and len(l.args) == 1 \
                    and not l.keywords and isinstance(r, ast.Name) and r.id in TYPES and r.id not in self.assigned \
                    and isinstance(e.ops[0], ast.Eq):
                return "(ETypeIs %s %s)" % (self.expr(l.args[0]), TYPES[r.id])
            return "(ECmp %s %s %s)" % (CMPOPS[type(e.ops[0])], self.expr(l), self.expr(r))
        if isinstance(e, ast.IfExp):
            return "(EIf %s %s %s)" % (self.expr(e.test), self.expr(e.body), self.expr(e.orelse))
        if isinstance(e, ast.List):
            return "(EList %s)" % coq_list([self.expr(x) for x in e.elts])
        if isinstance(e, ast.Tuple):
            return "(ETuple %s)" % coq_list([self.expr(x) for x in e.elts])
        if isinstance(e, ast.ListComp):
            if len(e.generators) != 1:
                raise Refuse("comprehension")
            g = e.generators[0]
            if g.ifs or g.is_async or not isinstance(g.target, ast.Name):
                raise Refuse("comprehension")
            if g.target.id in self.assigned - {g.target.id} or g.target.id in self.params:
                raise Refuse("comprehension variable shadows a parameter")
            # the comprehension variable is local to the comprehension
            saved = set(self.assigned)
            self.assigned.add(g.target.id)
            body = self.expr(e.elt)
            self.assigned = saved | {g.target.id}
            return "(EComp %s %s %s)" % (body, qs(g.target.id), self.expr(g.iter))
        if isinstance(e, ast.Subscript):
            s = e.slice
            if isinstance(s, ast.Slice):
                if s.step is not None:
                    if s.lower is None and s.upper is None and isinstance(s.step, ast.UnaryOp) and isinstance(s.step.op, ast.USub) \
                            and isinstance(s.step.operand, ast.Constant) and s.step.operand.value == 1:
                        return "(EB1 BRev %s)" % self.expr(e.value)
                    raise Refuse("slice step")
                lo = "None" if s.lower is None else "(Some %s)" % self.expr(s.lower)
                hi = "None" if s.upper is None else "(Some %s)" % self.expr(s.upper)
                return "(ESlice %s %s %s)" % (self.expr(e.value), lo, hi)
            return "(EIndex %s %s)" % (self.expr(e.value), self.expr(s))
        if isinstance(e, ast.Call):
            return self.call(e)
        raise Refuse("expression %s" % type(e).__name__)

    def call(self, e):
        f = e.func
        if isinstance(f, ast.Name) and f.id not in self.assigned:
            name = f.id
            if name == "Monitor" and not e.args and not e.keywords:
                return "EOpaque"
            if name in self.sigs:
                params, defaults = self.sigs[name]
                if len(e.args) > len(params):
                    raise Refuse("call of %s: too many arguments" % name)
                given = {}
                for p, a in zip(params, e.args):
                    given[p] = a
                for kw in e.keywords:
                    if kw.arg is None or kw.arg not in params or kw.arg in given:
                        raise Refuse("call of %s: keyword %s" % (name, kw.arg))
                    given[kw.arg] = kw.value
                # Python evaluates positional arguments, then keywords, in source order; all arguments in dsw/operation.py
                # are names, constants or str(..)/len(..) of names, so the order cannot be observed -- checked here
                out = []
                for p in params:
                    if p in given:
                        if not self.pure(given[p]):
                            raise Refuse("call of %s: argument with a possible effect" % name)
                        out.append(self.expr(given[p]))
                    elif p in defaults:
                        out.append(self.expr(defaults[p]))
                    else:
                        raise Refuse("call of %s: missing argument %s" % (name, p))
                return "(ECall %s %s)" % (qs(name), coq_list(out))
            if name in self.numpy:
                kws = {k.arg: k.value for k in e.keywords}
                dtype_int = "dtype" not in kws or (isinstance(kws["dtype"], ast.Name) and kws["dtype"].id == "int"
                                                   and "int" not in self.assigned)
                if name in ("where", "argsort", "sum") and len(e.args) == 1 and not kws:
                    return "(EB1 %s %s)" % ({"where": "BNpWhere", "argsort": "BNpArgsort", "sum": "BNpSum"}[name], self.expr(e.args[0]))
                if name == "array" and len(e.args) == 1 and set(kws) <= {"dtype"} and dtype_int:
                    return "(EB1 BNpArray %s)" % self.expr(e.args[0])
                if name == "zeros" and not e.args and set(kws) == {"shape", "dtype"} and dtype_int \
                        and isinstance(kws["shape"], ast.Tuple) and len(kws["shape"].elts) == 1:
                    return "(EB1 BNpZeros %s)" % self.expr(kws["shape"].elts[0])
                raise Refuse("numpy call %s" % ast.unparse(e)[:60])
            if e.keywords:
                raise Refuse("keyword arguments to %s" % name)
            if name in ("sum", "max", "min", "any", "all", "sorted") :
                raise Refuse("builtin %s" % name)
            if name in B1 and len(e.args) == 1:
                return "(EB1 %s %s)" % (B1[name], self.expr(e.args[0]))
            if name == "range":
                a = [self.expr(x) for x in e.args]
                if len(a) == 1:
                    return "(EB1 BRange %s)" % a[0]
                if len(a) == 2:
                    return "(ERange3 %s %s (EInt (1)))" % (a[0], a[1])
                if len(a) == 3:
                    return "(ERange3 %s %s %s)" % tuple(a)
            if name == "divmod" and len(e.args) == 2:
                return "(EB2 BDivmod %s %s)" % (self.expr(e.args[0]), self.expr(e.args[1]))
            if name == "map" and len(e.args) == 2:
                g = e.args[0]
                if isinstance(g, ast.Name) and g.id not in self.assigned and g.id in ("str", "int"):
                    return "(EB1 %s %s)" % ("BMapStr" if g.id == "str" else "BMapInt", self.expr(e.args[1]))
                if isinstance(g, ast.Attribute) and g.attr == "index":
                    return "(EB2 BMapIndex %s %s)" % (self.expr(g.value), self.expr(e.args[1]))
            raise Refuse("call of %s/%d" % (name, len(e.args)))
        if self.floats and isinstance(f, ast.Attribute) and not e.keywords:
            if f.attr == "count" and len(e.args) == 1:
                return "(EB2 BCount %s %s)" % (self.expr(f.value), self.expr(e.args[0]))
            if f.attr == "replace" and len(e.args) == 2:
                return "(EReplace %s %s %s)" % (self.expr(f.value), self.expr(e.args[0]), self.expr(e.args[1]))
            if f.attr == "upper" and len(e.args) == 0:
                return "(EB1 BUpper %s)" % self.expr(f.value)
        if self.numpy and isinstance(f, ast.Attribute) and not e.keywords and len(e.args) == 1 and f.attr == "index":
            return "(EB2 BIndexOf %s %s)" % (self.expr(f.value), self.expr(e.args[0]))
        if isinstance(f, ast.Attribute) and not e.keywords and len(e.args) == 1:
            if f.attr == "zfill":
                return "(EB2 BZfill %s %s)" % (self.expr(f.value), self.expr(e.args[0]))
            if f.attr == "join":
                return "(EB2 BJoin %s %s)" % (self.expr(f.value), self.expr(e.args[0]))
        raise Refuse("call %s" % ast.unparse(e)[:60])

    def pure(self, e):
        """no call of another module function inside (so evaluation order of the arguments cannot matter)"""
        return not any(isinstance(n, ast.Call) and isinstance(n.func, ast.Name) and n.func.id in self.sigs for n in ast.walk(e))

    # ---------------------------------------------------------------- statements
    def target(self, t):
        if self.method and isinstance(t, ast.Attribute) and isinstance(t.value, ast.Name) and t.value.id == "self":
            return "(TVar %s)" % qs("self." + t.attr)
        if isinstance(t, ast.Name):
            if t.id in self.monitors:
                raise Refuse("monitor")
            return "(TVar %s)" % qs(t.id)
        if isinstance(t, ast.Tuple) and all(isinstance(x, ast.Name) for x in t.elts):
            return "(TTuple %s)" % coq_list([qs(x.id) for x in t.elts])
        if self.numpy and isinstance(t, ast.Tuple) and len(t.elts) == 2 and isinstance(t.elts[0], ast.Name) \
                and isinstance(t.elts[1], ast.Tuple) and all(isinstance(x, ast.Name) for x in t.elts[1].elts):
            return "(TPair %s %s)" % (qs(t.elts[0].id), coq_list([qs(x.id) for x in t.elts[1].elts]))
        if isinstance(t, ast.Subscript) and isinstance(t.value, ast.Name) and not isinstance(t.slice, ast.Slice):
            return "(TIndex %s %s)" % (qs(t.value.id), self.expr(t.slice))
        raise Refuse("assignment target %s" % ast.unparse(t)[:40])

    def block(self, stmts):
        out = [self.stmt(s) for s in stmts]
        out = [s for s in out if s is not None]
        if not out:
            return "SSkip"
        acc = out[-1]
        for s in reversed(out[:-1]):
            acc = "(SSeq %s\n %s)" % (s, acc)
        return acc

    def stmt(self, s):
        if isinstance(s, ast.Expr):
            v = s.value
            if isinstance(v, ast.Constant) and isinstance(v.value, str):
                return None                                   # docstring
            if self.method and isinstance(v, ast.Call) and isinstance(v.func, ast.Attribute) and v.func.attr == "__init__" \
                    and isinstance(v.func.value, ast.Call) and isinstance(v.func.value.func, ast.Name) \
                    and v.func.value.func.id == "super" and not v.func.value.args and not v.args \
                    and all(isinstance(k.value, ast.Constant) for k in v.keywords):
                return None          # the base class constructor with constant arguments (it stores a display name): not modelled
            if isinstance(v, ast.Call) and isinstance(v.func, ast.Name) and v.func.id in self.monitors and not v.keywords:
                return "(SExpr (ETuple %s))" % coq_list([self.expr(a) for a in v.args])
            if isinstance(v, ast.Call) and isinstance(v.func, ast.Attribute) and isinstance(v.func.value, ast.Name) \
                    and not v.keywords and v.func.value.id in self.assigned:
                x = v.func.value.id
                if v.func.attr == "append" and len(v.args) == 1:
                    return "(SAppend %s %s)" % (qs(x), self.expr(v.args[0]))
                if v.func.attr == "insert" and len(v.args) == 2:
                    return "(SInsert %s %s %s)" % (qs(x), self.expr(v.args[0]), self.expr(v.args[1]))
            raise Refuse("expression statement %s" % ast.unparse(s)[:60])
        if isinstance(s, ast.Assign):
            if len(s.targets) != 1:
                raise Refuse("chained assignment")
            if isinstance(s.targets[0], ast.Name) and s.targets[0].id in self.monitors:
                return "(SAssign (TVar %s) EOpaque)" % qs(s.targets[0].id)
            return "(SAssign %s %s)" % (self.target(s.targets[0]), self.expr(s.value))
        if isinstance(s, ast.AugAssign):
            if type(s.op) not in BINOPS or isinstance(s.target, ast.Tuple):
                raise Refuse("augmented assignment")
            return "(SAug %s %s %s)" % (self.target(s.target), BINOPS[type(s.op)], self.expr(s.value))
        if isinstance(s, ast.If):
            return "(SIf %s\n %s\n %s)" % (self.expr(s.test), self.block(s.body), self.block(s.orelse))
        if isinstance(s, ast.For):
            if s.orelse:
                raise Refuse("for/else")
            t = s.target
            return "(SFor %s %s\n %s)" % (self.target(t), self.expr(s.iter), self.block(s.body))
        if isinstance(s, ast.While):
            if s.orelse:
                raise Refuse("while/else")
            return "(SWhile %s\n %s)" % (self.expr(s.test), self.block(s.body))
        if isinstance(s, ast.Return):
            return "(SReturn %s)" % ("ENone" if s.value is None else self.expr(s.value))
        if isinstance(s, ast.Raise):
            x = s.exc
            if s.cause is None and isinstance(x, ast.Call) and isinstance(x.func, ast.Name) and x.func.id in EXNS:
                return "(SRaise %s)" % EXNS[x.func.id]           # the message is not modelled (and not evaluated)
            raise Refuse("raise")
        if isinstance(s, ast.Pass):
            return "SSkip"
        raise Refuse("statement %s" % type(s).__name__)

    # ---------------------------------------------------------------- aliasing side condition
    def check_aliasing(self):
        node = self.node
        mutated = set()

        def mutations(n):
            out = set()
            for x in ast.walk(n):
                if isinstance(x, (ast.Assign, ast.AugAssign)):
                    for t in (x.targets if isinstance(x, ast.Assign) else [x.target]):
                        if isinstance(t, ast.Subscript) and isinstance(t.value, ast.Name):
                            out.add(t.value.id)
                if isinstance(x, ast.Call) and isinstance(x.func, ast.Attribute) and isinstance(x.func.value, ast.Name) \
                        and x.func.attr in ("append", "insert", "extend", "pop", "remove", "sort", "reverse", "clear"):
                    out.add(x.func.value.id)
            return out
        mutated = mutations(node)

        def fresh(v):
            if isinstance(v, (ast.List, ast.ListComp, ast.BinOp, ast.Constant)):
                return True
            if isinstance(v, ast.Call) and isinstance(v.func, ast.Name) and v.func.id in ("list", "map", "range") \
                    and v.func.id not in self.assigned:
                return True
            if isinstance(v, ast.Call) and isinstance(v.func, ast.Name) and v.func.id in ("array", "zeros") and v.func.id in self.numpy:
                return True
            if isinstance(v, ast.Call) and isinstance(v.func, ast.Attribute) and v.func.attr == "join":
                return True
            return False
        # a display that is returned hands its elements over to the caller: nothing of this function runs afterwards
        returned = {id(n.value) for n in ast.walk(node) if isinstance(n, ast.Return) and n.value is not None}
        for n in ast.walk(node):
            if isinstance(n, ast.Assign):
                t, v = n.targets[0], n.value
                pairs = []
                if isinstance(t, ast.Name):
                    pairs = [(t.id, v)]
                elif isinstance(t, ast.Tuple):
                    if isinstance(v, ast.Tuple) and len(v.elts) == len(t.elts):
                        pairs = [(a.id, b) for a, b in zip(t.elts, v.elts) if isinstance(a, ast.Name)]
                    else:
                        pairs = [(a.id, None) for a in t.elts if isinstance(a, ast.Name)]
                for name, val in pairs:
                    if name in mutated and (val is None or not fresh(val)):
                        raise Refuse("aliasing: mutated name %s bound to a possibly shared object" % name)
                # a mutated name as a bare right-hand side or inside a display creates a second reference
                vals = [v] + (list(v.elts) if isinstance(v, (ast.Tuple, ast.List)) else [])
                for val in vals:
                    if isinstance(val, ast.Name) and val.id in mutated:
                        raise Refuse("aliasing: mutated name %s copied by reference" % val.id)
            if isinstance(n, (ast.List, ast.Tuple)) and isinstance(getattr(n, "ctx", None), ast.Load) and id(n) not in returned:
                for val in n.elts:
                    if isinstance(val, ast.Name) and val.id in mutated:
                        raise Refuse("aliasing: mutated name %s inside a display" % val.id)
            if isinstance(n, ast.Call) and isinstance(n.func, ast.Name) and n.func.id in self.sigs:
                for val in list(n.args) + [k.value for k in n.keywords]:
                    if isinstance(val, ast.Name) and val.id in mutated:
                        raise Refuse("aliasing: mutated name %s passed to %s" % (val.id, n.func.id))
            if isinstance(n, ast.Call) and isinstance(n.func, ast.Attribute) and n.func.attr in ("append", "insert"):
                for val in n.args:
                    if isinstance(val, ast.Name) and val.id in mutated:
                        raise Refuse("aliasing: mutated name %s stored in a list" % val.id)
            if isinstance(n, ast.For):
                it = n.iter
                is_range = isinstance(it, ast.Call) and isinstance(it.func, ast.Name) and it.func.id == "range"
                is_range = is_range or (isinstance(it, ast.Subscript) and isinstance(it.value, ast.Call)
                                        and isinstance(it.value.func, ast.Name) and it.value.func.id == "range")
                if not is_range:
                    body_mut = set()
                    for b in n.body:
                        body_mut |= mutations(b)
                    names = {x.id for x in ast.walk(it) if isinstance(x, ast.Name)}
                    if names & body_mut:
                        raise Refuse("for loop over a list mutated in its body")
            if isinstance(n, ast.Return) and isinstance(n.value, ast.Name) and n.value.id in self.params and n.value.id in mutated:
                pass  # returning the (re-bound) parameter hands over ownership
        # a mutated parameter is freshly re-bound, unconditionally, before its first mutation
        body = list(node.body)
        for p in self.params:
            if p not in mutated:
                continue
            rebound_at = None
            for i, st in enumerate(body):
                if isinstance(st, ast.Assign):
                    t = st.targets[0]
                    names = [t.id] if isinstance(t, ast.Name) else [a.id for a in t.elts if isinstance(a, ast.Name)] if isinstance(t, ast.Tuple) else []
                    if p in names:
                        rebound_at = i
                        break
            if rebound_at is None:
                raise Refuse("aliasing: parameter %s is mutated in place" % p)
            for st in body[:rebound_at]:
                if p in mutations(st):
                    raise Refuse("aliasing: parameter %s is mutated before it is re-bound" % p)

    def translate(self, name=None):
        self.check_aliasing()
        body = self.block(self.node.body)
        params = self.params + ["self." + a for a in self.attrs_read if a not in self.attrs_written]
        return ("Definition %s_def : fundef :=\n {| params := %s;\n    body :=\n %s |}.\n"
                % (name or self.node.name, coq_list([qs(p) for p in params]), body))


def generate(repo, out_path, funcs=None):
    funcs = funcs or FUNCS
    tree = ast.parse(open(os.path.join(repo, "dsw", "operation.py")).read())
    defs = {n.name: n for n in tree.body if isinstance(n, ast.FunctionDef)}
    sigs = {}
    for f in funcs:
        if f not in defs:
            raise Refuse("function %s not found" % f)
        a = defs[f].args
        params = [x.arg for x in a.args]
        dflt = dict(zip(params[len(params) - len(a.defaults):], a.defaults))
        for d in dflt.values():
            if not isinstance(d, ast.Constant):
                raise Refuse("non-constant default in %s" % f)
        sigs[f] = (params, dflt)
    # no function of the module may be re-bound at module level (def twice, assignment to its name, decorators are refused above)
    names = [n.name for n in tree.body if isinstance(n, (ast.FunctionDef, ast.ClassDef))]
    for n in tree.body:
        if isinstance(n, (ast.Assign, ast.AugAssign, ast.AnnAssign)):
            for x in ast.walk(n):
                if isinstance(x, ast.Name) and isinstance(x.ctx, ast.Store) and x.id in funcs:
                    raise Refuse("module-level re-binding of %s" % x.id)
    for f in funcs:
        if names.count(f) != 1:
            raise Refuse("%s defined %d times" % (f, names.count(f)))
    parts = ["(* GENERATED by harness/translate_minipy.py from %s/dsw/operation.py -- do not edit *)\n"
             "From DSW Require Import MiniPy.\nOpen Scope Z_scope.\n" % repo]
    for f in funcs:
        parts.append(Fn(defs[f], sigs).translate())
    # callers first: a function may call the ones after it
    parts.append("Definition operation_module : module :=\n %s.\n"
                 % coq_list(["(%s, %s_def)" % (qs(f), f) for f in reversed(funcs)]))
    open(out_path, "w").write("\n".join(parts))
    return funcs


CODER_FUNCS = ["set_vt", "encode", "decode"]


def generate_coder(repo, out_path):
    """dsw/spiderweb.py: set_vt, encode, decode as MiniPy terms (NumPy arrays are VArr values, the few numpy functions used
    are builtins of MiniPy.v); the functions of dsw/operation.py they call are resolved in OperationGen.operation_module."""
    tree = ast.parse(open(os.path.join(repo, "dsw", "spiderweb.py")).read())
    op_tree = ast.parse(open(os.path.join(repo, "dsw", "operation.py")).read())
    defs = {n.name: n for n in tree.body if isinstance(n, ast.FunctionDef)}
    names = [n.name for n in tree.body if isinstance(n, (ast.FunctionDef, ast.ClassDef))]
    numpy_names, op_names = set(), set()
    for n in tree.body:
        if isinstance(n, ast.ImportFrom):
            for a in n.names:
                if a.asname is not None:
                    raise Refuse("import ... as")
                if n.module == "numpy":
                    numpy_names.add(a.name)
                elif n.module == "dsw.operation":
                    op_names.add(a.name)
        elif isinstance(n, ast.Import):
            raise Refuse("plain import at module level")
        elif isinstance(n, (ast.Assign, ast.AugAssign, ast.AnnAssign)):
            raise Refuse("module-level assignment")
    for f in CODER_FUNCS:
        if names.count(f) != 1:
            raise Refuse("%s defined %d times" % (f, names.count(f)))
    # names a function could silently pick up from elsewhere: a module function shadowing an operation / numpy name
    for f in names:
        if f in numpy_names or f in op_names:
            raise Refuse("%s shadows an imported name" % f)
    sigs = {}
    op_defs = {n.name: n for n in op_tree.body if isinstance(n, ast.FunctionDef)}
    for f in list(CODER_FUNCS) + [x for x in FUNCS if x in op_names]:
        d = defs[f] if f in defs else op_defs.get(f)
        if d is None:
            raise Refuse("function %s not found" % f)
        a = d.args
        params = [x.arg for x in a.args]
        dflt = dict(zip(params[len(params) - len(a.defaults):], a.defaults))
        for v in dflt.values():
            if not isinstance(v, ast.Constant):
                raise Refuse("non-constant default in %s" % f)
        sigs[f] = (params, dflt)
    used_numpy = {"where", "argsort", "sum", "array", "zeros"} & numpy_names
    parts = ["(* GENERATED by harness/translate_minipy.py from %s/dsw/spiderweb.py -- do not edit *)\n"
             "From DSW Require Import MiniPy.\nFrom DSWGen Require Import OperationGen.\nOpen Scope Z_scope.\n" % repo]
    for f in CODER_FUNCS:
        fn = Fn(defs[f], sigs, numpy=used_numpy)
        # a call of a numpy function that was not imported from numpy would be a free name: refused by expr()
        parts.append(fn.translate())
    parts.append("Definition coder_module : module :=\n (%s ++ operation_module).\n"
                 % coq_list(["(%s, %s_def)" % (qs(f), f) for f in reversed(CODER_FUNCS)]))
    open(out_path, "w").write("\n".join(parts))
    return CODER_FUNCS


BIOFILTER_FUNCS = ["LocalBioFilter.__init__", "LocalBioFilter.valid"]


def generate_biofilter(repo, out_path):
    """dsw/biofilter.py, class LocalBioFilter: the constructor and valid() as MiniPyF terms.  A method's parameters are its own
    (without self) followed by the attributes it reads, in order of first occurrence; `self.x = e` is an assignment to the
    variable "self.x"."""
    tree = ast.parse(open(os.path.join(repo, "dsw", "biofilter.py")).read())
    classes = [n for n in tree.body if isinstance(n, ast.ClassDef) and n.name == "LocalBioFilter"]
    if len(classes) != 1:
        raise Refuse("class LocalBioFilter not found exactly once")
    cls = classes[0]
    if cls.decorator_list or cls.keywords or len(cls.bases) != 1 or not isinstance(cls.bases[0], ast.Name) \
            or cls.bases[0].id != "DefaultBioFilter":
        raise Refuse("class header")
    # the base class must not define anything valid() could pick up instead (no __getattr__ tricks, no properties)
    for n in tree.body:
        if isinstance(n, ast.ClassDef) and n.name == "DefaultBioFilter":
            for x in n.body:
                if isinstance(x, ast.FunctionDef) and x.name not in ("__init__", "valid", "__str__"):
                    raise Refuse("DefaultBioFilter defines %s" % x.name)
    methods = {}
    for x in cls.body:
        if isinstance(x, ast.FunctionDef):
            if x.name in methods:
                raise Refuse("%s defined twice" % x.name)
            methods[x.name] = x
        elif not (isinstance(x, ast.Expr) and isinstance(x.value, ast.Constant)):
            raise Refuse("class-level statement %s" % type(x).__name__)
    for x in methods:
        if x not in ("__init__", "valid", "__str__"):
            raise Refuse("unexpected method %s" % x)
    parts = ["(* GENERATED by harness/translate_minipy.py from %s/dsw/biofilter.py -- do not edit *)\n"
             "From DSW Require Import MiniPyF.\nOpen Scope Z_scope.\n" % repo]
    for m, nm in (("__init__", "filter_init"), ("valid", "filter_valid")):
        if m not in methods:
            raise Refuse("method %s not found" % m)
        for d in methods[m].args.defaults:
            if not isinstance(d, ast.Constant):
                raise Refuse("non-constant default")
        parts.append(Fn(methods[m], {}, method=True, floats=True).translate(nm))
    open(out_path, "w").write("\n".join(parts))
    return BIOFILTER_FUNCS


if __name__ == "__main__":
    import sys
    if sys.argv[1:2] == ["biofilter"]:
        generate_biofilter(sys.argv[2], sys.argv[3])
        sys.exit(0)
    if sys.argv[1:2] == ["coder"]:
        generate_coder(sys.argv[2], sys.argv[3])
        sys.exit(0)
    generate(sys.argv[1] if len(sys.argv) > 1 else "/repo", sys.argv[2] if len(sys.argv) > 2 else "/dev/stdout")
