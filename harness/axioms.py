"""names Print Assumptions may list for the theorems that reason about binary64 (C12 threshold step, C17): Coq's primitive float
and 63-bit integer declarations (kernel primitives, listed under "Axioms:" by Print Assumptions) and axioms that the STANDARD
LIBRARY itself declares: the specification of the primitive floats (Floats.FloatAxioms), of Uint63 (Numbers.Cyclic.Int63.Uint63),
and the axioms of Reals / classical logic / functional extensionality that Flocq's proofs use.  None is declared by /verif."""
FLOAT_ALLOWED = [
    "float", "int", "add", "sub", "mul", "div", "abs", "opp", "ltb", "leb", "eqb", "of_uint63", "normfr_mantissa", "ldshiftexp",
    "frshiftexp", "add_spec", "sub_spec", "mul_spec", "div_spec", "abs_spec", "opp_spec", "ltb_spec", "leb_spec", "eqb_spec",
    "of_uint63_spec", "normfr_mantissa_spec", "frshiftexp_spec", "ldshiftexp_spec", "SF2Prim_Prim2SF", "Prim2SF_valid",
    "Prim2SF_SF2Prim", "ClassicalDedekindReals.sig_not_dec", "ClassicalDedekindReals.sig_forall_dec",
    "FunctionalExtensionality.functional_extensionality_dep", "Classical_Prop.classic",
]
# the kernel's primitive declarations only (no specification axiom): what a theorem lists as soon as it MENTIONS an interpreter whose
# value type has a float constructor, even when no float is ever computed
FLOAT_PRIMITIVES = ["float", "int", "add", "sub", "mul", "div", "abs", "opp", "ltb", "leb", "eqb", "of_uint63", "normfr_mantissa",
                    "ldshiftexp", "frshiftexp"]
FLOAT_PATTERNS = [r"PrimInt63\.[A-Za-z0-9_]+", r"PrimFloat\.[A-Za-z0-9_]+", r"Uint63\.[A-Za-z0-9_]+"]


def parse_print_assumptions(out):
    """names listed by every `Print Assumptions` answer in coqc's output: an entry is a name at the start of a line (its type may
    continue on indented lines); a block ends at an empty line, at the next answer or at the end of the output"""
    import re
    listed = []
    lines = out.split("\n")
    for li, line in enumerate(lines):
        if line.strip() != "Axioms:":
            continue
        for nxt in lines[li + 1:]:
            if not nxt.strip() or nxt.startswith(("Closed under", "Axioms:", "File ", "Warning")):
                break
            if nxt[0] in " \t":
                continue
            m = re.match(r"^([A-Za-z_][A-Za-z0-9_.']*)", nxt)
            listed.append(m.group(1) if m else "?")
    return listed


def unexpected(listed, allowed, patterns):
    """the listed names that are neither allowed by name (with or without their module prefix) nor by pattern"""
    import re
    pats = [re.compile(x) for x in patterns]
    allowed = set(allowed)
    bad = []
    for a in listed:
        if a in allowed or any(x.fullmatch(a) for x in pats):
            continue
        mod, _, base = a.rpartition(".")
        if base in allowed and mod.split(".")[-1] in ("FloatAxioms", "Uint63", "Uint63Axioms", "PrimFloat", "PrimInt63", "FloatOps"):
            continue
        bad.append(a)
    return sorted(set(bad))
