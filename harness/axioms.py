"""names Print Assumptions may list for the theorems that reason about binary64 (C12 threshold step, C17): Coq's primitive float
and 63-bit integer declarations (kernel primitives, listed under "Axioms:" by Print Assumptions) and axioms that the STANDARD
LIBRARY itself declares: the specification of the primitive floats (Floats.FloatAxioms), of Uint63 (Numbers.Cyclic.Int63.Uint63),
and the axioms of Reals / classical logic / functional extensionality that Flocq's proofs use.  None is declared by /verif."""
FLOAT_ALLOWED = [
    "float", "int", "add", "sub", "mul", "div", "abs", "opp", "ltb", "leb", "eqb", "of_uint63", "normfr_mantissa", "ldshiftexp",
    "frshiftexp", "add_spec", "sub_spec", "mul_spec", "div_spec", "abs_spec", "opp_spec", "ltb_spec", "leb_spec", "eqb_spec",
    "of_uint63_spec", "normfr_mantissa_spec", "frshiftexp_spec", "ldshiftexp_spec", "SF2Prim_Prim2SF", "Prim2SF_valid",
    "Prim2SF_SF2Prim", "ClassicalDedekindReals.sig_not_dec", "ClassicalDedekindReals.sig_forall_dec",
    "FunctionalExtensionality.functional_extensionality_dep", "Classical_Prop.classic",
]
FLOAT_PATTERNS = [r"PrimInt63\.[A-Za-z0-9_]+", r"PrimFloat\.[A-Za-z0-9_]+", r"Uint63\.[A-Za-z0-9_]+"]
