"""C06 -- decoding accepts exactly the strands that are walks of the graph."""
import numpy as np

import dsw
import gen
from core import Case, enc_call, guard, s2c
from props.c07 import formula

ID = "C06"
PROOF_FILE = "Properties/C06.v"
THEOREMS = ["C06_normal", "C06_fast", "C06_check_outcomes"]
CONE = ["Proofs/WalkProofs.v", "Proofs/ShuffleProofs.v", "Proofs/VTProofs.v", "Proofs/ConvertProofs.v",
        "Proofs/BignumProofs.v", "Coder.v", "Convert.v", "Bignum.v", "GraphSpec.v", "CoderSpec.v", "Spec.v", "Py.v"]
MODEL_FUNCTIONS = ["decode", "set_vt", "number_to_bit", "calculus_multiplication", "calculus_addition"]
RULE = ("graphs: generated coding graphs (t = 1..4), arbitrary arc subsets and the complete graph of order 1..3 (thorough 4), any "
        "start vertex (dead ones included); strings: walks, walks with 1..3 random edits anywhere, uniformly random ACGT "
        "strings, strings with foreign characters (N, lower case, non-ASCII), the empty string; check: absent / right / wrong (lengths 1..70 incl. 31..34 around the 64-bit boundary of 4^(n-1)) "
        "/ wrong length; tables: none / random permutations / malformed rows; both modes; requested lengths around the "
        "carried bits.  Fast-mode cases outside the stated domain (out-degree 3 present, or walkable prefix carrying more "
        "than L bits) are agreement-only.  non-trivial = non-empty string; distinct by payload")
TRUSTED_BASE = [
    "Coq 8.16.1 kernel (coqc); vm_compute only in the non-vacuity example; no native_compute",
    "Print Assumptions of every C06 theorem: Closed under the global context",
    "extraction (ExtrOcamlBasic only) + coq/extract/driver.ml + OCaml 4.13.1",
    "correspondence harness harness/core.py, harness/props/c06.py, harness/gen.py",
    "modelled, not verified: numpy where/argsort (stable for <= 4 keys)/fancy indexing/negative row wrap, str.index, list.index",
]
ASSUMPTIONS = ["accessor rows have four entries, entries are -1 or valid row indices, start vertex is a row index",
               "fast mode: no vertex of out-degree 3, walkable prefix carries at most L bits"]
EXHAUSTIVE = {}
NUC = "ACGT"


def edit(rng, s):
    if not s:
        return rng.choice(NUC)
    i = rng.randrange(len(s) + 1)
    kind = rng.choice("SID")
    if kind == "S" and i < len(s):
        return s[:i] + rng.choice(NUC) + s[i + 1:]
    if kind == "D" and i < len(s):
        return s[:i] + s[i + 1:]
    return s[:i] + rng.choice(NUC) + s[i:]


def carried(rows, v, s):
    tot = 0
    n = len(rows)
    for c in s:
        if c not in NUC or not (0 <= v < n):
            break
        j = NUC.index(c)
        if rows[v][j] < 0:
            break
        d = sum(1 for x in rows[v] if x >= 0)
        tot += 2 if d == 4 else 1 if d == 2 else 0
        v = rows[v][j]
    return tot


def payloads(rng, tier):
    n = {"quick": 2500, "thorough": 40000, "search": 2500}[tier]
    kmax = {"quick": 3, "thorough": 4, "search": 3}[tier]
    for _ in range(n):
        k = rng.randint(1, kmax)
        g = rng.choice(["coding", "coding", "subset", "complete", "wf"])
        if g == "coding":
            rows = gen.coding_graph(rng, k)[2]
        elif g == "subset":
            rows = gen.arc_subset(rng, k)
        elif g == "wf":
            rows = gen.wellformed_subset(rng, k)
        else:
            rows = gen.complete(k)
        live = gen.live_vertices(rows)
        v0 = rng.choice(live) if live and rng.random() < 0.9 else rng.randrange(len(rows))
        w = gen.random_walk(rng, rows, v0, rng.choice([0, 1, 2, 5, 9, rng.randint(0, 30)]))
        sk = rng.choice(["walk", "walk", "walk", "edit1", "edit2", "edit3", "random", "foreign", "empty"])
        if sk == "walk":
            s = w
        elif sk.startswith("edit"):
            s = w
            for _ in range(int(sk[-1])):
                s = edit(rng, s)
        elif sk == "random":
            s = "".join(rng.choice(NUC) for _ in range(rng.randint(1, 12)))
        elif sk == "foreign":
            i = rng.randint(0, len(w))
            s = w[:i] + rng.choice(["N", "a", "t", "-", "é", " "]) + w[i:]
        else:
            s = ""
        faster = rng.random() < 0.4
        vk = rng.choice(["none", "none", "right", "right", "wrong", "wronglen", "ofwalk"])
        tk = rng.choice(["none", "none", "perm", "perm", "malformed"])
        table = None if tk == "none" else gen.random_table(rng, len(rows), malformed=(tk == "malformed"))
        cb = carried(rows, v0, s)
        L = max(0, rng.choice([cb, cb, cb + 1, cb + 3, 2 * len(s) + 1, 64, cb - 1]))
        yield "decode", {"rows": rows, "v0": v0, "s": s, "L": L, "faster": faster, "vt": vk, "table": table,
                         "w": w, "tags": [g, sk, vk, tk], "reuse": rng.random() < 0.5,
                         "vtn": rng.choice([None, None, 1, 2, 8, 16, 31, 32, 33, 34, 40, 64, 70])}
    for item in long_payloads(rng, tier):
        yield item


def long_payloads(rng, tier):
    """LONG strands (an implementation may switch to another code path beyond some length) on graphs with individually removed
    arcs: a genuine walk, and the same strand with ONE step replaced, at an early position, by a nucleotide whose arc is missing
    while the vertex it would lead to is alive -- followed by a genuine walk from there, so that nothing later gives the error away"""
    for _ in range({"quick": 12, "thorough": 120, "search": 8}[tier]):
        k = rng.randint(1, 3)
        n4 = 4 ** k
        rows = [list(r) for r in gen.arc_subset(rng, k, keep=rng.choice([0.7, 0.8, 0.9]))]
        for r in rows:          # fast mode (the only mode that is quick enough on strands this long) knows out-degrees 1, 2 and 4
            alive = [j for j in range(4) if r[j] >= 0]
            if len(alive) == 3:
                r[rng.choice(alive)] = -1
        live = gen.live_vertices(rows)
        if not live:
            continue
        v0 = rng.choice(live)
        total = rng.choice([16384, 20000, 33000])
        pos = rng.choice([0, 1, k - 1, k, k + 1, k + 2, 2 * k + 1, 100])
        head = gen.random_walk(rng, rows, v0, pos)
        if len(head) != pos:
            continue
        u = v0
        for c in head:
            u = rows[u][NUC.index(c)]
        dead = [j for j in range(4) if rows[u][j] < 0 and any(x >= 0 for x in rows[(4 * u + j) % n4])]
        if not dead:
            continue
        j = rng.choice(dead)
        tail = gen.random_walk(rng, rows, (4 * u + j) % n4, total - pos - 1)
        good = gen.random_walk(rng, rows, v0, total)
        faster = True
        for s in (head + NUC[j] + tail, good):
            cb = carried(rows, v0, s)
            yield "decode", {"rows": rows, "v0": v0, "s": s, "L": max(cb, 1) + rng.choice([0, 0, 3]), "faster": faster, "vt": "none",
                             "table": None, "w": good, "tags": ["subset", "long", "none", "none"], "reuse": False, "vtn": None}


def build(stream, p):
    rows, v0, s, L, faster, table, w = p["rows"], p["v0"], p["s"], p["L"], p["faster"], p["table"], p["w"]
    ascii_ok = all(c in NUC for c in s)
    vt = None
    n = len(s)
    if p["vt"] != "none":
        base = s if ascii_ok else w
        if p["vt"] == "right":
            vt = formula(base, p.get("vtn") or (1 + len(base) % 5))
        elif p["vt"] == "ofwalk":
            vt = formula(w, 3)
        elif p["vt"] == "wrong":
            good = formula(base, p.get("vtn") or 4)
            vt = good[:-1] + NUC[(NUC.index(good[-1]) + 1) % 4]
        else:
            vt = formula(base, p.get("vtn") or 3) + "A"
    call = enc_call(21, s2c(s), L, gen.enc_acc(rows), v0, int(faster), gen.enc_opt_str(vt), gen.enc_table(table))
    if len(s) > 6000:
        call = None          # the extracted model is too slow on strands this long: they are judged by the oracle only
    tab = None if table is None else np.array(table, dtype=int)

    def run():
        arr = gen.acc_array(rows, reuse=p.get("reuse", False))
        return gen.api("decode", dna_sequence=gen.typed_str(s), bit_length=L, accessor=arr, start_index=v0, is_faster=faster, vt_check=gen.typed_str(vt),
                          shuffles=tab)
    impl = lambda: guard(run, lambda r: [[int(x) for x in r]])
    has3 = any(sum(1 for x in r if x >= 0) == 3 for r in rows)
    cb = carried(rows, v0, s)
    domain = (not faster or (not has3 and cb <= L))

    def oracle(ans, raw):
        if not domain:
            return None
        walk = gen.is_walk(rows, v0, s)
        chk = True
        if vt is not None:
            chk = ascii_ok and formula(s, len(vt)) == vt
        if walk and chk:
            if isinstance(raw, BaseException):
                return "a walk with a matching check was rejected: %r" % (raw,)
            if len(raw) != L:
                return "returned %d bits, %d requested" % (len(raw), L)
            return None
        if not isinstance(raw, ValueError):
            return "not a walk / check mismatch, expected ValueError, got %r" % (raw if isinstance(raw, BaseException) else list(raw),)
        return None
    # rows that are not permutations: NumPy's argsort is not stable (SIMD sort), so the decoded VALUE depends on an
    # unspecified tie order; C06's observable (array of length L / exception type) does not, and only that is compared
    canon = None
    if table is not None and any(sorted(r) != [0, 1, 2, 3] for r in table):
        canon = lambda a: [[0], [len(a[1])]] if a and a[0] == [0] and len(a) > 1 else a
    return Case(stream, p, call, impl, oracle, domain=domain, nontrivial=len(s) > 0, canon=canon,
                tags=p["tags"] + ["fast=%d" % faster, "walk=%d" % gen.is_walk(rows, v0, s)])


def shrink(stream, p):
    s = p["s"]
    for cand in (s[:-1], s[1:] if False else s[: len(s) // 2]):
        if len(cand) < len(s):
            yield dict(p, s=cand)
