"""C04 -- encoding is total, dead-end free and tight on generated graphs."""
import numpy as np

import dsw
import gen
import coder_common as cc
from core import Case, enc_call, guard, s2c, Budget

ID = "C04"
PROOF_FILE = "Properties/C04.v"
THEOREMS = ["C04_generated_is_wellformed", "C04_total", "C04_total_wf", "C04_tight", "C04_zero_message", "C04_length_t2",
            "C04_length_complete", "C04_fast", "C04_deg1_runs_bounded"]
CONE = ["Proofs/GeneratedProofs.v", "Proofs/ComposeProofs.v", "Proofs/TerminationProofs.v", "Proofs/CoderProofs.v",
        "Proofs/GenerateProofs.v", "Proofs/GraphProofs.v", "Proofs/KmerProofs.v", "Proofs/ShuffleProofs.v", "Coder.v",
        "Graph.v", "CoderSpec.v", "FastSpec.v", "GraphSpec.v", "Spec.v", "Py.v"]
MODEL_FUNCTIONS = ["connect_coding_graph", "encode"]
RULE = ("graphs returned by the implementation's own connect_coding_graph for random masks, LocalBioFilter masks and structured threshold-1 masks (funnels of equal-length sibling chains, trees off a closed core, de Bruijn chains) of order "
        "1..4, thresholds 1..4; every kind of retained start vertex; messages of length 0..64 (thorough ..512); tables none / "
        "permutation; both modes.  Observables: the strand, the number of accessor row reads (counted through an ndarray "
        "proxy; must equal 2 x strand length and stay within 2 x L x |V|), the walk property, the tightness inequalities.  A "
        "malformed stream of graphs with an information-free cycle or a dead end checks that the implementation exhausts its "
        "read budget exactly when the model exhausts its fuel.  non-trivial = message with a 1 bit; distinct by payload")
TRUSTED_BASE = [
    "Coq 8.16.1 kernel (coqc); no native_compute",
    "Print Assumptions of every C04 theorem: Closed under the global context",
    "extraction (ExtrOcamlBasic only) + coq/extract/driver.ml + OCaml 4.13.1",
    "correspondence harness harness/core.py, harness/props/c04.py, harness/gen.py (row-read counting ndarray proxy)",
    "modelled, not verified: numpy where/argsort/fancy indexing; the number of row reads per step (2) is observed, not proved",
]
ASSUMPTIONS = ["masks have one 0/1 entry per vertex, k >= 1", "table rows are permutations of 0..3"]
EXHAUSTIVE = {}
NUC = "ACGT"


def payloads(rng, tier):
    n = {"quick": 1200, "thorough": 20000, "search": 1200}[tier]
    kmax = {"quick": 3, "thorough": 4, "search": 3}[tier]
    mlen = {"quick": 64, "thorough": 512, "search": 32}[tier]
    for _ in range(n):
        k = rng.randint(1, kmax)
        yield "generated", {"k": k, "mask": gen.random_mask(rng, k), "t": rng.choice([1, 1, 1, 2, 2, 3, 4]),
                            "vsel": rng.random(), "bits": gen.message(rng, mlen), "fast": rng.random() < 0.3,
                            "table_seed": rng.choice([None, rng.randrange(1 << 30)])}
    # structured masks whose threshold-1 trimming cascades are deep and wide: sibling chains merging into a doomed funnel, trees
    # hanging off a closed core, de Bruijn chains
    for i in range({"quick": 500, "thorough": 6000, "search": 400}[tier]):
        k = rng.choice([3, 3, 4] if kmax >= 4 else [2, 3, 3])
        mask = gen.funnel_mask(rng, k) if i % 4 else (gen.core_with_tails(rng, k) if i % 8 else gen.chain_mask(rng, k))
        yield "generated", {"k": k, "mask": mask, "t": 1, "vsel": rng.random(), "bits": gen.message(rng, 24),
                            "fast": rng.random() < 0.3, "table_seed": None}
    # a call preceded by the encoding of a RELATED message on the same graph: same length and same CRC-32 (what a memo keyed by a
    # lossy checksum of the message cannot tell apart), or same length and a different top half
    for i in range({"quick": 80, "thorough": 800, "search": 60}[tier]):
        k = rng.randint(1, kmax)
        L = rng.choice([40, 64, 96, 128, 200])
        bits = [1] + [rng.randint(0, 1) for _ in range(L - 1)] if i % 2 else [0] * (L // 2) + [rng.randint(0, 1) for _ in range(L - L // 2)]
        prev = gen.checksum_twin(rng, bits) if i % 3 else [1 - b for b in bits[:L // 2]] + bits[L // 2:]
        yield "generated", {"k": k, "mask": gen.random_mask(rng, k), "t": rng.choice([1, 2, 3, 4]), "vsel": rng.random(), "bits": bits,
                            "fast": False, "table_seed": None, "prev": prev}
    for _ in range(n // 10):
        k = rng.randint(1, 2)
        rows = gen.arc_subset(rng, k, keep=rng.choice([0.2, 0.4, 0.6]))
        live = gen.live_vertices(rows)
        if live:
            yield "malformed", {"k": k, "rows": rows, "v0": rng.choice(live), "bits": gen.message(rng, 12), "fast": False}


def build(stream, p):
    import random
    bits, fast = p["bits"], p["fast"]
    L = len(bits)
    if stream == "malformed":
        rows, v0 = p["rows"], p["v0"]
        fuel = L * len(rows) + len(rows) + 1
        call = enc_call(20, bits, gen.enc_acc(rows), v0, 0, 0, [], fuel)

        def run():
            a = gen.counting(rows, 2 * fuel)
            return dsw.encode(np.array(bits, dtype=int), a, v0)
        return Case(stream, p, call, lambda: guard(run, lambda r: [s2c(r), []]), None, domain=False, nontrivial=False,
                    tags=["malformed"])
    k, mask, t = p["k"], p["mask"], p["t"]
    try:
        v, acc = dsw.connect_coding_graph(observed_length=k, vertices=np.array(mask, dtype=int), threshold=t)
        rows = acc.tolist()
        retained = [int(x) for x in v] if t == 1 else [int(i) for i in np.where(np.asarray(v) != 0)[0]]
    except ValueError:
        return Case(stream, p, None, lambda: ([[0]], None), None, domain=False, nontrivial=False, tags=["no-graph"])
    except Exception as e:  # noqa
        return Case(stream, p, None, lambda: ([[1, 6]], e), lambda a, r: "connect_coding_graph raised %r" % (e,), tags=["gen-error"])
    v0 = retained[int(p["vsel"] * len(retained)) % len(retained)]
    table = None
    if p["table_seed"] is not None:
        table = gen.random_table(random.Random(p["table_seed"]), len(rows))
    tab = None if table is None else np.array(table, dtype=int)
    fuel = L * len(rows) + len(rows) + 1
    call = enc_call(20, bits, gen.enc_acc(rows), v0, int(fast), 0, gen.enc_table(table), fuel)
    domain = not (fast and cc.has_deg3(rows))
    reads = {}

    def run():
        if p.get("prev"):
            try:          # the related message first (same graph, same options): it must leave nothing behind
                dsw.encode(np.array(p["prev"], dtype=int), np.array(rows, dtype=int), v0, is_faster=fast, shuffles=tab)
            except Exception:  # noqa
                pass
        a = gen.counting(rows, 2 * fuel)
        s = dsw.encode(np.array(bits, dtype=int), a, v0, is_faster=fast, shuffles=tab)
        reads["n"] = gen.CountingAccessor.reads
        return s
    impl = lambda: guard(run, lambda r: [s2c(r), []])

    def oracle(ans, raw):
        if not domain:
            return None
        if isinstance(raw, Budget):
            return "encoding did not finish within %d accessor row reads" % (2 * fuel)
        if isinstance(raw, BaseException):
            return "raised %r" % (raw,)
        s = raw
        n = len(rows)
        for u in range(n):
            for w in rows[u]:
                if w >= 0 and not any(x >= 0 for x in rows[w]):
                    return "the generated graph has a dead end: arc %d -> %d into a vertex without arcs" % (u, w)
        if not gen.is_walk(rows, v0, s):
            return "strand %r is not a walk of the generated graph" % (s,)
        if reads.get("n") != 2 * len(s):
            return "%r accessor row reads for a strand of %d nucleotides" % (reads.get("n"), len(s))
        if len(s) > L * n:
            return "strand longer than message length x vertex count"
        val = int("".join(map(str, bits)) or "0", 2)
        degs, u = [], v0
        for c in s:
            degs.append(sum(1 for x in rows[u] if x >= 0))
            u = rows[u][NUC.index(c)]
        if not fast:
            if val == 0 and s != "":
                return "zero message gave a non-empty strand"
            if val > 0:
                if not s or degs[-1] < 2:
                    return "last nucleotide is not an information-carrying one"
                prod = 1
                for d in degs[:-1]:
                    prod *= d
                if prod > val:
                    return "product of out-degrees before the last step %d exceeds the message value %d" % (prod, val)
            if t >= 2 and len(s) > L:
                return "threshold-%d graph: %d nucleotides for %d bits" % (t, len(s), L)
            if t == 4 and 2 * len(s) > L + 1:
                return "complete graph: %d nucleotides for %d bits" % (len(s), L)
        else:
            carried = sum(2 if d == 4 else 1 if d == 2 else 0 for d in degs)
            if carried not in (L, L + 1):
                return "fast mode carried %d bits for a %d-bit message" % (carried, L)
        return None
    return Case(stream, p, call, impl, oracle, domain=domain, nontrivial=any(bits),
                tags=["k=%d" % k, "t=%d" % t, "fast=%d" % fast, "table=%d" % (table is not None)])


def shrink(stream, p):
    b = p["bits"]
    for cand in (b[: len(b) // 2], b[1:], b[:-1]):
        if len(cand) < len(b):
            yield dict(p, bits=cand)
