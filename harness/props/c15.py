"""C15 -- string big-number arithmetic equals integer arithmetic."""
from core import Case, enc_call, digits, guard

import dsw

ID = "C15"
PROOF_FILE = "Properties/C15.v"
THEOREMS = ["C15_add", "C15_mul", "C15_div", "C15_div0_documented", "C15_sub", "C15_canonical_unique"]
CONE = ["Proofs/BignumProofs.v", "Bignum.v", "Spec.v", "Py.v"]
MODEL_FUNCTIONS = ["calculus_addition", "calculus_subtraction", "calculus_multiplication", "calculus_division"]
RULE = ("decimal strings of length 1..1400 (quick: ..300) from shaped families (99..9, 10..0, 10..01, 0, single digits, "
        "random, long zero runs, random with a borrow chain) x operand digit 0..9 x the four helpers; non-trivial = "
        "operand string longer than one digit or a carry/borrow crossing at least one position; distinct by (function, "
        "number, operand).  Malformed stream (leading zeros, empty string) is compared for agreement only.")
TRUSTED_BASE = [
    "Coq 8.16.1 kernel (coqc); vm_compute only in non-vacuity examples; no native_compute",
    "Print Assumptions of every C15 theorem: Closed under the global context",
    "extraction (ExtrOcamlBasic only, Z/positive kept inductive) + coq/extract/driver.ml + OCaml 4.13.1",
    "correspondence harness harness/core.py, harness/props/c15.py (generators, canonicalisation: decimal string <-> digit list)",
    "modelled, not verified: CPython str/int/list primitives used by dsw/operation.py (int(), str(), zfill, join, slicing)",
]
ASSUMPTIONS = ["operands are single decimal digits (what every caller in dsw passes)",
               "the theorem covers canonical decimal strings; behaviour on malformed strings is only compared, not claimed"]
EXHAUSTIVE = {}

FN = {"add": (1, dsw.calculus_addition), "sub": (2, dsw.calculus_subtraction),
      "mul": (3, dsw.calculus_multiplication), "div": (4, dsw.calculus_division)}


def shaped(rng, maxlen):
    kind = rng.choice(["nines", "pow10", "pow10p1", "zero", "digit", "random", "random", "random", "zrun", "borrow",
                       "small", "small", "runs", "runs", "blocks", "blocks"])
    n = rng.choice([1, 2, 3, 5, 8, 17, 40, rng.randint(1, maxlen), rng.randint(1, maxlen)])
    if kind == "runs":
        # concatenated runs of one digit (mostly 0 and 9): long carry / borrow chains crossing every alignment
        out = str(rng.randint(1, 9))
        while len(out) < n:
            out += rng.choice("0099" + "0123456789") * rng.randint(1, 12)
        return out
    if kind == "blocks":
        # blocks of a fixed width (every width 1..12), each all-zero, all-nine or random: block-boundary effects
        wdt = rng.randint(1, 12)
        out = ""
        while len(out) < n:
            c = rng.choice(["0", "0", "9", "r", "r", "5", "half", "half", "pow"])
            if c == "r":
                blk = "".join(rng.choice("0123456789") for _ in range(wdt))
            elif c == "half":
                # 10^w / b for the operands that divide a power of ten: the block times the operand is exactly 10^w
                lead = rng.choice(["5", "25", "2", "125", "1"])[:wdt]
                blk = lead + "0" * (wdt - len(lead))
            elif c == "pow":
                blk = rng.choice(["0" * (wdt - 1) + "1", "9" * (wdt - 1) + "8", "4" + "9" * (wdt - 1), "3" * wdt])
            else:
                blk = c * wdt
            out = blk + out
        out = out.lstrip("0")
        return (str(rng.randint(1, 9)) + out) if rng.random() < 0.7 or not out else out
    if kind == "nines":
        return "9" * n
    if kind == "pow10":
        return "1" + "0" * n
    if kind == "pow10p1":
        return "1" + "0" * n + str(rng.randint(1, 9))
    if kind == "zero":
        return "0"
    if kind == "digit":
        return str(rng.randint(0, 9))
    if kind == "small":
        return str(rng.randint(0, 200))
    if kind == "zrun":
        return str(rng.randint(1, 9)) + "".join(rng.choice("0009") for _ in range(n)) + str(rng.randint(0, 9))
    if kind == "borrow":
        return str(rng.randint(1, 9)) + "".join(rng.choice("0123456789") for _ in range(rng.randint(0, 6))) + \
            "0" * n + str(rng.randint(0, 9))
    return str(rng.randint(1, 9)) + "".join(rng.choice("0123456789") for _ in range(n - 1))


def payloads(rng, tier):
    n = {"quick": 2400, "thorough": 40000, "search": 3000}[tier]
    maxlen = {"quick": 300, "thorough": 1400, "search": 120}[tier]
    # fixed corner cases first
    for num in ["0", "1", "9", "10", "19", "99", "100", "109", "999", "1000", "10000000000000000000000000000000001"]:
        for b in range(10):
            for f in FN:
                yield "canonical", {"f": f, "n": num, "b": b}
    for _ in range(n):
        yield "canonical", {"f": rng.choice(list(FN)), "n": shaped(rng, maxlen), "b": rng.randint(0, 9)}
    for _ in range(n // 20):
        num = rng.choice(["", "0", "00", "007", "0" * rng.randint(1, 5) + shaped(rng, 20)])
        yield "malformed", {"f": rng.choice(["add", "mul", "div"]), "n": num, "b": rng.randint(0, 9)}


def build(stream, p):
    fid, fn = FN[p["f"]]
    num, b = p["n"], p["b"]
    canonical = num != "" and (num == "0" or num[0] != "0") and num.isdigit()
    domain = stream == "canonical" and canonical and not (p["f"] == "sub" and int(num) < b)

    def enc(r):
        if p["f"] == "div":
            return [digits(r[0]), [int(r[1])]]
        return [digits(r)]

    def impl():
        return guard(lambda: fn(number=num, base=str(b)), enc)

    def oracle(ans, raw):
        if not domain:
            return None
        if isinstance(raw, BaseException):
            return "raised %r" % (raw,)
        v = int(num)
        if p["f"] == "add":
            want = str(v + b)
        elif p["f"] == "sub":
            want = str(v - b)
        elif p["f"] == "mul":
            want = str(v * b)
        else:
            want = ("0", "0") if b == 0 else (str(v // b), str(v % b))
        if raw != want:
            return "returned %r, exact result is %r" % (raw if len(str(raw)) < 200 else str(raw)[:200] + "...", want if len(str(want)) < 200 else "...")
        return None

    tags = ["fn=" + p["f"], "operand=%d" % b, "len<=%d" % (10 ** len(str(max(len(num), 1))))]
    nontrivial = len(num) > 1
    call = enc_call(fid, digits(num), b) if num.isdigit() or num == "" else None
    return Case(stream, p, call, impl, oracle, domain=domain, nontrivial=nontrivial, tags=tags)


def shrink(stream, p):
    n = p["n"]
    for cand in [n[:len(n) // 2], n[len(n) // 2:], n[1:], n[:-1]]:
        if cand and (cand == "0" or cand[0] != "0"):
            yield dict(p, n=cand)
