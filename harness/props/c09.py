"""C09 -- repair leaves clean strands alone and only returns check-consistent candidates."""
import dsw
import gen
import repair_common as rc
from core import Case, Budget
from props.c07 import formula

ID = "C09"
PROOF_FILE = "Properties/C09.v"
THEOREMS = ["C09_clean", "C09_check_okb", "C09_output_shape", "C09_order"]
CONE = ["Proofs/RepairProofs.v", "Proofs/WalkProofs.v", "Proofs/VTProofs.v", "Repair.v", "Coder.v", "RepairSpec.v",
        "GraphSpec.v", "CoderSpec.v", "Spec.v", "Py.v"]
MODEL_FUNCTIONS = ["repair_dna", "path_matching", "set_vt"]
RULE = ("LARGE graphs of order 8 and 9 (thorough also 10; random masks trimmed to minimum out-degree 2; vertex ids beyond every 16-bit range; clean and singly edited walks, oracle only) and generated graphs and arc subsets of order 1..3 (thorough 4), live start vertices; strands: clean walks of length "
        "k..12k, walks with 1..4 edits, random strings; check absent / right / wrong / of another strand; indel handling on/off; "
        "heap limits 0.5, 1, 10, 1e3, 1e9.  Oracle: a clean walk comes back alone (or not at all when the check disagrees) "
        "with zero detected errors; every returned list is strictly increasing and every candidate reproduces the supplied "
        "check (recomputed with the independent formula).  non-trivial = strand of length > k; distinct by payload")
TRUSTED_BASE = [
    "Coq 8.16.1 kernel (coqc); no native_compute",
    "Print Assumptions of every C09 theorem: Closed under the global context",
    "extraction (ExtrOcamlBasic only) + coq/extract/driver.ml + OCaml 4.13.1",
    "correspondence harness harness/core.py, harness/props/c09.py, harness/repair_common.py, harness/gen.py",
    "modelled, not verified: Python set/sorted on str (code-point lexicographic order), itertools.product, slice clamping",
]
ASSUMPTIONS = ["accessor rows have four in-range entries, start vertex is a row index"]
EXHAUSTIVE = {}
NUC = "ACGT"


def payloads(rng, tier):
    for x in big_payloads(rng, tier):
        yield x
    n = {"quick": 1500, "thorough": 25000, "search": 1500}[tier]
    kmax = {"quick": 3, "thorough": 4, "search": 2}[tier]
    for _ in range(n):
        if rng.random() < 0.7:
            k, t, rows = rc.generated_graph(rng, kmax)
        else:
            k = rng.randint(1, kmax)
            rows = gen.arc_subset(rng, k, keep=rng.choice([0.4, 0.6, 0.8, 0.95]))
        live = gen.live_vertices(rows)
        if not live:
            continue
        v0 = rng.choice(live)
        w = gen.random_walk(rng, rows, v0, rng.randint(k, 12 * k))
        if len(w) < k:
            continue
        kind = rng.choice(["clean", "clean", "edited", "edited", "random"])
        s = w
        if kind == "edited":
            for _ in range(rng.randint(1, 4)):
                i = rng.randrange(len(s))
                e = rng.choice("SID")
                if e == "S":
                    s = s[:i] + rng.choice(NUC) + s[i + 1:]
                elif e == "D" and len(s) > k:
                    s = s[:i] + s[i + 1:]
                else:
                    s = s[:i] + rng.choice(NUC) + s[i:]
        elif kind == "random":
            s = "".join(rng.choice(NUC) for _ in range(len(w)))
        yield "repair", {"k": k, "rows": rows, "v0": v0, "s": s, "w": w, "vt": rng.choice(["none", "right", "wrong", "ofw"]),
                         "indel": rng.random() < 0.6,
                         "heap": rng.choice([0.5, 1, 10, 1e3, 1e3, 1e9] if kind == "clean" else [0.5, 1, 10, 1e3, 1e3, 5e3]),
                         "kind": kind}


def big_payloads(rng, tier):
    """clean and singly edited walks on large graphs: vertex ids far beyond 16-bit (order 9: 262144 rows) and around it (order 8)"""
    for k, cnt in {"quick": [(9, 10), (8, 6)], "thorough": [(9, 40), (8, 20), (10, 6)], "search": [(9, 8)]}[tier]:
        seed = rng.randrange(1 << 16)
        rows = gen.big_graph(k, seed)
        live = [v for v in (rng.randrange(4 ** k) for _ in range(4000)) if any(x >= 0 for x in rows[v])]
        big_ids = [v for v in live if v >= 32768] or live
        for i in range(cnt):
            if not live:
                break
            v0 = rng.choice(big_ids if i % 2 == 0 else live)
            w = gen.random_walk(rng, rows, v0, rng.choice([3 * k, 6 * k, 60]))
            if len(w) < k:
                continue
            s, kind = w, "clean"
            if i % 4 == 3:
                j = rng.randrange(k, len(w))
                s, kind = w[:j] + rng.choice([c for c in NUC if c != w[j]]) + w[j + 1:], "edited"
            yield "repair", {"k": k, "big": seed, "v0": v0, "s": s, "w": w, "vt": rng.choice(["none", "none", "right", "wrong"]),
                             "indel": i % 2 == 1, "heap": 1e3, "kind": kind}


def build(stream, p):
    rows = gen.big_graph(p["k"], p["big"]) if "big" in p else p["rows"]       # large graphs are rebuilt from their seed
    k, v0, s, w = p["k"], p["v0"], p["s"], p["w"]
    vt = None
    # check lengths (chosen by the strand): short, and beyond 32 / 33 symbols where 4^(n-1) passes 2^63 and 2^64; a wrong check
    # differs from the right one in ONE symbol, at the end, at the start (the flag) or just behind the flag
    import zlib
    hv = zlib.crc32(s.encode("utf-8", "surrogatepass"))
    if p["vt"] == "right":
        vt = formula(s, [4, 4, 33, 40][hv % 4])
    elif p["vt"] == "ofw":
        vt = formula(w, [5, 5, 34, 70][hv % 4])
    elif p["vt"] == "wrong":
        good = formula(s, [3, 3, 34, 35, 48, 70][hv % 6])
        pos = [len(good) - 1, 0, 1, min(2, len(good) - 1), len(good) // 2][(hv // 7) % 5]
        vt = good[:pos] + NUC[(NUC.index(good[pos]) + 1 + (hv // 35) % 3) % 4] + good[pos + 1:]
    # graphs of order >= 8 are judged by the oracle only (a million-entry accessor per protocol line is not worth it)
    call, impl = rc.repair_case_parts(rows, v0, k, s, vt, p["indel"], p["heap"], rc.read_budget(len(s), k), no_call="big" in p)

    def oracle(ans, raw):
        if isinstance(raw, BaseException):
            return None      # non-returning calls are C10's observable
        cands, st = raw
        if list(cands) != sorted(set(cands)):
            return "candidate list %r is not sorted and duplicate-free" % (cands,)
        if vt is not None:
            for c in cands:
                if formula(c, len(vt)) != vt:
                    return "candidate %r does not reproduce the supplied check %r" % (c, vt)
        if gen.is_walk(rows, v0, s):
            want = [s] if (vt is None or formula(s, len(vt)) == vt) else []
            if list(cands) != want or st[0] != 0:
                return "clean walk: returned %r with %d detected errors, expected %r and 0" % (cands, st[0], want)
        return None
    return Case(stream, p, call, impl, oracle, domain=True, nontrivial=len(s) > k,
                tags=[p["kind"], "k=%d" % k] + (["large-graph"] if "big" in p else []) + [ "vt=" + p["vt"], "indel=%d" % p["indel"], "heap=%g" % p["heap"]])
