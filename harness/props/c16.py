"""C16 -- bit, number and DNA conversions are exact inverses at any length."""
import numpy as np

import gen

import dsw
from core import Case, enc_call, digits, guard, s2c, c2s

ID = "C16"
PROOF_FILE = "Properties/C16.v"
THEOREMS = ["C16_bits_roundtrip_str", "C16_bits_roundtrip_int", "C16_dna_roundtrip_str", "C16_dna_roundtrip_int",
            "C16_bit_paths_agree", "C16_bit_value", "C16_dna_paths_agree", "C16_number_to_bit_paths_agree",
            "C16_number_to_dna_paths_agree", "C16_render_bits", "C16_render_bits_str", "C16_render_dna",
            "C16_dna_foreign"]
CONE = ["Proofs/ConvertProofs.v", "Proofs/BignumProofs.v", "Convert.v", "Bignum.v", "Spec.v", "Py.v"]
MODEL_FUNCTIONS = ["bit_to_number", "number_to_bit", "dna_to_number", "number_to_dna"]
RULE = ("every list a conversion returns is overwritten in place and the call repeated with equal arguments (the caller owns the result); bit arrays of length 0..4096 (quick ..600) and DNA strings of length 0..2048 (quick ..300) from shaped families "
        "(empty, all-zero / all-A, leading zeros, powers of two, random), each pushed through both code paths "
        "(is_string True / False) and back at the original width; numbers at and just below the capacity of the width; "
        "too-wide numbers and foreign characters as an agreement-only stream.  non-trivial = length >= 2 and not "
        "all-zero; distinct by (stream, input)")
TRUSTED_BASE = [
    "Coq 8.16.1 kernel (coqc); vm_compute only in the non-vacuity example; no native_compute",
    "Print Assumptions of every C16 theorem: Closed under the global context",
    "extraction (ExtrOcamlBasic only) + coq/extract/driver.ml + OCaml 4.13.1",
    "correspondence harness harness/core.py, harness/props/c16.py, harness/gen.py",
    "modelled, not verified: CPython int/str/list primitives, divmod, list.insert, str.join",
]
ASSUMPTIONS = ["bits are 0/1 integers, DNA strings are over A,C,G,T for the round-trip theorems"]
EXHAUSTIVE = {}
NUC = "ACGT"


def bits_of(rng, maxlen):
    from gen import message
    return message(rng, maxlen)


def dna_of(rng, maxlen):
    kind = rng.choice(["random", "random", "allA", "leadA", "empty", "short"])
    n = rng.choice([0, 1, 2, 3, 7, 16, rng.randint(0, maxlen), rng.randint(0, maxlen)])
    if kind == "empty":
        return ""
    if kind == "allA":
        return "A" * n
    if kind == "short":
        return "".join(rng.choice(NUC) for _ in range(rng.randint(0, 5)))
    if kind == "leadA":
        z = rng.randint(0, n)
        return "A" * z + "".join(rng.choice(NUC) for _ in range(n - z))
    return "".join(rng.choice(NUC) for _ in range(n))


def payloads(rng, tier):
    n = {"quick": 500, "thorough": 6000, "search": 600}[tier]
    mb = {"quick": 600, "thorough": 1200, "search": 200}[tier]
    md = {"quick": 300, "thorough": 600, "search": 100}[tier]
    if tier == "thorough":      # a few inputs at the documented extreme lengths (the string arithmetic is quadratic)
        for _ in range(40):
            yield "bits", {"bits": bits_of(rng, 4096)}
            yield "dna", {"dna": dna_of(rng, 2048)}
    for b in [[], [0], [1], [0, 0], [1, 0], [0, 1, 0, 1, 0, 1, 0, 1], [1] * 64, [0] * 9 + [1]]:
        yield "bits", {"bits": b}
    for s in ["", "A", "T", "AA", "ACGT", "AAAC", "T" * 33]:
        yield "dna", {"dna": s}
    # values next to m * 10^e (long runs of nines or of zeros in the decimal numeral: carries that ripple through whole limbs),
    # as bit sequences and as strands; some with a tail appended so that the special value is only a PREFIX value
    for e in range({"quick": 14, "thorough": 9, "search": 30}[tier], {"quick": 60, "thorough": 130, "search": 40}[tier], 1 if tier != "quick" else 2):
        for m in (1, 3, 15):
            for d in (-1, 1, -7):
                v = m * 10 ** e + d
                bits = [int(c) for c in bin(v)[2:]] + [rng.randint(0, 1) for _ in range(rng.choice([0, 0, 2]))]
                yield "bits", {"bits": bits}
                q, dna = v, ""
                while q:
                    dna = "ACGT"[q % 4] + dna
                    q //= 4
                yield "dna", {"dna": dna + "".join(rng.choice("ACGT") for _ in range(rng.choice([0, 0, 4])))}
    for _ in range(n):
        yield "bits", {"bits": bits_of(rng, mb)}
        yield "dna", {"dna": dna_of(rng, md)}
    for _ in range(n // 2):
        L = rng.choice([0, 1, 2, 8, 63, 64, 65, rng.randint(0, 300)])
        top = 2 ** L
        v = rng.choice([0, top - 1, max(0, top - 2), top // 2, rng.randrange(top)])
        yield "render_bits", {"n": v, "L": L}
        L = rng.choice([0, 1, 2, 5, 31, 32, 33, rng.randint(0, 150)])
        top = 4 ** L
        v = rng.choice([0, top - 1, max(0, top - 2), top // 4, rng.randrange(top)])
        yield "render_dna", {"n": v, "L": L}
    # values that are round in decimal (d * 10^j +- small): block / carry boundaries of the decimal-string arithmetic
    for _ in range(n // 2):
        v = rng.choice([1, 2, 3, 5, 6, 7, 25, 125, 999, rng.randint(1, 99)]) * 10 ** rng.randint(0, 40) + rng.choice([0, 0, 1, 3, -1])
        v = max(v, 0)
        yield "bits", {"bits": [int(c) for c in bin(v)[2:]] if v else [0]}
        x, d = v, ""
        while x:
            d = NUC[x % 4] + d
            x //= 4
        yield "dna", {"dna": d or "A"}
    for _ in range(n // 10):
        L = rng.randint(0, 20)
        yield "toowide_bits", {"n": 2 ** L + rng.randrange(2 ** (L + 3)), "L": L}
        yield "toowide_dna", {"n": 4 ** L + rng.randrange(4 ** (L + 1)), "L": L}
        s = dna_of(rng, 20)
        i = rng.randint(0, len(s))
        yield "foreign", {"dna": s[:i] + rng.choice(["N", "a", "c", "g", "t", "U", "-", "x", "é", "Ω"]) + s[i:]}


def twice(f, *a, **k):
    """the caller owns what a conversion returned: overwrite a returned list in place, then ask again with equal arguments"""
    r = f(*a, **k)
    if isinstance(r, list):
        r[:] = [7] * (len(r) + 1)
        return f(*a, **k)
    return r


def strict(run):
    """run with CPython's int <-> str digit limit at its minimum (640 digits): the library converts digit by digit and never
    needs int(str) / str(int) of a long number, so its answers must not depend on that interpreter setting (with the default
    limit of 4300 digits a dependence would only show beyond 14 285 bits / 7 143 nucleotides)"""
    import sys

    def inner():
        old = sys.get_int_max_str_digits() if hasattr(sys, "get_int_max_str_digits") else None
        if old is not None:
            sys.set_int_max_str_digits(640)
        try:
            return run()
        finally:
            if old is not None:
                sys.set_int_max_str_digits(old)
    return inner



def build(stream, p):
    if stream == "bits":
        bits = p["bits"]
        # composite observable: str value, int value, and both round trips
        def run():
            # a bit sequence is a list of ints or (what encode passes) a NumPy integer array
            arg = bits if len(bits) % 3 == 0 else np.array(bits, dtype=[int, np.int64, np.uint8, np.int8][len(bits) % 4])
            ds = gen.api("bit_to_number", bit_array=arg, is_string=True)
            di = dsw.bit_to_number(arg, is_string=False)
            return ds, di, twice(dsw.number_to_bit, ds, len(bits)), twice(dsw.number_to_bit, di, len(bits))
        call = None
        calls = [enc_call(5, bits), enc_call(6, bits)]

        def oracle(ans, raw):
            if isinstance(raw, BaseException):
                return "raised %r" % (raw,)
            ds, di, back_s, back_i = raw
            v = int("".join(map(str, bits)) or "0", 2)
            if ds != str(v) or di != v:
                return "bit_to_number gave %r / %r, value is %d" % (ds, di, v)
            if list(back_s) != list(bits) or list(back_i) != list(bits):
                return "round trip returned %r / %r" % (back_s, back_i)
            return None
        impl = lambda: guard(strict(run), lambda r: [digits(r[0]), [r[1]], [int(x) for x in r[2]], [int(x) for x in r[3]]], seconds=1800)
        # model side: one composite call is not available; compare the two forward calls via a combined case
        return MultiCase(stream, p, calls + ["RT"], impl, oracle, bits)
    if stream == "dna":
        s = p["dna"]

        def run():
            ds = dsw.dna_to_number(s, is_string=True)
            di = dsw.dna_to_number(s, is_string=False)
            return ds, di, dsw.number_to_dna(ds, len(s)), dsw.number_to_dna(di, len(s))

        def oracle(ans, raw):
            if isinstance(raw, BaseException):
                return "raised %r" % (raw,)
            ds, di, back_s, back_i = raw
            v = 0
            for c in s:
                v = 4 * v + NUC.index(c)
            if ds != str(v) or di != v:
                return "dna_to_number gave %r / %r, value is %d" % (ds, di, v)
            if back_s != s or back_i != s:
                return "round trip returned %r / %r" % (back_s, back_i)
            return None
        impl = lambda: guard(strict(run), lambda r: [digits(r[0]), [r[1]], s2c(r[2]), s2c(r[3])], seconds=1800)
        return MultiCaseDna(stream, p, impl, oracle, s)
    n, L = p.get("n"), p.get("L")
    if stream in ("render_bits", "toowide_bits"):
        as_str = (n % 2 == 0)
        call = enc_call(7, digits(str(n)), L) if as_str else enc_call(8, n, L)
        impl = lambda: guard(lambda: twice(dsw.number_to_bit, str(n) if as_str else n, L), lambda r: [[int(x) for x in r]])

        def oracle(ans, raw):
            if stream != "render_bits":
                return None
            if isinstance(raw, BaseException):
                return "raised %r" % (raw,)
            want = [int(c) for c in bin(n)[2:].zfill(L)] if L > 0 else []
            if n == 0:
                want = [0] * L
            if list(raw) != want:
                return "rendering %r differs from the zero-padded binary expansion" % (list(raw)[:40],)
            return None
        return Case(stream, p, call, impl, oracle, domain=stream == "render_bits", nontrivial=L >= 2, tags=["L<=%d" % (10 ** len(str(L)))])
    if stream in ("render_dna", "toowide_dna"):
        as_str = (n % 2 == 0)
        call = enc_call(11, digits(str(n)), L) if as_str else enc_call(12, n, L)
        impl = lambda: guard(lambda: gen.api("number_to_dna", decimal_number=str(n) if as_str else n, dna_length=L), lambda r: [s2c(r)])

        def oracle(ans, raw):
            if stream != "render_dna":
                return None
            if isinstance(raw, BaseException):
                return "raised %r" % (raw,)
            x, out = n, ""
            for _ in range(L):
                out = NUC[x % 4] + out
                x //= 4
            if raw != out:
                return "rendering %r differs from the A-padded base-4 expansion %r" % (raw[:40], out[:40])
            return None
        return Case(stream, p, call, impl, oracle, domain=stream == "render_dna", nontrivial=L >= 2, tags=["L<=%d" % (10 ** len(str(L)))])
    # foreign characters: both paths raise ValueError
    s = p["dna"]
    as_str = len(s) % 2 == 0
    call = enc_call(9 if as_str else 10, s2c(s))
    impl = lambda: guard(lambda: gen.api("dna_to_number", dna_sequence=s, is_string=as_str), lambda r: [digits(r)] if as_str else [[r]])

    def oracle(ans, raw):
        if not isinstance(raw, ValueError):
            return "foreign character not reported as ValueError: %r" % (raw,)
        return None
    return Case(stream, p, call, impl, oracle, domain=True, nontrivial=True, tags=["foreign"])


def MultiCase(stream, p, calls, impl, oracle, bits):
    """bits: forward str + forward int + both backward, as one composite protocol call (fn 16)"""
    call = enc_call(16, bits)
    nz = len(bits) >= 2 and any(bits)
    return Case(stream, p, call, impl, oracle, domain=True, nontrivial=nz, tags=["len<=%d" % (10 ** len(str(max(len(bits), 1))))])


def MultiCaseDna(stream, p, impl, oracle, s):
    call = enc_call(17, s2c(s))
    nz = len(s) >= 2 and any(c != "A" for c in s)
    return Case(stream, p, call, impl, oracle, domain=True, nontrivial=nz, tags=["len<=%d" % (10 ** len(str(max(len(s), 1))))])


def shrink(stream, p):
    if stream == "bits":
        b = p["bits"]
        for cand in (b[: len(b) // 2], b[len(b) // 2:], b[1:], b[:-1]):
            if len(cand) < len(b):
                yield {"bits": cand}
    if stream == "dna":
        s = p["dna"]
        for cand in (s[: len(s) // 2], s[len(s) // 2:], s[1:], s[:-1]):
            if len(cand) < len(s):
                yield {"dna": cand}
