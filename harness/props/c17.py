"""C17 -- reported capacity is the log2 spectral radius of the graph.
The binary64 model (coq/Capacity.v) is evaluated inside coqc with vm_compute on a generated cases file; the
Collatz-Wielandt certificates are checked by the kernel in the same file."""
import math
import os
import re
import subprocess
import tempfile
from fractions import Fraction

import numpy as np

import dsw
import gen
from core import Case, guard, COQ, VERIF

ID = "C17"
PROOF_FILE = "Properties/C17.v"
THEOREMS = ["C17_arcless", "C17_regular", "C17_le_four", "C17_upper_certificate", "C17_lower_certificate", "C17_terminates",
            "C17_result_counts"]
CONE = ["Proofs/CapacityProofs.v", "Proofs/CapacityFloatProofs.v", "Proofs/CapacityTermProofs.v", "Capacity.v", "CapacitySpec.v", "Graph.v", "GraphSpec.v", "Py.v"]
MODEL_FUNCTIONS = ["approximate_capacity"]
from axioms import FLOAT_ALLOWED as ALLOWED_AXIOMS, FLOAT_PATTERNS as ALLOWED_AXIOM_PATTERNS  # noqa
RULE = ("arc subsets, generated coding graphs, d-regular graphs (d = 1..4), graphs whose live vertices have exactly d live successors plus arcs into one to three dead vertices (often exactly the first or last vertex) and arc-less graphs of order 1..3 (thorough 4); "
        "repeats 1 (deterministic start) and 2..6 (NumPy RNG seeded, the same initial vectors are handed to the model); "
        "tolerance levels -10 / -6 / -3; maximum_iteration 500 or small (2, 5, 20: median fallback); process=True so that "
        "every per-iteration value is compared bit-for-bit with the model (Coq primitive floats, log2 applied by NumPy on "
        "both sides).  Oracle: result <= 2; arc-less -> 0.0; regular -> exactly log2 d; for graphs meeting the structural "
        "precondition (one aperiodic strongly connected cyclic component, second eigenvalue modulus <= 0.9 of the first) the "
        "result must lie within 1e-4 of a kernel-checked Collatz-Wielandt bracket of width < 1e-6.  non-trivial = graph with "
        "a branching vertex; distinct by payload")
TRUSTED_BASE = [
    "Coq 8.16.1 kernel (coqc); vm_compute evaluates the binary64 model and the integer certificates; no native_compute",
    "Print Assumptions: C17_arcless, C17_regular, C17_upper_certificate, C17_lower_certificate closed under the global context "
    "(primitive float operations are kernel primitives); C17_le_four depends on the standard library's FloatAxioms "
    "(Prim2SF/SF2Prim specification of the primitive operations) and on the axioms of Reals used by Flocq, as listed in "
    "the evidence under print_assumptions",
    "IEEE-754 behaviour of binary64 + * / < in Coq's primitive floats and in NumPy (same hardware operations), compared bit-for-bit",
    "numpy.log2 and numpy.median of the final results are applied on the Python side to the model's eigenvalue estimates",
    "numpy.random (Mersenne Twister) is not modelled: the initial vectors are recorded by re-seeding and handed to the model",
    "correspondence harness harness/core.py, harness/props/c17.py (cases-file generator, certificate search with numpy.linalg, "
    "which is untrusted: certificates are re-checked exactly by the kernel and by Fractions)",
    "NOT proved: the convergence clause (random-start power iteration within 1e-4 of log2 rho on every graph with a 0.9 "
    "spectral gap); it is decided per sampled graph against certified brackets",
]
ASSUMPTIONS = ["rows have four entries, entries -1 or row indices", "initial vectors have entries in [0, 1]"]
EXHAUSTIVE = {}


def regular_graph(rng, k, d):
    letters = rng.sample(range(4), d)
    n = 4 ** k
    def ok(v):
        return all(((v // 4 ** i) % 4) in letters for i in range(k))
    return [[w if (ok(v) and ok(w)) else -1 for w in gen.latters(v, k)] if ok(v) else [-1] * 4 for v in range(n)]


def regular_with_dead(rng, k, d):
    """every live vertex keeps exactly d arcs to live vertices plus some arcs into a SMALL set of dead vertices (often exactly one:
    the first or the last vertex), which have no arcs themselves"""
    n = 4 ** k
    size = rng.choice([1, 1, 1, 2, 3])
    dead = set(rng.choice([0, 0, n - 1, rng.randrange(n)]) for _ in range(size))
    while True:
        more = {v for v in range(n) if v not in dead and sum(1 for w in gen.latters(v, k) if w not in dead) < d}
        if not more:
            break
        dead |= more
    rows = []
    for v in range(n):
        if v in dead:
            rows.append([-1] * 4)
            continue
        succ = gen.latters(v, k)
        keep = set(rng.sample([j for j in range(4) if succ[j] not in dead], d))
        rows.append([succ[j] if (j in keep or (succ[j] in dead and rng.random() < 0.6)) else -1 for j in range(4)])
    return rows


F12_ROWS = [[-1, -1, -1, 3], [-1, -1, -1, -1], [-1, -1, -1, -1], [-1, 13, -1, 15], [-1, -1, 2, -1], [-1, -1, -1, -1], [-1, -1, -1, -1],
            [-1, -1, -1, 15], [0, -1, -1, 3], [-1, -1, -1, -1], [-1, -1, -1, -1], [-1, -1, -1, -1], [-1, 1, 2, -1], [4, -1, -1, 7],
            [8, -1, -1, -1], [-1, -1, 14, -1]]


def payloads(rng, tier):
    n = {"quick": 140, "thorough": 2500, "search": 80}[tier]
    kmax = {"quick": 3, "thorough": 4, "search": 2}[tier]
    # the recorded finding F9 (deterministic single start stops when its first two estimates coincide), on every run
    yield "capacity", {"rows": gen.induced(2, [0, 1, 1, 1, 1, 1, 0, 0, 1, 0, 0, 0, 0, 0, 0, 0]), "repeats": 1, "seed": 1,
                       "tol": -10, "maxit": 500, "kind": "coding"}
    # the recorded finding F12 (random start: the largest entry sits in a chain of single-successor vertices outside the cyclic part,
    # the estimate is exactly 1.0 twice in a row and the tolerance test stops the repeat), on every run
    yield "capacity", {"rows": F12_ROWS, "repeats": 3, "seed": 1472, "tol": -10, "maxit": 500, "kind": "subset"}
    yield "capacity", {"rows": [[-1] * 4] * 4, "repeats": 1, "seed": 1, "tol": -10, "maxit": 500, "kind": "arcless"}
    # every order-1 and order-2 graph that appends only the nucleotides of a fixed sub-alphabet (d-regular on its live vertices:
    # the single start must report exactly log2 d, the random start log2 d within 1e-4)
    for k in (1, 2):
        for bits in range(1, 16):
            cols = [j for j in range(4) if bits >> j & 1]
            rows = [[(4 * v + j) % 4 ** k if j in cols else -1 for j in range(4)] for v in range(4 ** k)]
            yield "capacity", {"rows": rows, "repeats": 1 if (bits + k) % 2 else 2, "seed": bits, "tol": -10, "maxit": 500,
                               "kind": "subalphabet"}
    yield "capacity", {"rows": [[-1] * 4] * 16, "repeats": 3, "seed": 1, "tol": -10, "maxit": 500, "kind": "arcless"}
    for _ in range(n):
        k = rng.randint(1, kmax)
        kind = rng.choice(["subset", "subset", "sparse", "subalphabet", "coding", "coding", "regular", "complete", "fullrows", "induced", "regdead", "regdead"])
        if kind == "subset":
            rows = gen.arc_subset(rng, k, keep=rng.choice([0.3, 0.5, 0.7, 0.9]))
        elif kind == "subalphabet":
            # only some nucleotides are ever appended (whole columns of the accessor are empty); often every live vertex keeps
            # all the allowed arcs, which makes the graph regular
            cols = rng.sample(range(4), rng.randint(1, 3))
            keep = rng.choice([1.0, 1.0, 0.8, 0.5])
            n4 = 4 ** k
            rows = [[(4 * v + j) % n4 if j in cols and rng.random() < keep else -1 for j in range(4)] for v in range(n4)]
        elif kind == "sparse":
            # few arcs: a small cyclic part with chains of single-successor vertices leading into / out of it
            k = max(k, 2)
            rows = gen.arc_subset(rng, k, keep=rng.choice([0.2, 0.3, 0.4]))
        elif kind == "coding":
            rows = gen.coding_graph(rng, k)[2]
        elif kind == "fullrows":
            # every row that has an arc has all four, but many arcs lead to rows without arcs
            d = rng.randint(1, 3)
            reg = regular_graph(rng, k, d)
            rows = [gen.latters(v, k) if any(x >= 0 for x in reg[v]) else [-1] * 4 for v in range(4 ** k)]
        elif kind == "induced":
            rows = gen.induced(k, gen.random_mask(rng, k, rng.choice([0.3, 0.5, 0.7])))
        elif kind == "regular":
            rows = regular_graph(rng, k, rng.randint(1, 4))
        elif kind == "regdead":
            rows = regular_with_dead(rng, k, rng.randint(1, 3))
        else:
            rows = gen.complete(k)
        yield "capacity", {"rows": rows, "repeats": 1 if kind == "regdead" and rng.random() < 0.8 else
                           (rng.choice([2, 3, 3, 6]) if kind == "sparse" else rng.choice([1, 1, 2, 2, 3, 6])),
                           "seed": rng.randrange(1 << 30),
                           "tol": rng.choice([-10, -10, -10, -6, -3]), "maxit": rng.choice([500, 500, 500, 2, 5, 20]),
                           "kind": kind}


def fhex(x):
    return float(x).hex()


def structure(rows):
    """(meets precondition?, scc vertex list, rho estimate) using numpy (untrusted: only selects the domain)"""
    n = len(rows)
    a = np.zeros((n, n))
    for v, r in enumerate(rows):
        for w in r:
            if w >= 0:
                a[v][w] = 1
    # strongly connected components (Tarjan, iterative via reachability on small graphs)
    reach = a.copy() + np.eye(n)
    for _ in range(int(math.ceil(math.log2(max(2, n)))) + 1):
        reach = np.minimum(1, reach @ reach)
    comps, seen = [], set()
    for v in range(n):
        if v in seen:
            continue
        c = [u for u in range(n) if reach[v][u] and reach[u][v]]
        seen.update(c)
        if len(c) > 1 or a[v][v]:
            comps.append(c)
    if len(comps) != 1:
        return False, None, None
    s = comps[0]
    sub = a[np.ix_(s, s)]
    ev = np.linalg.eigvals(sub)
    mod = sorted(np.abs(ev), reverse=True)
    rho = mod[0]
    if len(mod) > 1 and mod[1] > 0.9 * rho + 1e-12:
        return False, s, rho
    full = sorted(np.abs(np.linalg.eigvals(a)), reverse=True)
    if len(full) > 1 and full[1] > 0.9 * full[0] + 1e-12:
        return False, s, rho
    return True, s, rho


def certificate(rows):
    """integer Collatz-Wielandt certificates (upper on the whole graph, lower on the cyclic component)"""
    ok, s, rho = structure(rows)
    if not ok:
        return None
    n = len(rows)
    a = np.zeros((n, n))
    for v, r in enumerate(rows):
        for w in r:
            if w >= 0:
                a[v][w] = 1
    big_r = rho * (1 + 1e-7)
    xu = np.linalg.solve(np.eye(n) - a / big_r, np.ones(n))
    if not np.all(xu > 0):
        return None
    scale = 2 ** 40 / xu.min()
    xu_int = [int(math.ceil(x * scale)) for x in xu]
    ratios = [Fraction(sum(xu_int[w] for w in rows[v] if w >= 0), xu_int[v]) for v in range(n)]
    up = max(ratios).limit_denominator(2 ** 60)
    while any(r > up for r in ratios):
        up = up * Fraction(2 ** 40 + 1, 2 ** 40)
    sub = a[np.ix_(s, s)]
    w, vecs = np.linalg.eig(sub)
    i = int(np.argmax(np.abs(w)))
    xs = np.abs(np.real(vecs[:, i]))
    if not np.all(xs > 0):
        return None
    xl_int = [0] * n
    for idx, v in enumerate(s):
        xl_int[v] = int(round(xs[idx] / xs.min() * 2 ** 40))
    sset = set(s)
    lr = [Fraction(sum(xl_int[w] for w in rows[v] if w >= 0 and w in sset), xl_int[v]) for v in s]
    lo = min(lr).limit_denominator(2 ** 60)
    while any(r < lo for r in lr):
        lo = lo * Fraction(2 ** 40 - 1, 2 ** 40)
    if lo <= 0 or math.log2(up / lo) > 1e-6:
        return None
    return {"S": s, "xu": xu_int, "pu": up.numerator, "qu": up.denominator, "xl": xl_int, "pl": lo.numerator,
            "ql": lo.denominator, "lo": float(math.log2(lo)), "hi": float(math.log2(up))}


def build(stream, p):
    rows, repeats, seed, tolv, maxit = p["rows"], p["repeats"], p["seed"], p["tol"], p["maxit"]
    n = len(rows)
    arr = gen.acc_array(rows)
    np.random.seed(seed)
    starts = [[1.0] * n] if repeats == 1 else [np.abs(np.random.random(size=(n,))).tolist() for _ in range(repeats)]
    cert = certificate(rows) if p["kind"] != "arcless" else None
    call = {"rows": rows, "tol": fhex(10 ** tolv), "maxit": maxit, "starts": [[fhex(x) for x in s] for s in starts], "cert": cert}

    def run():
        np.random.seed(seed)
        return gen.api("approximate_capacity", accessor=arr, tolerance_level=tolv, repeats=repeats, maximum_iteration=maxit, process=True)

    def enc(r):
        cap, rec = r
        recs = [rec] if repeats == 1 else rec
        return [fhex(cap), [[fhex(x) for x in one] for one in recs], [1, 1] if cert else []]
    impl = lambda: guard(run, enc, seconds=120)

    def oracle(ans, raw):
        if isinstance(raw, BaseException):
            return "raised %r" % (raw,)
        cap = float(raw[0])
        if cap != cap:
            return "capacity is nan (process record: %r)" % (raw[1],)
        if cap > 2.0:
            return "capacity %r exceeds 2 bits per nucleotide" % cap
        if all(x == -1 for r in rows for x in r):
            return None if cap == 0.0 else "arc-less graph: capacity %r" % cap
        live = [v for v in range(n) if any(x >= 0 for x in rows[v])]
        degs = set(sum(1 for w in rows[v] if w >= 0 and w in set(live)) for v in live)
        if repeats == 1 and len(degs) == 1 and min(degs) >= 1:
            d = min(degs)
            if cap != math.log2(d):
                return "every live vertex has exactly %d live successors but the single-start capacity is %r" % (d, cap)
        if cert is not None and tolv == -10 and maxit == 500:
            if not (cert["lo"] - 1e-4 - 1e-9 <= cap <= cert["hi"] + 1e-4 + 1e-9):
                rec0 = raw[1] if repeats == 1 else raw[1][0]
                # the deterministic run ended through the tolerance test (not the iteration cap): the stopping rule fired on
                # two (nearly) coinciding consecutive estimates before the vector had converged
                early = repeats == 1 and 2 <= len(rec0) <= maxit
                # a random start whose repeat ended through the tolerance test (fewer recorded estimates than the iteration cap
                # allows, so its last two estimates coincide to within the tolerance) on an estimate that is itself outside the
                # bracket: the estimate stagnated before the vector had converged
                stalled = 0
                if repeats > 1:
                    for one in raw[1]:
                        one = [float(x) for x in one]
                        if 2 <= len(one) <= maxit \
                                and not (cert["lo"] - 1e-4 - 1e-9 <= one[-1] <= cert["hi"] + 1e-4 + 1e-9):
                            stalled += 1
                return ("capacity %r is not within 1e-4 of the certified log2 spectral radius bracket [%r, %r] (repeats=%d%s%s)"
                        % (cap, cert["lo"], cert["hi"], repeats,
                           "; single start stopped by the tolerance test after %d estimates" % len(rec0) if early else "",
                           "; random start: %d of %d repeats stopped by the tolerance test on coinciding consecutive estimates outside the bracket"
                           % (stalled, repeats) if stalled else ""))
        return None
    branching = any(sum(1 for x in r if x >= 0) >= 2 for r in rows)
    return Case(stream, p, call, impl, oracle, domain=True, nontrivial=branching,
                tags=[p["kind"], "repeats=%d" % repeats, "maxit=%d" % maxit, "tol=%d" % tolv, "cert=%d" % (cert is not None)])


def known_match(finding, stream, payload, why):
    if finding["id"] == "F12":
        return (payload["repeats"] >= 2 and "certified log2 spectral radius bracket" in why
                and "repeats stopped by the tolerance test on coinciding consecutive estimates outside the bracket" in why)
    return (finding["id"] == "F9" and payload["repeats"] == 1 and "certified log2 spectral radius bracket" in why
            and "single start stopped by the tolerance test" in why)


# ---------------------------------------------------------------------------------------- model side
def zlist(l):
    return "[" + "; ".join(str(int(x)) for x in l) + "]"


def MODEL_RUNNER(calls):
    """evaluate the cases inside coqc; returns answers in the same form as enc() above"""
    os.makedirs(os.path.join(VERIF, "work"), exist_ok=True)
    work = tempfile.mkdtemp(prefix="c17-", dir=os.path.join(VERIF, "work"))
    chunks = [calls[i:i + 40] for i in range(0, len(calls), 40)]
    files = []
    for ci, chunk in enumerate(chunks):
        path = os.path.join(work, "Cases%d.v" % ci)
        with open(path, "w") as f:
            f.write("From Coq Require Import ZArith List PrimFloat.\nFrom DSW Require Import Capacity CapacitySpec.\n"
                    "Import ListNotations.\nOpen Scope Z_scope.\n"
                    "Definition dz (x : float) : list Z := let '(m, e) := dump x in [m; e].\n"
                    "Definition enc (r : option (option (list float * list (list float)))) : list Z :=\n"
                    "  match r with None => [0] | Some None => [1] | Some (Some (res, recs)) =>\n"
                    "    2 :: Z.of_nat (length res) :: flat_map dz res ++ Z.of_nat (length recs) ::\n"
                    "    flat_map (fun rc => Z.of_nat (length rc) :: flat_map dz rc) recs end.\n")
            for i, c in enumerate(chunk):
                acc = "[" + "; ".join(zlist(r) for r in c["rows"]) + "]"
                starts = "[" + "; ".join("[" + "; ".join("(%s)%%float" % x for x in s) + "]" for s in c["starts"]) + "]"
                f.write("Definition acc%d : list (list Z) := %s.\n" % (i, acc))
                f.write("Eval vm_compute in (%d, enc (approximate_capacity acc%d (%s)%%float %d%%nat %s)).\n"
                        % (i, i, c["tol"], c["maxit"], starts))
                if c["cert"]:
                    ce = c["cert"]
                    f.write("Eval vm_compute in (%d, cert_upper acc%d %s %d %d, cert_lower acc%d %s %s %d %d).\n"
                            % (i, i, zlist(ce["xu"]), ce["pu"], ce["qu"], i, zlist(ce["S"]), zlist(ce["xl"]), ce["pl"], ce["ql"]))
        files.append(path)
    from concurrent.futures import ThreadPoolExecutor

    def run_one(p):
        pr = subprocess.run(["timeout", "1500", "coqc", "-Q", COQ, "DSW", "-o", p[:-2] + ".vo", p], stdout=subprocess.PIPE,
                            stderr=subprocess.STDOUT, universal_newlines=True, cwd=work)
        return pr.stdout
    with ThreadPoolExecutor(max_workers=6) as ex:
        outs = list(ex.map(run_one, files))
    answers = []
    for chunk, out in zip(chunks, outs):
        text = re.sub(r"\s+", " ", out)
        res = {}
        certs = {}
        for m in re.finditer(r"= \((\d+), \[([-0-9; ]*)\]\) : Z \* list Z|= \((\d+), (true|false), (true|false)\)", text):
            if m.group(1) is not None:
                res[int(m.group(1))] = [int(x) for x in m.group(2).replace(" ", "").split(";") if x]
            else:
                certs[int(m.group(3))] = [int(m.group(4) == "true"), int(m.group(5) == "true")]
        for i, c in enumerate(chunk):
            if i not in res:
                answers.append([[8], out[-300:]])
                continue
            answers.append(decode_model(res[i], c, certs.get(i, [])))
    subprocess.call(["rm", "-rf", work])
    return answers


def to_float(m, e):
    return math.ldexp(m, e - 53) if m else 0.0


def decode_model(z, c, cert):
    tol = float.fromhex(c["tol"])
    if z[0] == 0:
        return [[2]]
    if z[0] == 1:
        reps = len(c["starts"])
        return [[0], fhex(0.0), [[fhex(0.0)] for _ in range(reps)], cert]
    pos = 1
    nres = z[pos]; pos += 1
    res = []
    for _ in range(nres):
        res.append(to_float(z[pos], z[pos + 1])); pos += 2
    nrec = z[pos]; pos += 1
    recs = []
    for _ in range(nrec):
        ln = z[pos]; pos += 1
        one = []
        for _ in range(ln):
            one.append(to_float(z[pos], z[pos + 1])); pos += 2
        recs.append(one)
    lg = lambda ev: float(np.log2(ev)) if ev > tol else 0.0
    with np.errstate(divide="ignore"):
        cap = float(np.median([lg(x) for x in res]))
        recs_l = [[fhex(lg(x)) for x in one] for one in recs]
    return [[0], fhex(cap), recs_l, cert]
