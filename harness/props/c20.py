"""C20 -- library calls are stateless and never modify their arguments (partial: see Properties/C20.v)."""
import contextlib
import copy
import io
import json
import os
import subprocess
import sys

import numpy as np

import dsw
import gen
from core import Case, enc_call, guard, s2c, run_model, exn_answer, digits, VERIF, Budget
from props.c07 import formula

ID = "C20"
PROOF_FILE = "Properties/C20.v"
THEOREMS = ["C20_history", "C20_frame", "C20_removal_frame"]
CONE = ["Api.v", "Dispatch.v", "Py.v"]
MODEL_FUNCTIONS = ["every function reachable through Dispatch.v (encode, decode, set_vt, repair_dna, the converters, graph "
                   "conversions, graph generation, scoring, arc removal)"]
RULE = ("histories of 6..40 calls (thorough ..120) drawn from encode / decode / set_vt / repair_dna / bit, number and DNA "
        "conversions / accessor, latter-map and matrix conversions / vertex listing / leaf queries / find_vertices / "
        "connect_valid_graph / connect_coding_graph / calculate_intersection_score / approximate_capacity / "
        "create_random_shuffles, all on ONE set of shared argument objects (accessor, message, table, mask, latter map, "
        "filter), with remove_nasty_arc (documented in-place) occasionally interleaved.  After every call: (a) the result is "
        "compared with the model evaluated on the arguments as they were at the start of the history (stateless model => any "
        "dependence on history shows up), (b) a byte-level snapshot of every shared object is compared with the snapshot "
        "before the call, (c) functions accepting verbose are re-run with verbose=True (stdout captured) and must return the "
        "same value, (d) for one history in five every call is re-executed in a fresh interpreter process on equal arguments.  "
        "non-trivial = history of at least 6 calls; distinct by payload")
TRUSTED_BASE = [
    "Coq 8.16.1 kernel (coqc); no native_compute",
    "Print Assumptions of every C20 theorem: Closed under the global context",
    "the theorems are about the model's world (Api.v): purity of a functional model is true by construction; the discriminating "
    "evidence for this property is the run-time history correspondence, as DESIGN.md sections 5 (C20) and 7 say",
    "NOT expressible in the model and only observed: object mutation through aliasing between a returned array and an argument, "
    "interpreter-global state other than NumPy's RNG, output written by verbose mode",
    "extraction (ExtrOcamlBasic only) + coq/extract/driver.ml; harness/props/c20.py, harness/fresh_runner.py",
]
ASSUMPTIONS = ["arguments are NumPy arrays / lists / dicts / filter objects as documented"]
EXHAUSTIVE = {}
NUC = "ACGT"


def payloads(rng, tier):
    n = {"quick": 40, "thorough": 800, "search": 30}[tier]
    mx = {"quick": 40, "thorough": 120, "search": 20}[tier]
    for i in range(n):
        yield "history", {"seed": rng.randrange(1 << 30), "length": rng.randint(6, mx), "fresh": i % 5 == 0,
                          "k": rng.choice([1, 2, 2, 3])}
    # long messages with progress output off and on (CPython's int <-> str digit limit lowered to its minimum around the calls)
    for fn in {"quick": ["bit_to_number", "encode"], "thorough": ["bit_to_number", "encode", "encode_fast", "bit_to_number", "encode"],
               "search": ["bit_to_number", "encode"]}[tier]:
        yield "verbose_pair", {"fn": fn, "L": rng.choice([2200, 2400, 2600]), "k": 1, "seed": rng.randrange(1 << 30)}
    # the progress printer itself (it is not part of the regenerated model: its calls are evaluated and dropped): every way the
    # library calls it -- (current, total) with 1 <= current <= total, optional extra dict -- at small, boundary and large sizes,
    # as a fresh object and as one re-used across a whole count-up
    # the same question asked under every calling convention, interleaved with the transposed question: no call may leave anything
    # behind that changes a later answer (props/c13.py builds and judges the case)
    for _ in range({"quick": 30, "thorough": 300, "search": 30}[tier]):
        yield "conventions", {"k": rng.randint(1, 6), "v": rng.randint(0, 6), "seed": rng.randrange(1 << 30)}
    for _ in range({"quick": 6, "thorough": 60, "search": 6}[tier]):
        total = rng.choice([1, 2, 3, 4, 5, 7, 16, 19, 20, 21, 64, 99, 100, 101, 256, 999, 1000, 1001, 4 ** 5, 4 ** 8, 10 ** 6,
                            rng.randrange(1, 10 ** 7), 4 ** rng.randint(1, 12), 10 ** rng.randint(1, 12)])
        yield "progress", {"total": total, "seed": rng.randrange(1 << 30)}


def snapshot(objs):
    out = {}
    for name, o in objs.items():
        if isinstance(o, np.ndarray):
            out[name] = (str(o.dtype), o.shape, o.tobytes())
        elif isinstance(o, dict):
            out[name] = repr(sorted((int(a), [int(x) for x in b]) for a, b in o.items()))
        elif isinstance(o, dsw.LocalBioFilter):
            out[name] = repr(sorted(o.__dict__.items()))
        else:
            out[name] = repr(o)
    return out


def world(seed, k):
    """the shared argument objects of one history, as plain data (so a fresh process can rebuild them)"""
    import random
    rng = random.Random(seed)
    _, t, rows = gen.coding_graph(rng, k)
    if rng.random() < 0.4:
        # arc subsets: dead ends, vertices whose successors have no arcs, out-degree-1 chains
        rows = gen.arc_subset(rng, k, keep=rng.choice([0.5, 0.7, 0.9]))
        if not gen.live_vertices(rows):
            rows = gen.complete(k)
    cfg = gen.local_cfg(rng, k, decidable_only=True)
    return {"k": k, "rows": rows, "bits": gen.message(rng, 40) or [1, 0, 1], "table": gen.random_table(rng, len(rows)),
            "mask": gen.random_mask(rng, k, 0.8), "cfg": cfg, "v0": rng.choice(gen.live_vertices(rows))}


def materialise(w):
    objs = {"acc": gen.acc_array(w["rows"], readonly_ok=False), "bits": np.array(w["bits"], dtype=int), "table": np.array(w["table"], dtype=int),
            "mask": np.array(w["mask"], dtype=int)}
    objs["lmap"] = dsw.accessor_to_latter_map(objs["acc"])
    objs["filter"] = gen.make_filter(w["cfg"])
    return objs


def plan(seed, length, w):
    """the call sequence (names + literal parameters), deterministic in the seed"""
    import random
    rng = random.Random(seed * 7 + 1)
    k = w["k"]
    names = ["encode", "encode_fast", "decode", "set_vt", "repair", "bit_to_number", "number_to_bit", "dna_to_number",
             "number_to_dna", "to_lmap", "from_lmap", "to_matrix", "vertices", "leaves_acc", "leaves_map", "find_vertices",
             "valid_graph", "coding_graph", "scores", "capacity", "shuffles", "latters", "complete"]
    calls = []
    for _ in range(length):
        nm = rng.choice(names + (["remove_arc"] if rng.random() < 0.25 else []))
        if calls and calls[-1]["fn"] == "remove_arc" and rng.random() < 0.7:
            nm = rng.choice(["scores", "leaves_map", "to_lmap"])       # look at the views right after an in-place update
        calls.append({"fn": nm, "vt": rng.choice([0, 0, 3, 5]), "tab": rng.random() < 0.5, "t": rng.choice([1, 2, 3]),
                      "d": rng.randint(0, 3), "seed": rng.choice([0, 0, 1, rng.randrange(1 << 20), rng.randrange(1 << 20)]), "edit": rng.random() < 0.5,
                      "flags": rng.randrange(4), "n": rng.randrange(1 << 40), "w": rng.randint(0, 45)})
    return calls


def execute(objs, w, c, state, verbose=False):
    """run one call on the shared objects; returns (canonical answer, model call line or None)"""
    k, v0 = w["k"], w["v0"]
    acc, bits, table, mask, lmap, filt = objs["acc"], objs["bits"], objs["table"], objs["mask"], objs["lmap"], objs["filter"]
    tab = table if c["tab"] else None
    fn = c["fn"]
    kw = {"verbose": True} if verbose else {}
    n = len(acc)
    cur_rows = [[int(x) for x in r] for r in acc.tolist()]
    cur_lmap = {int(a): [int(x) for x in b] for a, b in lmap.items()}
    if fn in ("encode", "encode_fast"):
        fast = fn == "encode_fast"
        fuel = len(bits) * n + n + 1
        a = gen.counting(cur_rows, 2 * fuel + 8)
        r = dsw.encode(bits, a, v0, is_faster=fast, vt_length=c["vt"], shuffles=tab, **kw)
        s, chk = (r if c["vt"] > 0 else (r, None))
        state["strand"] = s
        return [s2c(s), gen.enc_opt_str(chk)], enc_call(20, [int(x) for x in bits], gen.enc_acc(cur_rows), v0, int(fast), c["vt"],
                                                       gen.enc_table(table.tolist() if c["tab"] else None), fuel)
    if fn == "decode":
        s = state.get("strand", "")
        r = dsw.decode(s, len(bits), acc, v0, shuffles=tab, **kw)
        return [[int(x) for x in r]], enc_call(21, s2c(s), len(bits), gen.enc_acc(cur_rows), v0, 0, [],
                                              gen.enc_table(table.tolist() if c["tab"] else None))
    if fn == "set_vt":
        s = state.get("strand", "ACGT")
        r = dsw.set_vt(s, max(1, c["vt"]))
        return [s2c(r)], enc_call(22, s2c(s), max(1, c["vt"]))
    if fn == "repair":
        s = state.get("strand", "") or gen.random_walk(__import__("random").Random(c["seed"]), cur_rows, v0, 3 * k + 4)
        if c["edit"] and len(s) > 2 * k:
            i = len(s) // 2
            s = s[:i] + NUC[(NUC.index(s[i]) + 1) % 4] + s[i + 1:]
        if len(s) < k:
            s = s + "A" * k
        import repair_common
        a = gen.counting(cur_rows, repair_common.read_budget(len(s), k))
        cands, st = dsw.repair_dna(s, a, v0, k, has_indel=True)
        return [gen.enc_groups(cands), [int(st[0]), int(bool(st[1])), int(st[2]), int(st[3])]], \
            enc_call(24, s2c(s), gen.enc_acc(cur_rows), v0, k, [], 1, 1000)
    if fn == "bit_to_number":
        r = dsw.bit_to_number(bits, is_string=True, **kw)
        return [digits(r)], enc_call(5, [int(x) for x in bits])
    if fn == "number_to_bit":
        r = dsw.number_to_bit(str(c["n"]), c["w"])
        return [[int(x) for x in r]], enc_call(7, digits(str(c["n"])), c["w"])
    if fn == "dna_to_number":
        s = state.get("strand", "ACGT") or "A"
        return [[int(dsw.dna_to_number(s, is_string=False))]], enc_call(10, s2c(s))
    if fn == "number_to_dna":
        r = dsw.number_to_dna(c["n"], c["w"])
        return [s2c(r)], enc_call(12, c["n"], c["w"])
    if fn == "to_lmap":
        r = dsw.accessor_to_latter_map(acc, **kw)
        return [gen.enc_lmap({int(a): [int(x) for x in r[a]] for a in sorted(r)})], enc_call(31, gen.enc_acc(cur_rows))
    if fn == "from_lmap":
        r = dsw.latter_map_to_accessor(lmap, k, threshold=c["t"] if c["edit"] else None, **kw)
        return [[int(x) for x in r.reshape(-1)]], enc_call(32, gen.enc_lmap(cur_lmap), k, [c["t"]] if c["edit"] else [])
    if fn == "to_matrix":
        if k > 2:
            return [[0]], None
        r = dsw.accessor_to_adjacency_matrix(acc, **kw)
        back = dsw.adjacency_matrix_to_accessor(r, **kw)
        return [[int(x) for x in r.reshape(-1)], [int(x) for x in back.reshape(-1)]], enc_call(48, gen.enc_acc(cur_rows))
    if fn == "vertices":
        return [[int(x) for x in dsw.obtain_vertices(acc)]], enc_call(30, gen.enc_acc(cur_rows))
    if fn == "leaves_acc":
        return [[int(x) for x in dsw.obtain_leaf_vertices(v0, c["d"], accessor=acc)]], enc_call(36, gen.enc_acc(cur_rows), v0, c["d"])
    if fn == "leaves_map":
        return [[int(x) for x in dsw.obtain_leaf_vertices(v0, c["d"], latter_map=lmap)]], enc_call(37, gen.enc_lmap(cur_lmap), v0, c["d"])
    if fn == "find_vertices":
        h, ms = gen.enc_cfg(w["cfg"])
        return [[int(x) for x in dsw.find_vertices(k, filt, **kw)]], enc_call(43, k, h, ms)
    if fn == "valid_graph":
        r = dsw.connect_valid_graph(k, mask, **kw)
        return [[int(x) for x in r.reshape(-1)]], enc_call(39, k, [int(x) for x in mask])
    if fn == "coding_graph":
        v, a2 = dsw.connect_coding_graph(k, mask, c["t"], **kw)
        desc = [int(x) for x in v] if c["t"] == 1 else [int(i) for i in np.where(np.asarray(v) != 0)[0]]
        return [desc, [int(x) for x in a2.reshape(-1)]], enc_call(40, k, [int(x) for x in mask], c["t"])
    if fn == "scores":
        r = dsw.calculate_intersection_score(lmap, observed_length=k, has_insertion=bool(c["flags"] % 2),
                                             has_deletion=bool(c["flags"] // 2), **kw)
        return [[int(x) for x in r.reshape(-1)]], enc_call(44, gen.enc_lmap(cur_lmap), k, c["flags"] % 2, c["flags"] // 2)
    if fn == "capacity":
        np.random.seed(c["seed"])
        r = dsw.approximate_capacity(acc, repeats=2, **kw)
        return [float(r).hex()], None
    if fn == "shuffles":
        r = dsw.create_random_shuffles(k, random_seed=c["seed"], **kw)
        return [[int(x) for x in r.reshape(-1)]], None
    if fn == "latters":
        return [dsw.obtain_latters(v0, k) + dsw.obtain_formers(v0, k)], None
    if fn == "complete":
        return [[int(x) for x in dsw.get_complete_accessor(k, **kw).reshape(-1)]], enc_call(15, k)
    if fn == "remove_arc":
        a2, m2, arc, sc = dsw.remove_nasty_arc(acc, lmap, has_insertion=bool(c["flags"] % 2), has_deletion=bool(c["flags"] // 2), **kw)
        return [[int(x) for x in a2.reshape(-1)], gen.enc_lmap({int(a): [int(x) for x in m2[a]] for a in sorted(m2)}),
                [int(arc[0]), int(arc[1])], [int(x) for x in sc]], \
            enc_call(45, gen.enc_acc(cur_rows), gen.enc_lmap(cur_lmap), c["flags"] % 2, c["flags"] // 2)
    raise RuntimeError(fn)


VERBOSE_OK = {"encode", "encode_fast", "decode", "bit_to_number", "to_lmap", "from_lmap", "to_matrix", "find_vertices",
              "valid_graph", "coding_graph", "scores", "capacity", "shuffles", "complete"}


def scribble(x, shared):
    """the caller owns what a call returned: overwrite it in place (unless it IS one of the shared arguments, as for the
    documented in-place arc removal); a later call must not be affected"""
    if any(x is o for o in shared.values()):
        return
    if isinstance(x, np.ndarray):
        if x.flags.writeable and x.size:
            x[...] = -7
    elif isinstance(x, list):
        for y in x:
            scribble(y, shared)
        if x and all(isinstance(y, (int, np.integer)) for y in x):
            x[:] = [-7] * len(x)
    elif isinstance(x, tuple):
        for y in x:
            scribble(y, shared)
    elif isinstance(x, dict):
        for key in list(x):
            scribble(x[key], shared)


def run_history(p, check_verbose=True):
    """returns (answers, model lines, problems)"""
    w = world(p["seed"], p["k"])
    objs = materialise(w)
    calls = plan(p["seed"], p["length"], w)
    state, answers, lines, problems = {}, [], [], []
    for i, c in enumerate(calls):
        before = snapshot(objs)
        st0 = dict(state)
        try:
            ans, line = execute(objs, w, c, state)
            ans = [[0]] + ans
        except Budget:
            ans, line = [[2]], "skip"          # non-terminating encode on a graph that is not well formed (C04's domain)
        except Exception as e:  # noqa
            ans, line = exn_answer(e), "skip"
        after = snapshot(objs)
        if c["fn"] != "remove_arc":
            for name in before:
                if before[name] != after[name]:
                    problems.append("call %d (%s) modified its argument %s" % (i, c["fn"], name))
        if check_verbose and c["fn"] in VERBOSE_OK and ans[0] == [0] and c["fn"] != "remove_arc":
            buf = io.StringIO()
            try:
                with contextlib.redirect_stdout(buf):
                    ans2, _ = execute(objs, w, c, dict(st0), verbose=True)
                if [[0]] + ans2 != ans:
                    problems.append("call %d (%s): verbose=True changed the result" % (i, c["fn"]))
            except Exception as e:  # noqa
                problems.append("call %d (%s): verbose=True raised %r" % (i, c["fn"], e))
        answers.append(ans)
        lines.append(line)
    return answers, lines, problems


class strict_int_str(object):
    """CPython's limit on int <-> str conversions at its minimum (640 digits instead of 4300) around library calls only: a
    conversion of a long message through int()/str() then fails at 2127 bits instead of 14285 -- same behaviour, cheaper to reach"""
    def __enter__(self):
        self.old = sys.get_int_max_str_digits() if hasattr(sys, "get_int_max_str_digits") else None
        if self.old is not None:
            sys.set_int_max_str_digits(640)

    def __exit__(self, *a):
        if self.old is not None:
            sys.set_int_max_str_digits(self.old)


def outcome(f):
    try:
        with strict_int_str():
            r = f()
        return ("ok", r)
    except Budget:
        raise
    except Exception as e:  # noqa
        return ("raise", type(e).__name__)


def build_verbose_pair(stream, p):
    """one verbose-capable call on LONG arguments, with progress output off and on: same outcome (value or exception class)"""
    def run():
        import random
        rng = random.Random(p["seed"])
        bits = np.array([1] + [rng.randint(0, 1) for _ in range(p["L"] - 1)], dtype=int)
        acc = gen.acc_array(gen.complete(p["k"]))
        problems = []

        def both(name, f, canon):
            a = outcome(lambda: f(False))
            buf = io.StringIO()
            with contextlib.redirect_stdout(buf):
                b = outcome(lambda: f(True))
            ca = (a[0], canon(a[1]) if a[0] == "ok" else a[1])
            cb = (b[0], canon(b[1]) if b[0] == "ok" else b[1])
            if ca != cb:
                problems.append("%s on a %d-bit message: verbose=False gives %s, verbose=True gives %s"
                                % (name, p["L"], str(ca)[:80], str(cb)[:80]))
            return a
        if p["fn"] == "bit_to_number":
            both("bit_to_number(is_string=True)", lambda v: dsw.bit_to_number(bits, is_string=True, verbose=v), str)
            both("bit_to_number(is_string=False)", lambda v: dsw.bit_to_number(bits, is_string=False, verbose=v), lambda r: str(int(r) % 1000003))
        else:
            fast = p["fn"] == "encode_fast"
            e = both(p["fn"], lambda v: dsw.encode(bits, acc, 0, is_faster=fast, verbose=v), str)
            if e[0] == "ok":
                both("decode", lambda v: dsw.decode(e[1], len(bits), acc, 0, is_faster=fast, verbose=v),
                     lambda r: "".join(str(int(x)) for x in r))
        return problems
    box = {}

    def impl():
        a, raw = guard(run, lambda r: [[len(r)]], seconds=600)
        box["problems"] = raw if isinstance(raw, list) else []
        return a, raw

    def oracle(ans, raw):
        if isinstance(raw, BaseException):
            return "raised outside a call: %r" % (raw,)
        return raw[0] if raw else None
    case = Case(stream, p, None, impl, oracle, domain=True, nontrivial=True, tags=["verbose_pair", "fn=" + p["fn"]])
    case.box = box
    return case


def build_progress(stream, p):
    """Monitor.__call__ never raises, returns None, prints one line that ends the count at `total`, and touches nothing else"""
    import contextlib
    import io
    import random as pyrandom
    total = p["total"]

    def run():
        r = pyrandom.Random(p["seed"])
        problems = []
        points = sorted(set([1, total] + [min(total, max(1, x)) for x in (2, 3, total // 2, total - 1, total // 20, total // 20 + 1,
                                                                         total * 19 // 20, r.randrange(1, total + 1),
                                                                         r.randrange(1, total + 1))]))
        extras = [None, {"largest eigenvalue": "%.5f" % 1.25, "error": "%.5f" % 0.5}, {"capacity": "%.5f" % 0.0}]
        shared = dsw.Monitor()
        for cur in points:
            for mon, label in ((dsw.Monitor(), "fresh"), (shared, "shared")):
                for extra in (r.sample(extras, 2) if label == "fresh" else [None]):
                    buf = io.StringIO()
                    before = repr(extra)
                    try:
                        with contextlib.redirect_stdout(buf):
                            out = mon(cur, total) if extra is None else mon(cur, total, extra=extra)
                    except BaseException as e:  # noqa
                        problems.append("Monitor()(%d, %d, extra=%r) [%s] raised %r" % (cur, total, extra, label, e))
                        continue
                    text = buf.getvalue()
                    if out is not None:
                        problems.append("Monitor()(%d, %d) returned %r" % (cur, total, out))
                    if repr(extra) != before:
                        problems.append("Monitor()(%d, %d, extra=..) changed its extra argument" % (cur, total))
                    if ("(%s/%d)" % (str(cur).rjust(len(str(total))), total)) not in text:
                        problems.append("Monitor()(%d, %d) did not print the state (%r)" % (cur, total, text[-80:]))
                    if (cur == total) != text.endswith("\n"):
                        problems.append("Monitor()(%d, %d): line %s terminated" % (cur, total, "not" if cur == total else "wrongly"))
        return problems
    impl = lambda: guard(run, lambda r: [[len(r)]], seconds=120)

    def oracle(ans, raw):
        if isinstance(raw, BaseException):
            return "progress printer check raised %r" % (raw,)
        return raw[0] if raw else None
    return Case(stream, p, None, impl, oracle, domain=True, nontrivial=True, tags=["progress"])


def build(stream, p):
    if stream == "verbose_pair":
        return build_verbose_pair(stream, p)
    if stream == "progress":
        return build_progress(stream, p)
    if stream == "conventions":
        from props import c13
        return c13.build(stream, p)
    box = {}

    def run():
        answers, lines, problems = run_history(p)
        box["lines"], box["problems"] = lines, problems
        if p["fresh"]:
            out = subprocess.run([sys.executable, os.path.join(VERIF, "harness", "fresh_runner.py")], input=json.dumps(p),
                                 stdout=subprocess.PIPE, stderr=subprocess.PIPE, universal_newlines=True, timeout=600,
                                 env=dict(os.environ, PYTHONHASHSEED="0"))
            try:
                fresh = json.loads(out.stdout)
            except Exception:  # noqa
                fresh = None
                problems.append("fresh-process runner failed: %s" % out.stderr[-300:])
            if fresh is not None:
                for i, (a, b) in enumerate(zip(answers, fresh)):
                    if json.loads(json.dumps(a)) != b:
                        problems.append("call %d returned something else than in a fresh process on equal arguments" % i)
        return answers
    impl = lambda: guard(run, lambda r: [r], seconds=900)

    def oracle(ans, raw):
        if isinstance(raw, BaseException):
            return "history raised outside a call: %r" % (raw,)
        return box["problems"][0] if box.get("problems") else None
    case = Case(stream, p, p, impl, oracle, domain=True, nontrivial=p["length"] >= 6, tags=["k=%d" % p["k"], "fresh=%d" % p["fresh"]])
    case.box = box
    return case


def MODEL_RUNNER(calls):
    """calls = payloads; the histories are re-planned and every call with a model line is evaluated by the extracted model
    on the arguments the implementation saw (which, the model being a pure function, equal the initial ones unless a call
    misbehaved)."""
    out = []
    for p in calls:
        answers, lines, _ = run_history(p, check_verbose=False)
        idx = [i for i, l in enumerate(lines) if l not in (None, "skip")]
        model = run_model([lines[i] for i in idx])
        merged = list(answers)
        for i, m in zip(idx, model):
            merged[i] = m
        out.append([[0], merged])
    return out
