"""C11 -- vertex discovery and the valid graph mirror the filter exactly."""
import itertools

import numpy as np

import dsw
import gen
from core import Case, enc_call, guard

ID = "C11"
PROOF_FILE = "Properties/C11.v"
THEOREMS = ["C11_kmer_string", "C11_find", "C11_valid_graph", "C11_induced_entry", "C11_column_is_last_nucleotide"]
CONE = ["Proofs/GraphProofs.v", "Proofs/KmerProofs.v", "Graph.v", "Kmer.v", "Convert.v", "GraphSpec.v", "Spec.v", "Py.v"]
MODEL_FUNCTIONS = ["find_vertices", "connect_valid_graph", "LocalBioFilter.valid (as the filter)"]
RULE = ("find_vertices with user-defined filters given as random truth tables through the documented "
        "valid(self, dna_string) interface and with LocalBioFilter configurations, k = 1..5 (thorough 6), incl. "
        "all-reject filters; connect_valid_graph on random masks k = 1..5 (bool and int dtype), the empty mask, None, "
        "and in the thorough tier ALL 65536 order-2 masks.  non-trivial = mask with both marked and unmarked vertices; "
        "distinct by payload")
TRUSTED_BASE = [
    "Coq 8.16.1 kernel (coqc); vm_compute only in the non-vacuity example; no native_compute",
    "Print Assumptions of every C11 theorem: Closed under the global context",
    "extraction (ExtrOcamlBasic only) + coq/extract/driver.ml + OCaml 4.13.1",
    "correspondence harness harness/core.py, harness/props/c11.py, harness/gen.py (LocalBioFilter thresholds are turned "
    "into integers with Python floats: floor/ceil of the same products the filter computes)",
    "modelled, not verified: numpy zeros/ones/sum/bool arrays, Python method dispatch on the filter object",
]
ASSUMPTIONS = ["the filter is a pure function of the k-mer string", "masks have one entry per vertex, entries 0/1"]
EXHAUSTIVE = {"thorough": True}
NUC = "ACGT"


def payloads(rng, tier):
    n = {"quick": 300, "thorough": 1500, "search": 300}[tier]
    kmax = {"quick": 5, "thorough": 6, "search": 4}[tier]
    for _ in range(n):
        k = rng.randint(1, kmax)
        dens = rng.choice([0.0, 0.02, 0.3, 0.6, 0.9, 1.0])
        yield "find_user", {"k": k, "table": [1 if rng.random() < dens else 0 for _ in range(4 ** k)]}
    # filters that accept exactly 1, 2 or 3 k-mers, at every order up to 7 ("raises ValueError exactly when it accepts none")
    for k in range(1, {"quick": 7, "thorough": 8, "search": 5}[tier] + 1):
        for cnt in (1, 2, 3):
            table = [0] * (4 ** k)
            for v in rng.sample(range(4 ** k), min(cnt, 4 ** k)):
                table[v] = 1
            yield "find_user", {"k": k, "table": table}
    for k in range(1, {"quick": 6, "thorough": 7, "search": 4}[tier] + 1):
        yield "find_local", {"cfg": {"k": k, "run": 1, "gc": [0, 0], "motifs": None}}
        yield "find_local", {"cfg": {"k": k, "run": 1, "gc": [1, 1], "motifs": None}}
    for _ in range(n):
        k = rng.randint(1, kmax)
        yield "find_local", {"cfg": gen.local_cfg(rng, k)}
    for _ in range({"quick": 150, "thorough": 1500, "search": 60}[tier]):
        k = rng.randint(2, min(kmax, 4))
        a = gen.local_cfg(rng, k)
        if a["motifs"] is None or rng.random() < 0.5:
            a["motifs"] = ["".join(rng.choice(NUC) for _ in range(rng.randint(2, k)))]
        yield "find_local_pair", {"first": a, "cfg": gen.related_cfg(rng, a)}
    # ONE filter object used twice: between the calls every attribute of the object is re-bound to that of another configuration
    # (often differing only in the filter's own window, which need not equal the order searched) -- the second answer must be the
    # answer for the object as it is now
    for _ in range({"quick": 150, "thorough": 1500, "search": 80}[tier]):
        kk = rng.randint(2, min(kmax, 4))
        a = gen.local_cfg(rng, rng.randint(1, kk + 1))
        b = dict(a, k=rng.choice([w for w in range(1, kk + 2) if w != a["k"]])) if rng.random() < 0.6 else gen.local_cfg(rng, rng.randint(1, kk + 1))
        yield "find_local_pair", {"first": a, "cfg": b, "kk": kk, "same": 1}
    for _ in range(n * 2):
        k = rng.randint(1, kmax)
        yield "valid_graph", {"k": k, "mask": gen.random_mask(rng, k, rng.choice([0.0, 0.05, 0.3, 0.6, 0.9, 1.0])),
                              "dtype": rng.choice(["bool", "int"])}
    yield "valid_graph_none", {"k": 2}
    if tier == "thorough":
        for m in range(65536):
            yield "valid_graph", {"k": 2, "mask": [(m >> i) & 1 for i in range(16)], "dtype": "int"}


def build(stream, p):
    if stream == "find_user":
        k, table = p["k"], p["table"]
        call = enc_call(38, k, table)
        impl = lambda: guard(lambda: gen.api("find_vertices", observed_length=k, bio_filter=gen.table_filter(k, table)),
                             lambda r: [[int(x) for x in r]])
        want = table
        filt = lambda s: bool(table[sum(NUC.index(c) * 4 ** (k - 1 - i) for i, c in enumerate(s))])
    elif stream in ("find_local", "find_local_pair"):
        cfg = p["cfg"]
        k = p.get("kk", cfg["k"])
        h, ms = gen.enc_cfg(cfg)
        call = enc_call(43, k, h, ms)
        def run_local():
            if stream == "find_local_pair" and p.get("same"):
                try:
                    shared = gen.make_filter(p["first"])
                    target = gen.make_filter(cfg)
                except ValueError:
                    return dsw.find_vertices(observed_length=k, bio_filter=gen.make_filter(cfg))
                try:
                    dsw.find_vertices(observed_length=k, bio_filter=shared)
                except ValueError:
                    pass
                for name, value in target.__dict__.items():
                    setattr(shared, name, value)
                return dsw.find_vertices(observed_length=k, bio_filter=shared)
            if stream == "find_local_pair":
                try:        # an earlier call with a closely related filter must leave nothing behind
                    dsw.find_vertices(observed_length=k, bio_filter=gen.make_filter(p["first"]))
                except ValueError:
                    pass
            return gen.api("find_vertices", observed_length=k, bio_filter=gen.make_filter(cfg))
        impl = lambda: guard(run_local, lambda r: [[int(x) for x in r]])
        f = None
        try:
            f = gen.make_filter(cfg)
        except ValueError:
            pass
        filt = (lambda s: f.valid(s)) if f is not None else None
    if stream in ("find_user", "find_local", "find_local_pair"):
        def oracle(ans, raw):
            if filt is None:
                return None
            want = [1 if filt("".join(t)) else 0 for t in itertools.product(NUC, repeat=k)]
            if not any(want):
                return None if isinstance(raw, ValueError) else "filter accepts no k-mer but find_vertices gave %r" % (raw,)
            if isinstance(raw, BaseException):
                return "raised %r" % (raw,)
            if [int(x) for x in raw] != want:
                return "mask differs from the filter applied to the enumerated k-mers"
            return None
        dom = stream == "find_user" or ((p["cfg"]["run"] is None or p["cfg"]["run"] <= p["cfg"]["k"]) and filt is not None)
        nt = True
        return Case(stream, p, call if dom else None, impl, oracle, domain=dom, nontrivial=nt, tags=["k=%d" % k])
    if stream == "valid_graph_none":
        impl = lambda: guard(lambda: dsw.connect_valid_graph(observed_length=2, vertices=None), lambda r: [])
        return Case(stream, p, None, impl, lambda a, r: None if isinstance(r, ValueError) else "None mask: %r" % (r,),
                    nontrivial=False)
    k, mask = p["k"], p["mask"]
    arr = np.array(mask, dtype=bool if p["dtype"] == "bool" else int)
    import zlib
    if zlib.crc32(arr.tobytes()) % 4 == 0:
        arr.setflags(write=False)        # a read-only mask: the function must not need to write to its argument
    call = enc_call(39, k, mask)
    def run_twice():
        # the caller owns the returned accessor (the library's own remove_nasty_arc edits accessors in place): overwrite it,
        # then build the graph again from an equal mask
        first = gen.api("connect_valid_graph", observed_length=k, vertices=arr)
        if isinstance(first, np.ndarray) and first.flags.writeable and first.size:
            first[...] = -1
        return dsw.connect_valid_graph(observed_length=k, vertices=np.array(mask, dtype=arr.dtype))
    impl = lambda: guard(run_twice, lambda r: [[int(x) for x in r.reshape(-1)]])

    def oracle(ans, raw):
        if not any(mask):
            return None if isinstance(raw, ValueError) else "empty mask gave %r" % (raw,)
        if isinstance(raw, BaseException):
            return "raised %r" % (raw,)
        n = 4 ** k
        for u in range(n):
            ku = gen.kmer(u, k)
            for j, c in enumerate(NUC):
                kv = ku[1:] + c
                v = sum(NUC.index(x) * 4 ** (k - 1 - i) for i, x in enumerate(kv))
                want = v if (mask[u] and mask[v]) else -1
                if int(raw[u][j]) != want:
                    return "entry (%s,%s) is %d, induced sub-graph has %d" % (ku, c, raw[u][j], want)
        return None
    nt = any(mask) and not all(mask)
    return Case(stream, p, call, impl, oracle, domain=True, nontrivial=nt, tags=["k=%d" % k, "dtype=" + p["dtype"]])
