"""C19 -- arc removal keeps both graph views in step over any call sequence."""
import copy

import numpy as np

import dsw
import gen
from core import Case, enc_call, guard, exn_answer

ID = "C19"
PROOF_FILE = "Properties/C19.v"
THEOREMS = ["C19_scores", "C19_step", "C19_history"]
CONE = ["Proofs/ScoreProofs.v", "Proofs/ReprProofs.v", "Proofs/GraphProofs.v", "Proofs/KmerProofs.v", "Score.v", "Graph.v",
        "GraphSpec.v", "Spec.v", "Py.v"]
MODEL_FUNCTIONS = ["remove_nasty_arc", "calculate_intersection_score", "obtain_leaf_vertices", "accessor_to_latter_map",
                   "obtain_vertices"]
RULE = ("generated coding graphs and arc subsets of order 1..3 (thorough 4), a random flag pair (has_insertion, has_deletion) per "
        "call, removal sequences run on the views handed back by the previous call up to the first call that raises (capped at "
        "40 calls, thorough 200); after EVERY call the accessor, the latter map, the removed arc and the list of positive scores "
        "are compared with the model, and the oracle checks: exactly one entry changed, it was an arc, its score was the maximum "
        "of the independently recomputed score table, accessor_to_latter_map(accessor) == latter_map.  non-trivial = history "
        "with at least two returning calls; distinct by payload.  Every second history is preceded by scoring and removal calls on one to "
        "three TWIN graphs (one arc moved to another predecessor of the same vertex: same vertices, arc count, index sums).")
TRUSTED_BASE = [
    "Coq 8.16.1 kernel (coqc); no native_compute",
    "Print Assumptions of every C19 theorem: Closed under the global context",
    "extraction (ExtrOcamlBasic only) + coq/extract/driver.ml + OCaml 4.13.1",
    "correspondence harness harness/core.py, harness/props/c19.py, harness/gen.py",
    "modelled, not verified: numpy union1d / unique / where / intersect1d / argmax / in-place element assignment, dict deletion, "
    "Counter; int(log(n)/log(4)) as exact log4; the in-place update order before a raising list.index is not observable in "
    "returning calls",
]
ASSUMPTIONS = ["the accessor is legal of order k >= 1 and the latter map is accessor_to_latter_map of it at the first call"]
EXHAUSTIVE = {}


def payloads(rng, tier):
    n = {"quick": 60, "thorough": 800, "search": 40}[tier]
    kmax = {"quick": 3, "thorough": 4, "search": 2}[tier]
    cap = {"quick": 40, "thorough": 200, "search": 20}[tier]
    for i in range(n):
        k = rng.randint(1, kmax)
        if k == 4 and i % 8:        # order 4 (256 vertices, long histories) only in one case out of eight: scoring is cubic
            k = rng.randint(1, 3)
        rows = gen.coding_graph(rng, k)[2] if rng.random() < 0.7 else gen.arc_subset(rng, k, keep=rng.choice([0.5, 0.8, 1.0]))
        if not gen.live_vertices(rows):
            continue
        same = rng.choice([None, 0, 1, 2, 3])
        flags = [same if same is not None else rng.randrange(4) for _ in range(cap if k < 4 else min(cap, 50))]
        p = {"k": k, "rows": rows, "flags": flags}
        if i % 2 == 0:
            # the history is preceded by scoring / removal calls on TWIN graphs (different arc subsets with identical vertex
            # sets, arc counts and index sums) with the flags of the first call: a remembered result must not leak across graphs
            twins, cur = [], rows
            for _ in range(rng.choice([1, 1, 2, 3])):
                cur = gen.twin_graph(rng, cur, k)
                if cur is None:
                    break
                twins.append(cur)
            if twins:
                p["twins"] = twins
        yield "history", p


def leaves(lm, v, d):
    cur = [v]
    for _ in range(d):
        cur = [x for u in cur for x in lm.get(u, [])]
    return cur


def score_table(lm, k, ins, dele):
    """independent recomputation of the intersection scores (sets instead of union1d)"""
    sc = {}
    d = k - 1
    for u, ls in lm.items():
        br = [leaves(lm, l, d) for l in ls]
        for a in range(len(ls)):
            for b in range(a + 1, len(ls)):
                x = len(set(br[a]) | set(br[b]))
                sc[(u, ls[a] % 4)] = sc.get((u, ls[a] % 4), 0) + x
                sc[(u, ls[b] % 4)] = sc.get((u, ls[b] % 4), 0) + x
        if ins:
            for a, l in enumerate(ls):
                for l2 in lm.get(l, []):
                    sc[(u, l % 4)] = sc.get((u, l % 4), 0) + len(set(br[a]) | set(leaves(lm, l2, d)))
        if dele:
            db = set(leaves(lm, u, d))
            for a, l in enumerate(ls):
                sc[(u, l % 4)] = sc.get((u, l % 4), 0) + len(set(br[a]) | db)
    return sc


def build(stream, p):
    k, rows, flags = p["k"], p["rows"], p["flags"]
    call = enc_call(53, gen.enc_acc(rows), flags)
    steps = []
    steps_direct = []

    def run():
        for t in p.get("twins", []):
            ta = gen.acc_array(t, readonly_ok=False)
            tm = dsw.accessor_to_latter_map(ta)
            f0 = flags[0] if flags else 3
            try:
                dsw.calculate_intersection_score(tm, observed_length=k, has_insertion=bool(f0 % 2), has_deletion=bool(f0 // 2))
                dsw.remove_nasty_arc(accessor=ta, latter_map=tm, has_insertion=bool(f0 % 2), has_deletion=bool(f0 // 2))
            except Exception:  # noqa
                pass
        acc = gen.acc_array(rows, readonly_ok=False)
        lm = dsw.accessor_to_latter_map(acc)
        # the ORDER of the keys of a latter map carries no meaning: a share of the histories (chosen by content) starts from the
        # same map with its keys in reverse or rotated order
        import zlib
        hk = zlib.crc32(repr(rows).encode()) % 4
        if hk in (1, 2) and len(lm) > 1:
            keys = list(lm)
            keys = keys[::-1] if hk == 1 else keys[len(keys) // 2:] + keys[:len(keys) // 2]
            lm = {a: lm[a] for a in keys}
        if p.get("twins"):
            f0 = flags[0] if flags else 3
            direct = dsw.calculate_intersection_score(lm, observed_length=k, has_insertion=bool(f0 % 2), has_deletion=bool(f0 // 2))
            steps_direct.append((np.array(direct).copy(), bool(f0 % 2), bool(f0 // 2)))
        out = [[0]]
        for f in flags:
            before = acc.copy()
            lm_before = {int(a): [int(x) for x in b] for a, b in lm.items()}
            ins, dele = bool(f % 2), bool(f // 2)
            try:
                acc2, lm2, arc, scores = gen.api("remove_nasty_arc", accessor=acc, latter_map=lm, has_insertion=ins, has_deletion=dele)
            except Exception as e:  # noqa
                out += exn_answer(e)
                return out
            steps.append((before, lm_before, acc2.copy(), {int(a): [int(x) for x in b] for a, b in lm2.items()},
                          (int(arc[0]), int(arc[1])), [int(x) for x in scores], ins, dele))
            out += [[int(x) for x in acc2.reshape(-1)], gen.enc_lmap({int(a): [int(x) for x in lm2[a]] for a in sorted(lm2)}),
                    [int(arc[0]), int(arc[1])], [int(x) for x in scores]]
            acc, lm = acc2, lm2
        out.append([0])
        return out
    impl = lambda: guard(run, lambda r: r[1:], seconds=900)

    def oracle(ans, raw):
        if isinstance(raw, BaseException):
            return "history raised outside a call: %r" % (raw,)
        for direct, ins, dele in steps_direct:
            lm0 = {a: [x for x in row if x >= 0] for a, row in enumerate(rows) if any(x >= 0 for x in row)}
            sc = score_table(lm0, k, ins, dele)
            for (a, j), x in sc.items():
                if int(direct[a][j]) != x:
                    return "calculate_intersection_score after a call on a twin graph: entry (%d,%d) is %d, recomputed %d" % (a, j, int(direct[a][j]), x)
            if int(np.sum(np.array(direct) > 0)) != sum(1 for x in sc.values() if x > 0):
                return "calculate_intersection_score after a call on a twin graph reports positive scores on other arcs"
        for i, (before, lm_before, after, lm_after, (u, v), scores, ins, dele) in enumerate(steps):
            diff = np.argwhere(before != after)
            if len(diff) != 1:
                return "call %d changed %d entries" % (i, len(diff))
            r, c = int(diff[0][0]), int(diff[0][1])
            if r != u or int(before[r][c]) != v or int(after[r][c]) != -1 or v < 0:
                return "call %d: removed arc reported as %r but entry (%d,%d) changed from %d to %d" % (i, (u, v), r, c, before[r][c], after[r][c])
            want_map = {a: [x for x in row if x >= 0] for a, row in enumerate(after.tolist()) if any(x >= 0 for x in row)}
            if lm_after != want_map:
                return "call %d: latter map and accessor describe different graphs" % i
            sc = score_table(lm_before, k, ins, dele)
            mx = max(sc.values()) if sc else 0
            if sc.get((u, c), 0) != mx:
                return "call %d: removed arc has score %d, maximum is %d" % (i, sc.get((u, c), 0), mx)
            if any(x > 0 and before[a][j] < 0 for (a, j), x in sc.items()):
                return "call %d: positive score on a missing arc" % i
            if sorted(scores) != sorted(x for x in sc.values() if x > 0):
                return "call %d: reported positive scores differ from the recomputed table" % i
        return None
    return Case(stream, p, call, impl, oracle, domain=True, nontrivial=True, tags=["k=%d" % k])


def shrink(stream, p):
    f = p["flags"]
    if len(f) > 1:
        yield dict(p, flags=f[: len(f) // 2])
        yield dict(p, flags=f[:-1])
