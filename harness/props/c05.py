"""C05 -- the strand is the documented mixed-radix walk, independent of implementation."""
import numpy as np

import dsw
import gen
import coder_common as cc
from core import Case, enc_call, guard, s2c

ID = "C05"
PROOF_FILE = "Properties/C05.v"
THEOREMS = ["C05_encode_is_reference", "C05_reference_is_mixed_radix", "C05_decode_any_walk", "C05_decode_reads_value",
            "C05_fast_is_reference", "C05_select_without_table", "C05_select_with_table"]
CONE = ["Proofs/CoderProofs.v", "Proofs/ShuffleProofs.v", "Proofs/VTProofs.v", "Proofs/ConvertProofs.v",
        "Proofs/BignumProofs.v", "Coder.v", "Convert.v", "Bignum.v", "CoderSpec.v", "FastSpec.v", "GraphSpec.v", "Spec.v", "Py.v"]
MODEL_FUNCTIONS = ["encode", "decode", "calculus_division", "calculus_multiplication", "calculus_addition", "number_to_bit"]
RULE = ("two messages of 3340 and 3600 bits (thorough up to 6700; decimal value beyond 1000 digits); encode output against an independent integer-arithmetic reference coder written from the property text (mixed radix, "
        "little-endian, digit d = live arc whose table entry is d-th smallest, two bits MSB-first at 4-way / one bit at 2-way "
        "vertices in fast mode), on well-formed graphs of order 1..4 with mixed out-degrees, all start-vertex kinds, tables "
        "none / permutation, both modes; decode of ARBITRARY walks (not only encoder outputs) against the reference value "
        "rendered big-endian at widths at and above the value's bit length (left padding).  non-trivial = non-empty strand; "
        "distinct by payload")
TRUSTED_BASE = [
    "Coq 8.16.1 kernel (coqc); no native_compute",
    "Print Assumptions of every C05 theorem: Closed under the global context",
    "extraction (ExtrOcamlBasic only) + coq/extract/driver.ml + OCaml 4.13.1",
    "correspondence harness harness/core.py, harness/props/c05.py, harness/coder_common.py (the independent reference coder)",
    "modelled, not verified: numpy where/argsort on distinct keys/fancy indexing, Python str/int primitives",
]
ASSUMPTIONS = ["table rows are permutations of 0..3", "accessor rows have four entries, entries -1 or valid row indices"]
EXHAUSTIVE = {}
NUC = "ACGT"


def payloads(rng, tier):
    n = {"quick": 1500, "thorough": 25000, "search": 1500}[tier]
    kmax = {"quick": 3, "thorough": 4, "search": 3}[tier]
    # very long messages (values beyond 10^1000: the decimal string has more than one thousand digits)
    for L in {"quick": [3340, 3600], "thorough": [3340, 3600, 4000, 6700], "search": [3600]}[tier]:
        k, kind, rows, v0 = cc.graph_case(rng, 2)
        bits = [1] + [rng.randint(0, 1) for _ in range(L - 1)]
        yield "encode", {"k": k, "rows": rows, "v0": v0, "bits": bits, "fast": False,
                         "table": gen.random_table(rng, len(rows)) if rng.random() < 0.5 else None, "kind": kind}
    for _ in range(n):
        k, kind, rows, v0 = cc.graph_case(rng, kmax)
        fast = rng.random() < 0.35
        if fast and cc.has_deg3(rows):
            rows = gen.complete(k) if rng.random() < 0.5 else gen.coding_graph(rng, k, t=4)[2]
            v0 = rng.choice(gen.live_vertices(rows))
        table = gen.random_table(rng, len(rows)) if rng.random() < 0.6 else None
        yield "encode", {"k": k, "rows": rows, "v0": v0, "bits": gen.message(rng, 80), "fast": fast, "table": table, "kind": kind}
        # arbitrary walks
        w = gen.random_walk(rng, rows, v0, rng.choice([0, 1, 3, 8, rng.randint(0, 40)]))
        val = cc.walk_value(rows, v0, table, w)
        L = max(val.bit_length(), 0) + rng.choice([0, 0, 1, 5, 17])
        yield "decode_walk", {"k": k, "rows": rows, "v0": v0, "w": w, "L": L, "table": table, "kind": kind}


def build(stream, p):
    rows, v0, table = p["rows"], p["v0"], p["table"]
    reuse = (len(rows) + v0) % 2 == 0       # the array is (re)filled when the case RUNS, not when it is built
    tab = None if table is None else np.array(table, dtype=int)
    if stream == "encode":
        bits, fast = p["bits"], p["fast"]
        fuel = len(bits) * len(rows) + len(rows) + 1
        call = enc_call(20, bits, gen.enc_acc(rows), v0, int(fast), 0, gen.enc_table(table), fuel)

        def run():
            a = gen.shared_view(rows) if (len(bits) + v0) % 4 == 0 else gen.counting(rows, 2 * fuel + 4)
            return dsw.encode(np.array(bits, dtype=int), a, v0, is_faster=fast, shuffles=tab)
        impl = lambda: guard(run, lambda r: [s2c(r), []])
        domain = gen.wellformed_from(rows, v0) and not (fast and cc.has_deg3(rows))

        def oracle(ans, raw):
            if not domain:
                return None
            want = cc.ref_encode(bits, rows, v0, table, fast, fuel)
            if isinstance(raw, BaseException):
                return "raised %r, reference strand is %r" % (raw, want)
            if raw != want:
                return "strand %r differs from the reference mixed-radix walk %r" % (raw, want)
            return None
        return Case(stream, p, call, impl, oracle, domain=domain, nontrivial=any(bits),
                    tags=[p["kind"], "fast=%d" % fast, "table=%d" % (table is not None)])
    w, L = p["w"], p["L"]
    call = enc_call(21, s2c(w), L, gen.enc_acc(rows), v0, 0, [], gen.enc_table(table))
    impl = lambda: guard(lambda: dsw.decode(w, L, gen.shared_view(rows) if (L + v0) % 4 == 0 else gen.acc_array(rows, reuse=reuse), v0, shuffles=tab),
                         lambda r: [[int(x) for x in r]])

    def oracle(ans, raw):
        val = cc.walk_value(rows, v0, table, w)
        if isinstance(raw, BaseException):
            return "raised %r on a walk" % (raw,)
        want = [int(c) for c in bin(val)[2:].zfill(L)] if L > 0 else []
        if val == 0:
            want = [0] * L
        if [int(x) for x in raw] != want:
            return "decoded %r, the walk's value %d rendered at width %d is %r" % ([int(x) for x in raw], val, L, want)
        return None
    return Case(stream, p, call, impl, oracle, domain=True, nontrivial=len(w) > 0,
                tags=[p["kind"], "table=%d" % (table is not None)])


def shrink(stream, p):
    if stream == "encode":
        b = p["bits"]
        for cand in (b[: len(b) // 2], b[1:], b[:-1]):
            if len(cand) < len(b):
                yield dict(p, bits=cand)
    else:
        w = p["w"]
        if w:
            yield dict(p, w=w[:-1])
