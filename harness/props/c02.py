"""C02 -- every emitted strand obeys the biochemical constraints it was generated for."""
import math

import numpy as np

import dsw
import gen
from core import Case, enc_call, guard, s2c

ID = "C02"
PROOF_FILE = "Properties/C02.v"
THEOREMS = ["C02_windows", "C02_windows_encoded", "C02_local_filter", "C02_local_filter_walks", "C02_short_strand_refuted",
            "C02_constructor_refuted"]
CONE = ["Proofs/LocalFilterProofs.v", "Proofs/GeneratedProofs.v", "Proofs/FilterProofs.v", "Proofs/GenerateProofs.v",
        "Proofs/ComposeProofs.v", "Proofs/CoderProofs.v", "Proofs/TerminationProofs.v", "Proofs/GraphProofs.v",
        "Proofs/KmerProofs.v", "Filter.v", "Graph.v", "Coder.v", "FilterSpec.v", "GraphSpec.v", "CoderSpec.v", "Spec.v", "Py.v"]
MODEL_FUNCTIONS = ["LocalBioFilter.__init__", "LocalBioFilter.valid", "find_vertices", "connect_coding_graph", "encode"]
RULE = ("pipeline cases: a filter (LocalBioFilter configuration from a grid: run limit 1..k incl. = k, GC ranges incl. degenerate "
        "and badly rounding ones, motif sets; or a user-defined table filter through valid(self, dna_string)) -> find_vertices -> "
        "connect_coding_graph (thresholds 1..4) -> a retained start vertex -> encode (messages of length 0..48, tables none / "
        "permutation, both modes); k = 2..5.  Oracle: filter.valid(window) on every window of start k-mer + strand; for "
        "window-decidable local filters filter.valid(strand, only_last=False) alone and prefixed; constructor acceptance vs "
        "window-decidability.  The model runs the same pipeline (composite call) and must give the same start vertex, strand "
        "and verdicts.  non-trivial = non-empty strand; distinct by payload")
TRUSTED_BASE = [
    "Coq 8.16.1 kernel (coqc); vm_compute in the two refutation witnesses; no native_compute",
    "Print Assumptions of every C02 theorem: Closed under the global context",
    "extraction (ExtrOcamlBasic only) + coq/extract/driver.ml + OCaml 4.13.1",
    "correspondence harness harness/core.py, harness/props/c02.py, harness/gen.py (integer thresholds from Python floats)",
    "modelled, not verified: numpy / str primitives as for C11, C12, C03, C01",
]
ASSUMPTIONS = ["filters are pure functions of the string", "k >= 1, thresholds 1..4"]
EXHAUSTIVE = {}
NUC = "ACGT"
F8 = {"k": 5, "run": None, "gc": [0.8, 1.0], "motifs": None}


def payloads(rng, tier):
    n = {"quick": 400, "thorough": 8000, "search": 400}[tier]
    kmax = {"quick": 4, "thorough": 5, "search": 3}[tier]
    # the two recorded findings are exercised on every run
    yield "pipeline", {"cfg": F8, "t": 1, "vsel": 0, "want_v0": 85, "bits": [1, 1], "fast": False, "table_seed": None}
    yield "ctor", {"cfg": {"k": 2, "run": 2, "gc": None, "motifs": None}}
    for _ in range(n):
        k = rng.randint(2, kmax)
        cfg = gen.local_cfg(rng, k)
        yield "pipeline", {"cfg": cfg, "t": rng.choice([1, 1, 2, 2, 3, 4]), "vsel": rng.randrange(1 << 20),
                           "bits": gen.message(rng, 48), "fast": rng.random() < 0.25,
                           "table_seed": rng.choice([None, rng.randrange(1 << 30)])}
        if rng.random() < 0.3:
            yield "ctor", {"cfg": cfg}
        if rng.random() < 0.25 and k <= 4:
            a = dict(cfg)
            if a["motifs"] is None:
                a["motifs"] = ["".join(rng.choice(NUC) for _ in range(rng.randint(2, k)))]
            yield "pipeline", {"first": a, "cfg": gen.related_cfg(rng, a), "t": rng.choice([1, 2]), "vsel": rng.randrange(1 << 20),
                               "bits": gen.message(rng, 32), "fast": False, "table_seed": None}
    for _ in range(n // 3):
        k = rng.randint(1, kmax)
        dens = rng.choice([0.5, 0.7, 0.9])
        yield "user", {"k": k, "table": [1 if rng.random() < dens else 0 for _ in range(4 ** k)], "t": rng.choice([1, 2, 3]),
                       "vsel": rng.randrange(1 << 20), "bits": gen.message(rng, 32), "fast": False}


def decidable(cfg):
    k = cfg["k"]
    return (cfg["run"] is None or cfg["run"] < k) and (cfg["motifs"] is None or all(len(m) <= k for m in cfg["motifs"]))


def build(stream, p):
    import random
    if stream == "ctor":
        cfg = p["cfg"]

        def run():
            try:
                gen.make_filter(cfg)
                return 1
            except ValueError:
                return 0
        h, ms = gen.enc_cfg(cfg)

        def oracle(ans, raw):
            if raw == 1 and not decidable(cfg):
                return "the constructor accepts a configuration that is not window-decidable: %r" % (cfg,)
            return None
        return Case(stream, p, enc_call(42, h, ms), lambda: guard(run, lambda r: [[r]]), oracle, nontrivial=True, tags=["ctor"])
    t, bits, fast = p["t"], p["bits"], p["fast"]
    if stream == "pipeline":
        cfg = p["cfg"]
        k = cfg["k"]
        try:
            filt = gen.make_filter(cfg)
        except ValueError:
            return Case(stream, p, None, lambda: ([[0]], None), None, domain=False, nontrivial=False, tags=["rejected-cfg"])
        table_seed = p["table_seed"]
    else:
        k = p["k"]
        cfg = None
        filt = gen.table_filter(k, p["table"])
        table_seed = None
    n = 4 ** k
    table = gen.random_table(random.Random(table_seed), n) if table_seed is not None else None
    tab = None if table is None else np.array(table, dtype=int)
    fuel = len(bits) * n + n + 1
    info = {}

    def run():
        if p.get("first") is not None:
            try:            # an earlier generation for a closely related filter must leave nothing behind
                dsw.find_vertices(observed_length=k, bio_filter=gen.make_filter(p["first"]))
            except ValueError:
                pass
        mask = dsw.find_vertices(observed_length=k, bio_filter=filt)
        v, acc = dsw.connect_coding_graph(observed_length=k, vertices=mask, threshold=t)
        retained = [int(x) for x in v] if t == 1 else [int(i) for i in np.where(np.asarray(v) != 0)[0]]
        v0 = retained[p["vsel"] % len(retained)]
        a = gen.counting(acc.tolist(), 2 * fuel + 4)
        s = dsw.encode(np.array(bits, dtype=int), a, v0, is_faster=fast, shuffles=tab)
        whole = gen.kmer(v0, k) + s
        wins = [int(bool(filt.valid(whole[i:i + k]))) for i in range(len(s) + 1)]
        if cfg is not None:
            alone, pref = int(bool(filt.valid(s, only_last=False))), int(bool(filt.valid(whole, only_last=False)))
        else:
            alone = pref = 1
        info.update(v0=v0, rows=acc.tolist())
        return v0, s, alone, pref, wins
    if stream == "pipeline":
        h, ms = gen.enc_cfg(cfg)
        call = enc_call(52, k, h, ms, t, p["vsel"], bits, int(fast), gen.enc_table(table), fuel)
        enc = lambda r: [[r[0]], s2c(r[1]), [r[2], r[3]], r[4]]
    else:
        call = enc_call(54, k, p["table"], t, p["vsel"], bits, int(fast), gen.enc_table(table), fuel)
        enc = lambda r: [[r[0]], s2c(r[1]), r[4]]
    impl = lambda: guard(run, enc, seconds=60)

    def oracle(ans, raw):
        if isinstance(raw, ValueError):
            return None          # no vertex / no coding graph for this filter
        if isinstance(raw, BaseException):
            rows = info.get("rows")
            if fast and rows and any(sum(1 for x in r if x >= 0) == 3 for r in rows):
                return None      # fast mode is not defined with out-degree 3
            return "raised %r" % (raw,)
        v0, s, alone, pref, wins = raw
        if not all(wins):
            i = wins.index(0)
            return "window %d (%r) of start k-mer + strand is rejected by the filter" % (i, (gen.kmer(v0, k) + s)[i:i + k])
        if cfg is not None and decidable(cfg):
            if not pref:
                return "start k-mer + strand %r fails the whole-sequence check" % (gen.kmer(v0, k) + s,)
            if not alone:
                return "strand %r alone fails the whole-sequence check" % (s,)
        return None
    dom = True
    return Case(stream, p, call, impl, oracle, domain=dom, nontrivial=True,
                tags=[stream, "k=%d" % k, "t=%d" % t, "fast=%d" % fast])


def known_match(finding, stream, payload, why):
    """a failure is a known finding only if it is the recorded clause failing on the recorded input class"""
    cfg = payload.get("cfg")
    if cfg is None:
        return False
    k = cfg["k"]
    if finding["id"] == "F7":
        if cfg["run"] is None or cfg["run"] != k:
            return False
        return stream == "ctor" and why.startswith("the constructor accepts a configuration that is not window-decidable")
    if finding["id"] == "F8":
        if cfg["gc"] is None or stream != "pipeline":
            return False
        lo = cfg["gc"][0]
        incoherent = k - math.ceil(lo * k) > math.floor((1 - lo) * k)
        m = __import__("re").match(r"strand '([ACGT]*)' alone fails the whole-sequence check", why)
        return bool(incoherent and m and len(m.group(1)) < k)
    return False
