"""C18 -- shuffle tables are reproducible per-vertex permutations."""
import itertools

import numpy as np

import dsw
import gen
from core import Case, enc_call, guard, s2c

ID = "C18"
PROOF_FILE = "Properties/C18.v"
THEOREMS = ["C18_argsort_perm", "C18_digit_roundtrip", "C18_position_roundtrip", "C18_digit_total", "C18_bijection",
            "C18_code_is_rank_selection", "C18_finite_sweep", "C18_table", "C18_table_is_perm_table", "C18_numpy_table"]
CONE = ["Proofs/ShuffleProofs.v", "Coder.v", "Shuffle.v", "CoderSpec.v", "Py.v"]
MODEL_FUNCTIONS = ["encode (digit -> arc through argsort)", "decode (arc -> digit)", "create_random_shuffles (table of a seed: MT19937 model of numpy.random)"]
RULE = ("digit map: ALL 24 permutations x ALL 11 live-arc patterns with two or more arcs x every digit, normal mode, and the "
        "patterns of size 2 and 4 in fast mode, encode then decode on a one-vertex graph (exhaustive in both tiers); table: "
        "observed lengths 1..6 x 50 seeds (thorough 500): shape, every row a permutation of 0..3, two calls with the same "
        "seed -- passed once as a built-in int and once as a NumPy integer scalar (int64 / uint32 / uint64) -- give the same table, doctest table for seed 2021.  non-trivial = pattern with >= 2 arcs / k >= 2")
TRUSTED_BASE = [
    "Coq 8.16.1 kernel (coqc); vm_compute for the exhaustive 24 x 15 sweep (lifted with forallb_forall); no native_compute",
    "Print Assumptions of every C18 theorem: Closed under the global context",
    "extraction (ExtrOcamlBasic only) + coq/extract/driver.ml + OCaml 4.13.1",
    "correspondence harness harness/core.py, harness/props/c18.py",
    "NOT modelled (observed at run time only): numpy.random seed/shuffle (Mersenne Twister stream, Fisher-Yates), hence "
    "'no effect other than on the global random state' is a run-time check; 'same seed gives same table' holds of the model by "
    "construction (the table is a function of the seed: coq/MT19937.v) and the table itself is compared with the model's for every "
    "sampled seed -- that NumPy's legacy generator IS MT19937 with this seeding / interval / shuffle is an assumption checked that way",
    "modelled, not verified: numpy argsort on <= 4 distinct keys, fancy indexing",
]
ASSUMPTIONS = ["table rows are permutations of 0..3 for the rank-selection reading; the round trip holds for any keys"]
EXHAUSTIVE = {"quick": True, "thorough": True}
NUC = "ACGT"
DOCTEST_2021 = [[3, 2, 1, 0], [2, 3, 1, 0], [3, 1, 0, 2], [0, 3, 1, 2], [3, 2, 0, 1], [1, 0, 3, 2], [0, 3, 1, 2], [2, 0, 1, 3],
                [2, 3, 0, 1], [1, 0, 3, 2], [2, 0, 1, 3], [0, 1, 3, 2], [2, 3, 1, 0], [2, 0, 3, 1], [0, 1, 3, 2], [0, 3, 2, 1]]


def payloads(rng, tier):
    for perm in itertools.permutations(range(4)):
        for m in range(1, 16):
            pattern = [j for j in range(4) if (m >> j) & 1]
            if len(pattern) < 2:
                continue
            for d in range(len(pattern)):
                yield "digit", {"perm": list(perm), "pattern": pattern, "d": d, "fast": False}
                if len(pattern) in (2, 4):
                    yield "digit", {"perm": list(perm), "pattern": pattern, "d": d, "fast": True}
    seeds = {"quick": 50, "thorough": 500, "search": 20}[tier]
    for k in range(1, 7):
        for i in range(seeds if k <= 4 else max(5, seeds // 10)):
            yield "table", {"k": k, "seed": [2021, 0, 1, 2 ** 32 - 1][i] if i < 4 else rng.randrange(2 ** 31)}


def build(stream, p):
    if stream == "digit":
        perm, pattern, d, fast = p["perm"], p["pattern"], p["d"], p["fast"]
        rows = [[0 if j in pattern else -1 for j in range(4)]]
        r = len(pattern)
        if fast:
            bits = [d // 2, d % 2] if r == 4 else [d]
        else:
            bits = [int(c) for c in bin(d)[2:].zfill(2)]
        L = len(bits)

        def run():
            s = dsw.encode(np.array(bits), gen.acc_array(rows), 0, is_faster=fast, shuffles=np.array([perm]))
            back = dsw.decode(s, L, gen.acc_array(rows), 0, is_faster=fast, shuffles=np.array([perm]))
            return s, [int(x) for x in back]
        call = enc_call(49, bits, gen.enc_acc(rows), 0, int(fast), perm, 8)
        impl = lambda: guard(run, lambda x: [s2c(x[0]), x[1]])

        def oracle(ans, raw):
            if isinstance(raw, BaseException):
                return "raised %r" % (raw,)
            s, back = raw
            if d == 0 and not fast:
                want = ""
            else:
                # the live arc whose table entry is d-th smallest
                want = NUC[sorted(pattern, key=lambda j: perm[j])[d]]
            if s != want:
                return "digit %d at pattern %r under row %r emitted %r, rank selection gives %r" % (d, pattern, perm, s, want)
            if back != bits:
                return "decode returned %r for bits %r" % (back, bits)
            return None
        return Case(stream, p, call, impl, oracle, nontrivial=True, tags=["fast=%d" % fast, "deg=%d" % r])
    k, seed = p["k"], p["seed"]

    def run():
        # the same seed as a built-in int and as NumPy integer scalars (what numpy.arange / a NumPy draw hands over): one table
        forms = [seed, np.int64(seed), np.uint32(seed), np.uint64(seed)] if seed < 2 ** 32 else [seed]
        s1 = forms[(k + seed) % len(forms)]
        s2 = forms[(k + seed + 1) % len(forms)]
        if (k * 7 + seed) % 3 == 0:
            # an earlier call for the SAME table that dies half-way (progress output to a stream that breaks: a closed pipe, a console
            # that cannot encode the bar): whatever it leaves behind must not change what the next call returns
            import sys

            class Broken:
                def __init__(self, ok):
                    self.ok = ok

                def write(self, x):
                    self.ok -= 1
                    if self.ok < 0:
                        raise BrokenPipeError("progress stream closed")
                    return len(x)

                def flush(self):
                    pass
            old_out = sys.stdout
            sys.stdout = Broken(1 + (seed % 5))
            try:
                dsw.create_random_shuffles(observed_length=k, random_seed=s1, verbose=True)
            except BrokenPipeError:
                pass
            finally:
                sys.stdout = old_out
        first = gen.api("create_random_shuffles", observed_length=k, random_seed=s1)
        a = first.copy()
        first[...] = 0                 # the returned table belongs to the caller: overwriting it must not affect later calls
        np.random.random(size=3)       # disturb the global random state between the two calls
        b = gen.api("create_random_shuffles", observed_length=k, random_seed=s2)
        return a, b

    def oracle(ans, raw):
        if isinstance(raw, BaseException):
            return "raised %r" % (raw,)
        a, b = raw
        if a.shape != (4 ** k, 4):
            return "shape %r" % (a.shape,)
        if any(sorted(r) != [0, 1, 2, 3] for r in a.tolist()):
            return "a row is not a permutation of 0..3"
        if a.tolist() != b.tolist():
            return "same seed, different table"
        if k == 2 and seed == 2021 and a.tolist() != DOCTEST_2021:
            return "seed 2021 does not give the documented table"
        return None
    # the model: NumPy's MT19937 seeded with `seed`, its 32-bit draws, random_interval and the in-place shuffle (coq/MT19937.v)
    call = enc_call(55, k, seed) if 0 <= seed < 2 ** 32 else None
    return Case(stream, p, call, lambda: guard(run, lambda x: [[int(v) for v in x[0].reshape(-1)]]), oracle, nontrivial=k >= 2,
                tags=["k=%d" % k])
