"""C08 -- repair recovers the original strand for separated interior edits."""
import dsw
import gen
import repair_common as rc
from core import Case, Budget
from props.c07 import formula

ID = "C08"
PROOF_FILE = "Properties/C08.v"
THEOREMS = ["C08_single_substitution", "C08_single_insertion", "C08_single_deletion", "C08_multi"]
CONE = ["Proofs/Repair8MultiProofs.v", "Proofs/Repair8Proofs.v", "Proofs/RepairProofs.v", "Proofs/GeneratedProofs.v", "Proofs/GenerateProofs.v",
        "Proofs/WalkProofs.v", "Proofs/VTProofs.v", "Proofs/KmerProofs.v", "Repair.v", "Coder.v", "Graph.v",
        "RepairSpec.v", "GraphSpec.v", "Spec.v", "Py.v"]
MODEL_FUNCTIONS = ["repair_dna", "path_matching", "set_vt", "dna_to_number"]
RULE = ("graphs produced by the implementation's own graph generation, order 1..3 (thorough 4), thresholds 1..4; walks of length "
        "3k+2 .. 12k+4 from retained vertices; for each sampled walk EVERY single edit with position in [k, n-2k) (every "
        "position x substitution by each other nucleotide / insertion of each nucleotide / deletion), and random admissible "
        "edit sets of size 2..4 (pairwise >= 3k+2 apart), twin-window pairs, and PLANTED repeats of order 3..5 (a 2k+3..4k segment planted twice, the second copy optionally differing in exactly the symbol that is then substituted, the same edit at the same offset near the start of both copies, preferring substitutions noticed two or more symbols late); check absent or the check of the original walk; indel handling on "
        "(and off for substitution-only sets); heap 1e9.  Oracle: single edit detected exactly when the corrupted strand is "
        "no longer a walk; whenever detected == number of edits the original walk is among the candidates.  non-trivial = "
        "corrupted strand differs from the walk; distinct by payload")
TRUSTED_BASE = [
    "Coq 8.16.1 kernel (coqc); no native_compute",
    "Print Assumptions of every C08 theorem: Closed under the global context",
    "extraction (ExtrOcamlBasic only) + coq/extract/driver.ml + OCaml 4.13.1",
    "correspondence harness harness/core.py, harness/props/c08.py, harness/repair_common.py, harness/gen.py",
    "modelled, not verified: Python slice clamping, NumPy negative-row wrap, set / itertools.product",
]
ASSUMPTIONS = ["graph is legal and vertex-induced (what graph generation returns), k >= 1",
               "edit positions in [k, n-2k), pairwise at least 3k+2 apart"]
EXHAUSTIVE = {}
NUC = "ACGT"


def payloads(rng, tier):
    walks = {"quick": 10, "thorough": 150, "search": 8}[tier]
    multi = {"quick": 300, "thorough": 6000, "search": 200}[tier]
    kmax = {"quick": 3, "thorough": 4, "search": 2}[tier]

    def fresh():
        import numpy as np
        while True:
            k = rng.randint(1, kmax)
            mask = gen.random_mask(rng, k, rng.choice([0.6, 0.8, 0.9, 1.0]))
            t = rng.choice([1, 2, 2, 3])
            try:
                v, acc = dsw.connect_coding_graph(observed_length=k, vertices=np.array(mask, dtype=int), threshold=t)
            except ValueError:
                continue
            rows = acc.tolist()
            live = gen.live_vertices(rows)
            return k, rows, rng.choice(live)
    for _ in range(walks):
        k, rows, v0 = fresh()
        n = rng.randint(3 * k + 2, 8 * k + 4)
        w = gen.random_walk(rng, rows, v0, n)
        if len(w) != n:
            continue
        use_vt = rng.random() < 0.4
        for p in range(k, n - 2 * k):
            for c in NUC:
                if c != w[p]:
                    yield "single", {"k": k, "rows": rows, "v0": v0, "w": w, "edits": [["S", p, c]], "vt": use_vt,
                                     "indel": rng.random() < 0.7}
                yield "single", {"k": k, "rows": rows, "v0": v0, "w": w, "edits": [["I", p, c]], "vt": use_vt, "indel": True}
            yield "single", {"k": k, "rows": rows, "v0": v0, "w": w, "edits": [["D", p, w[p]]], "vt": use_vt, "indel": True}
    # graphs of order 8 (65 536 vertices: indices beyond 2^15, rows rebuilt from the seed; judged by the oracle only)
    for _ in range({"quick": 6, "thorough": 40, "search": 6}[tier]):
        seed = rng.randrange(1 << 30)
        rows = big_rows(seed)
        live = [v for v in (rng.randrange(32768, 65536), rng.randrange(65536), 65535, rng.randrange(32768, 65536), rng.randrange(65536))
                if any(x >= 0 for x in rows[v])]
        if not live:
            continue
        v0 = live[0]
        n = rng.randint(40, 70)
        w = gen.random_walk(rng, rows, v0, n)
        if len(w) != n:
            continue
        p = rng.randrange(8, n - 16)
        e = rng.choice("SID")
        c = rng.choice([x for x in NUC if x != w[p]]) if e != "D" else w[p]
        yield "single", {"k": 8, "big": seed, "rows": None, "v0": v0, "w": w, "edits": [[e, p, c]], "vt": rng.random() < 0.4,
                         "indel": True if e != "S" else rng.random() < 0.7}
    # one graph of order 9 (beyond every constant an implementation may have tuned for the orders in common use): a sweep of single
    # substitutions along one walk
    for _ in range({"quick": 1, "thorough": 3, "search": 1}[tier]):
        seed = rng.randrange(1 << 30)
        rows = big_rows(seed, 9)
        live = [v for v in (rng.randrange(4 ** 9) for _ in range(20)) if any(x >= 0 for x in rows[v])]
        if not live:
            continue
        n = 90
        w = gen.random_walk(rng, rows, live[0], n)
        if len(w) != n:
            continue
        for pos in range(9, n - 18, {"quick": 2, "thorough": 1, "search": 2}[tier]):
            c = rng.choice([x for x in NUC if x != w[pos]])
            yield "single", {"k": 9, "big": seed, "rows": None, "v0": live[0], "w": w, "edits": [["S", pos, c]], "vt": False,
                             "indel": pos % 3 != 0}
    # repetitive walks on small sparse graphs, with the same edit applied at two places whose surrounding 2k-1 windows
    # coincide while the symbol before the window differs
    twins = {"quick": 250, "thorough": 5000, "search": 100}[tier]
    for _ in range(twins):
        import numpy as np
        k = rng.choice([2, 2, 2, 3])
        mask = gen.random_mask(rng, k, rng.choice([0.35, 0.5, 0.65]))
        try:
            v, acc = dsw.connect_coding_graph(observed_length=k, vertices=np.array(mask, dtype=int), threshold=rng.choice([1, 1, 2]))
        except ValueError:
            continue
        rows = acc.tolist()
        v0 = rng.choice(gen.live_vertices(rows))
        n = rng.randint(8 * k + 6, 16 * k + 10)
        w = gen.random_walk(rng, rows, v0, n)
        if len(w) != n:
            continue
        pairs = [(a, b) for a in range(k, n - 2 * k) for b in range(a + 3 * k + 2, n - 2 * k)
                 if w[a - k + 1: a + k] == w[b - k + 1: b + k] and w[a - k] != w[b - k]]
        if not pairs:
            continue
        a, b = rng.choice(pairs)
        kind = rng.choice("SID")
        c = rng.choice([x for x in NUC if x != w[a]]) if kind == "S" else rng.choice(NUC)
        yield "multi", {"k": k, "rows": rows, "v0": v0, "w": w, "edits": [[kind, a, c], [kind, b, c]], "vt": rng.random() < 0.3,
                        "indel": True}
    # PLANTED repeats on larger orders (k = 3..5): a segment of the walk (2k+3 .. 4k symbols) is planted a second time further on
    # (the walk is re-grown after it), and the same edit is applied at the same offset of both copies: the two error sites agree
    # on a long window around the error and differ before it
    for _ in range({"quick": 1500, "thorough": 12000, "search": 1500}[tier]):
        import numpy as np
        k = rng.choice([3, 4, 4, 4, 4, 5])
        mask = gen.random_mask(rng, k, rng.choice([0.75, 0.85, 0.92]))
        if rng.random() < 0.6:
            try:
                f = gen.make_filter({"k": k, "run": rng.choice([2, 3]), "gc": None, "motifs": None})
                mask = [1 if f.valid(gen.kmer(v, k)) else 0 for v in range(4 ** k)]
            except ValueError:
                pass
        try:
            v, acc = dsw.connect_coding_graph(observed_length=k, vertices=np.array(mask, dtype=int), threshold=rng.choice([1, 2, 2]))
        except ValueError:
            continue
        rows = acc.tolist()
        v0 = rng.choice(gen.live_vertices(rows))
        m = rng.randint(2 * k + 3, 4 * k)
        head = gen.random_walk(rng, rows, v0, rng.randint(k, 2 * k) + m)
        if len(head) < m + k:
            continue
        a0 = len(head) - m
        seg = head[a0:]
        # the edit sits near the START of the planted segment, so that the symbols a few places before the error differ between
        # the two sites while everything from there up to k symbols behind the detection point agrees
        off = rng.randint(0, k) if rng.random() < 0.8 else rng.randint(k, m - k - 2)
        # in half of the cases the second copy differs from the first in exactly the symbol that is going to be edited: after
        # the same substitution the two CORRUPTED sites read the same although their repairs differ
        seg2 = seg
        if rng.random() < 0.6:
            y = rng.choice([x for x in NUC if x != seg[off]])
            seg2 = seg[:off] + y + seg[off + 1:]
        w = None
        for _try in range(30):
            mid = gen.random_walk(rng, rows, gen.end_vertex(rows, v0, head), rng.randint(k + 2, 3 * k + 4))
            cand = head + mid + seg2
            if len(mid) >= k + 2 and gen.is_walk(rows, v0, cand) and mid[-2:] != head[a0 - 2: a0]:
                tail = gen.random_walk(rng, rows, gen.end_vertex(rows, v0, cand), 2 * k + 2)
                if len(tail) == 2 * k + 2:
                    w = cand + tail
                    b0 = len(head) + len(mid)
                    break
        if w is None or b0 - a0 < 3 * k + 2:
            continue
        kind = rng.choice("SSSID") if seg2 == seg else "S"
        if kind == "S":
            free = [x for x in NUC if x != seg[off] and x != seg2[off]]
            # shape the input: prefer a substitution that both sites notice late (two or more symbols after the edit)

            def delay(pos, x):
                sx = w[:pos] + x + w[pos + 1:]
                v = v0
                for i, ch in enumerate(sx):
                    v = rows[v][NUC.index(ch)]
                    if v < 0:
                        return i - pos if i >= pos else -1
                return -1
            late = [x for x in free if delay(a0 + off, x) >= 2 and delay(b0 + off, x) >= 2]
            seen = [x for x in free if delay(a0 + off, x) >= 0 and delay(b0 + off, x) >= 0]
            if not seen and rng.random() < 0.9:
                continue
            c = rng.choice(late or seen or free)
        else:
            c = rng.choice(NUC)
        yield "multi", {"k": k, "rows": rows, "v0": v0, "w": w, "edits": [[kind, a0 + off, c], [kind, b0 + off, c]],
                        "vt": rng.random() < 0.3, "indel": kind != "S" or rng.random() < 0.5}
    for _ in range(multi):
        k, rows, v0 = fresh()
        m = rng.randint(2, 4)
        n = rng.randint(m * (3 * k + 2) + 3 * k, m * (3 * k + 2) + 8 * k + 6)
        w = gen.random_walk(rng, rows, v0, n)
        if len(w) != n:
            continue
        pos, p = [], k + rng.randint(0, 2)
        while len(pos) < m and p < n - 2 * k:
            pos.append(p)
            p += 3 * k + 2 + rng.randint(0, 3)
        if len(pos) < 2:
            continue
        subst_only = rng.random() < 0.3
        edits = []
        for q in pos:
            kind = "S" if subst_only else rng.choice("SID")
            c = rng.choice([x for x in NUC if x != w[q]]) if kind == "S" else rng.choice(NUC)
            edits.append([kind, q, c])
        yield "multi", {"k": k, "rows": rows, "v0": v0, "w": w, "edits": edits, "vt": rng.random() < 0.4,
                        "indel": (not subst_only) or rng.random() < 0.5}


_BIG = {}


def big_rows(seed, k=8):
    """an order-8 graph PRODUCED BY GRAPH GENERATION (the domain of C08): the coding graph the library builds for a random vertex
    mask of density 0.8 / 0.9 and threshold 1 or 2, rebuilt from the seed (the complete graph when that mask leaves nothing)"""
    if (seed, k) not in _BIG:
        _BIG.clear()
        import numpy as np
        r = np.random.RandomState(seed % (2 ** 32))
        mask = r.random_sample(4 ** k) < (0.9 if seed % 2 else 0.8)
        try:
            _, acc = dsw.connect_coding_graph(observed_length=k, vertices=mask, threshold=1 + (seed // 2) % 2)
            rows = np.asarray(acc, dtype=int).tolist()
        except ValueError:
            rows = [[(4 * v + j) % 4 ** k for j in range(4)] for v in range(4 ** k)]
        _BIG[(seed, k)] = rows
    return _BIG[(seed, k)]


def build(stream, p):
    k, rows, v0, w, edits = p["k"], p["rows"], p["v0"], p["w"], p["edits"]
    big = p.get("big") is not None
    if big:
        rows = big_rows(p["big"], k)
    s = rc.apply_edits(w, [tuple(e) for e in edits])
    vt = formula(w, 6) if p["vt"] else None
    call, impl = rc.repair_case_parts(rows, v0, k, s, vt, p["indel"], 1e9, no_call=big)

    def oracle(ans, raw):
        if isinstance(raw, BaseException):
            return "raised %r" % (raw,)
        cands, st = raw
        if s == w:
            return None
        walk = gen.is_walk(rows, v0, s)
        if len(edits) == 1:
            if (st[0] == 1) != (not walk):
                return "single edit %r: detected = %d but corrupted strand %s a walk" % (edits[0], st[0], "is" if walk else "is not")
        if st[0] == len(edits) and w not in cands:
            return "detected == number of edits (%d) but the original walk is not among the %d candidates" % (st[0], len(cands))
        return None
    return Case(stream, p, call, impl, oracle, domain=True, nontrivial=s != w,
                tags=[stream, "k=%d" % k, "vt=%d" % p["vt"], "indel=%d" % p["indel"]] + ["edit=" + e[0] for e in edits])
