"""C12 -- the local filter implements its documented window predicate."""
from fractions import Fraction

import os
import re
import subprocess
import tempfile

import dsw
import gen
from core import Case, enc_call, guard, s2c, run_model, COQ, VERIF

ID = "C12"
PROOF_FILE = "Properties/C12.v"
THEOREMS = ["C12_whole", "C12_last", "C12_last_is_final_window", "C12_local_global", "C12_revcomp", "C12_substring_test",
            "C12_constructor", "C12_float_window_rule", "C12_float_short_rule", "C12_float_filter_is_integer_filter"]
from axioms import FLOAT_ALLOWED as ALLOWED_AXIOMS, FLOAT_PATTERNS as ALLOWED_AXIOM_PATTERNS  # noqa
CONE = ["Proofs/FilterProofs.v", "Proofs/ThresholdProofs.v", "Proofs/FilterFloatProofs.v", "FilterFloat.v", "Filter.v", "Thresholds.v", "FilterSpec.v", "Spec.v", "Py.v"]
MODEL_FUNCTIONS = ["LocalBioFilter.__init__", "LocalBioFilter.valid"]
RULE = ("strings over ACGTNacgt- of length 0..3k (plus ACGT-only strings and reverse complements), configurations from a grid: "
        "k = 1..8, run limit absent / 1..k (incl. = k), GC range absent or from a grid with degenerate [x,x], [0,1], asymmetric "
        "and badly rounding 3-decimal values (0.55, 0.7, 0.8 ...), motif sets incl. palindromes; both only_last values; "
        "constructor acceptance for run limits and motif lengths around k.  Oracle: the documented predicate written with "
        "Fractions of the binary64 values (every count 0..k is compared against the exact threshold).  Metamorphic oracle "
        "checks: reverse complement, window conjunction.  Foreign-symbol stream: an accepted A/C/G/T string with one or two characters from a pool of newline, CR, NUL, blanks, regex metacharacters, case variants, IUPAC letters, digits and non-ASCII look-alikes inserted at the end / start / next-to-end / middle.  non-trivial = string of length >= 2; distinct by payload")
TRUSTED_BASE = [
    "Coq 8.16.1 kernel (coqc); vm_compute only in the non-vacuity example; no native_compute",
    "Print Assumptions: Closed under the global context for the seven theorems about the filter logic; the two theorems about "
    "the float -> integer threshold step (C12_float_window_rule, C12_float_short_rule) depend on axioms the standard library "
    "declares: Floats.FloatAxioms (specification of primitive binary64), Uint63 specification axioms, and through Flocq / Reals "
    "ClassicalDedekindReals.sig_not_dec, sig_forall_dec, functional_extensionality_dep, Classical_Prop.classic (harness/axioms.py)",
    "extraction (ExtrOcamlBasic only) + coq/extract/driver.ml + OCaml 4.13.1",
    "correspondence harness harness/core.py, harness/props/c12.py, harness/gen.py",
    "the integer thresholds handed to the model are floor/ceil of the same binary64 products the filter computes, evaluated "
    "by CPython; they are cross-checked against Coq's primitive floats (Thresholds.v, vm_compute) on a sample of (lo, hi, k) "
    "on every run and against the float comparisons at every count 0..k; the oracle recomputes them exactly with Fractions",
    "modelled, not verified: str slicing / in / count / replace / upper on ASCII, str * int",
]
ASSUMPTIONS = ["window length k >= 1", "motifs and strings are ASCII (str.upper on non-ASCII characters is not modelled)"]
EXHAUSTIVE = {}
NUC = "ACGT"
COMP = {"A": "T", "C": "G", "G": "C", "T": "A"}


def exact_pred(cfg, s, only_last):
    """the documented predicate, exact arithmetic on the binary64 values"""
    k = cfg["k"]
    obs = s[-k:] if only_last else s
    if any(c not in NUC for c in obs):
        return False
    if cfg["run"] is not None:
        r = cfg["run"]
        for n in NUC:
            if n * (1 + r) in obs:
                return False
    if cfg["motifs"] is not None:
        for m in cfg["motifs"]:
            rc = "".join(COMP.get(c, c.upper()) for c in reversed(m))
            if m in obs or rc in obs:
                return False
    if cfg["gc"] is not None:
        lo, hi = cfg["gc"]
        hik = Fraction(float(Fraction(hi) * k))          # correctly rounded product = IEEE multiplication
        lok = Fraction(float(Fraction(lo) * k))
        one_lo = float(Fraction(1) - Fraction(lo))
        atk = Fraction(float(Fraction(one_lo) * k))
        if len(obs) >= k:
            for i in range(len(obs) - k + 1):
                w = obs[i:i + k]
                g = w.count("C") + w.count("G")
                if g > hik or g < lok:
                    return False
        else:
            if obs.count("C") + obs.count("G") > hik:
                return False
            if obs.count("A") + obs.count("T") > atk:
                return False
    return True


def string(rng, k, acgt_only):
    n = rng.choice([0, 1, k - 1, k, k + 1, 2 * k, rng.randint(0, 3 * k)])
    alpha = NUC if acgt_only else "ACGT" * 6 + "Nacgt-"
    kind = rng.choice(["random", "random", "runs", "gcrich", "atrich"])
    if kind == "runs":
        out = ""
        while len(out) < n:
            out += rng.choice(NUC) * rng.randint(1, 4)
        return out[:n]
    if kind == "gcrich":
        return "".join(rng.choice("GGCCAT") for _ in range(n))
    if kind == "atrich":
        return "".join(rng.choice("AATTGC") for _ in range(n))
    return "".join(rng.choice(alpha) for _ in range(max(0, n)))


def payloads(rng, tier):
    n = {"quick": 3000, "thorough": 50000, "search": 3000}[tier]
    for _ in range(n):
        k = rng.randint(1, 8)
        cfg = gen.local_cfg(rng, k)
        acgt_only = rng.random() < 0.6
        yield "valid", {"cfg": cfg, "s": string(rng, k, acgt_only), "only_last": rng.random() < 0.4}
    # foreign symbols: an otherwise ACCEPTED pure-A/C/G/T string with one (sometimes two) characters outside the alphabet put
    # at the places where an alphabet test is most easily wrong: the very end, the very start, next to the end, the middle.
    # The pool has the characters that string / regex / bytes idioms treat specially (newline, CR, NUL, space, tab, regex
    # metacharacters), case variants, IUPAC codes, digits and non-ASCII look-alikes.
    pool = ["\n", "\n", "\n", "\r", "\0", " ", "\t", "\x0b", "\x0c", "\x1c", "\x85", "N", "U", "R", "a", "c", "g", "t", "n", ".", "*", "$",
            "^", "[", "]", "-", "\\", "|", "?", "0", "1", "4", "\u0410", "\uff21", "\u2028", "\u00a0", "\u0393"]
    for _ in range(n // 3):
        k = rng.randint(1, 8)
        cfg = gen.local_cfg(rng, k)
        base = ""
        for _try in range(12):
            base = string(rng, k, True)
            if exact_pred(cfg, base, False):
                break
        w = list(base)
        for _j in range(1 if rng.random() < 0.8 else 2):
            pos = rng.choice([len(w), len(w), len(w), 0, max(0, len(w) - 1), len(w) // 2, rng.randint(0, len(w))])
            w.insert(pos, rng.choice(pool))
        yield "valid", {"cfg": cfg, "s": "".join(w), "only_last": rng.random() < 0.4}
    # LONG strings (a vectorised path may only exist beyond some length) that are accepted except for one to three characters
    # outside the alphabet -- among them characters whose code point is A / C / G / T modulo 256 or modulo 65536 (a narrowing cast
    # would take them for nucleotides), lone surrogates and characters beyond the BMP
    alias = [chr(b + 256 * m) for b in (0x41, 0x43, 0x47, 0x54) for m in (1, 2, 4, 255, 256, 257, 4096)]
    for _ in range({"quick": 150, "thorough": 2500, "search": 100}[tier]):
        k = rng.randint(1, 8)
        cfg = gen.local_cfg(rng, k)
        L = rng.choice([127, 128, 129, 200, 256, 257, 400, 1000])
        unit = rng.choice(["ACGT", "AGCT", "ACTG", "TGCA", "AC", "GACT", "ATGC"])
        base = (unit * (L // len(unit) + 1))[:L]
        if not exact_pred(cfg, base, False):
            continue
        w = list(base)
        for _j in range(rng.choice([1, 1, 2, 3])):
            c = rng.choice(alias) if rng.random() < 0.7 else chr(rng.choice([rng.randrange(0x100, 0xD800), rng.randrange(0xE000, 0x110000),
                                                                            0xD800 + rng.randrange(0x800)]))
            w[rng.randrange(L)] = c
        yield "valid", {"cfg": cfg, "s": "".join(w), "only_last": rng.random() < 0.3}
        yield "valid", {"cfg": cfg, "s": base, "only_last": rng.random() < 0.3}
    # WIDE windows (256 nucleotides and more: counts that no longer fit eight bits) over strings of several windows
    for _ in range({"quick": 60, "thorough": 1000, "search": 40}[tier]):
        K = rng.choice([255, 256, 257, 300, 427, 512, 600, 1000])
        lo = rng.choice([0.0, 0.25, 0.4, 0.5])
        hi = rng.choice([x for x in (0.5, 0.6, 0.75, 1.0) if x >= lo])
        unit = rng.choice(["ACGT", "GCGA", "AATT", "GGCC", "ACG", "AGCTT", "GC", "AT"])
        L = rng.choice([K - 1, K, K + 1, 2 * K, 3 * K + 5])
        body = (unit * (L // len(unit) + 1))[:L]
        if rng.random() < 0.3 and L > 10:
            i = rng.randrange(L - 8)
            body = body[:i] + rng.choice(["GGGGGGGG", "AAAAAAAA", "ACACACAC"]) + body[i + 8:]
        yield "valid", {"cfg": {"k": K, "run": rng.choice([None, None, 3, 8]), "gc": [lo, hi], "motifs": None}, "s": body,
                        "only_last": rng.random() < 0.3}
    # the float -> integer threshold step: Coq primitive floats (Thresholds.v, vm_compute) against CPython
    grid = [0.0, 0.1, 0.2, 0.25, 0.3, 0.35, 0.4, 0.45, 0.5, 0.55, 0.6, 0.65, 0.7, 0.75, 0.8, 0.9, 1.0]
    for _ in range({"quick": 120, "thorough": 3000, "search": 40}[tier]):
        lo = rng.choice(grid + [round(rng.random(), 3)])
        hi = rng.choice([x for x in grid if x >= lo] + [lo, round(lo + (1 - lo) * rng.random(), 3)])
        yield "thresholds", {"lo": lo, "hi": hi, "k": rng.randint(1, 40)}
    yield "thresholds", {"lo": 0.8, "hi": 1.0, "k": 5}
    # systematic boundary strings: for every (lo, k) of the grid, strings of length k-1, k, k+1 and 2k whose G+C count sits at
    # and next to the lower / upper bound (where the window rule and the short-string rule may round differently)
    import math
    for k in range(1, {"quick": 12, "thorough": 24, "search": 6}[tier] + 1):
        for lo in grid:
            hi = rng.choice([x for x in grid if x >= lo])
            for g in sorted(set([math.ceil(lo * k), math.ceil(lo * k) - 1, math.floor(hi * k), math.floor(hi * k) + 1])):
                if 0 <= g <= k:
                    w = list("G" * g + "A" * (k - g))
                    rng.shuffle(w)
                    w = "".join(rng.choice("GC") if c == "G" else rng.choice("AT") for c in w)
                    for st in (w, w[:-1], w + rng.choice(NUC), w + w):
                        yield "valid", {"cfg": {"k": k, "run": None, "gc": [lo, hi], "motifs": None}, "s": st,
                                        "only_last": rng.random() < 0.5}
    for _ in range(n // 10):
        k = rng.randint(1, 6)
        yield "ctor", {"k": k, "run": rng.choice([None, k - 1, k, k + 1, 0]),
                       "motifs": rng.choice([None, ["A" * (k - 1) + "C"], ["A" * k], ["A" * (k + 1)], ["AC", "G" * (k + 1)]])}


def build(stream, p):
    if stream == "thresholds":
        lo, hi, k = p["lo"], p["hi"], p["k"]
        cfg = {"k": k, "run": None, "gc": [lo, hi], "motifs": None}
        call = {"lo": float(lo).hex(), "hi": float(hi).hex(), "k": k}
        impl = lambda: guard(lambda: list(gen.thresholds(cfg)), lambda r: [r])

        def oracle(ans, raw):
            # the integer thresholds must reproduce the filter's three float comparisons for every count 0..k
            f = gen.make_filter(cfg)
            gmin, gmax, amax = raw
            for g in range(k + 1):
                if (g > hi * k) != (g > gmax) or (g < lo * k) != (g < gmin) or (g > (1 - lo) * k) != (g > amax):
                    return "integer thresholds %r do not reproduce the float comparisons at count %d" % (raw, g)
            return None
        return Case(stream, p, call, impl, oracle, nontrivial=True, tags=["thresholds"])
    if stream == "ctor":
        cfg = {"k": p["k"], "run": p["run"], "gc": None, "motifs": p["motifs"]}
        h, ms = gen.enc_cfg(cfg)
        call = enc_call(42, h, ms)

        def run():
            try:
                gen.make_filter(cfg)
                return 1
            except ValueError:
                return 0
        impl = lambda: guard(run, lambda r: [[r]])

        def oracle(ans, raw):
            want = int((cfg["run"] is None or cfg["run"] <= cfg["k"]) and
                       (cfg["motifs"] is None or all(len(m) <= cfg["k"] for m in cfg["motifs"])))
            return None if raw == want else "constructor %s, documented validation says %s" % (raw, want)
        return Case(stream, p, call, impl, oracle, nontrivial=True, tags=["ctor"])
    cfg, s, only_last = p["cfg"], p["s"], p["only_last"]
    k = cfg["k"]
    h, ms = gen.enc_cfg(cfg)
    call = enc_call(41, h, ms, int(only_last), s2c(s))
    try:
        f = gen.make_filter(cfg)
    except ValueError:
        f = None
    if f is None:
        return Case(stream, p, None, lambda: ([[0]], None), None, domain=False, nontrivial=False, tags=["rejected-cfg"])
    impl = lambda: guard(lambda: int(bool(f.valid(s, only_last=only_last))), lambda r: [[r]])

    def oracle(ans, raw):
        if isinstance(raw, BaseException):
            return "raised %r" % (raw,)
        want = int(exact_pred(cfg, s, only_last))
        if raw != want:
            return "verdict %d, documented predicate gives %d" % (raw, want)
        if only_last and raw != int(bool(f.valid(s[-k:], only_last=False))):
            return "last-window verdict differs from the whole-sequence verdict of the final window"
        if not only_last and all(c in NUC for c in s) and (cfg["motifs"] is None or all(all(c in NUC for c in m) for m in cfg["motifs"])):
            rc = "".join(COMP[c] for c in reversed(s))
            if int(bool(f.valid(rc, only_last=False))) != raw:
                return "reverse complement %r gets a different verdict" % (rc,)
        decidable = (cfg["run"] is None or cfg["run"] < k) and (cfg["motifs"] is None or all(len(m) <= k for m in cfg["motifs"]))
        if not only_last and decidable and len(s) >= k:
            conj = all(f.valid(s[i:i + k], only_last=False) for i in range(len(s) - k + 1))
            if int(conj) != raw:
                return "whole-sequence verdict %d differs from the conjunction over all windows %d" % (raw, int(conj))
        return None
    return Case(stream, p, call, impl, oracle, domain=True, nontrivial=len(s) >= 2,
                tags=["k=%d" % k, "only_last=%d" % only_last, "run=%s" % (cfg["run"] is not None),
                      "gc=%s" % (cfg["gc"] is not None), "motifs=%s" % (cfg["motifs"] is not None)])


def shrink(stream, p):
    if stream == "valid":
        s = p["s"]
        for cand in (s[:-1], s[1:]):
            if len(cand) < len(s):
                yield dict(p, s=cand)


def MODEL_RUNNER(calls):
    """protocol lines go to the extracted model; threshold cases are evaluated by coqc (primitive floats, vm_compute)"""
    lines = [(i, c) for i, c in enumerate(calls) if isinstance(c, str)]
    ths = [(i, c) for i, c in enumerate(calls) if isinstance(c, dict)]
    out = [None] * len(calls)
    for (i, _), a in zip(lines, run_model([c for _, c in lines])):
        out[i] = a
    if ths:
        os.makedirs(os.path.join(VERIF, "work"), exist_ok=True)
        work = tempfile.mkdtemp(prefix="c12-", dir=os.path.join(VERIF, "work"))
        path = os.path.join(work, "Th.v")
        with open(path, "w") as f:
            f.write("From Coq Require Import ZArith List PrimFloat.\nFrom DSW Require Import Thresholds.\nImport ListNotations.\n"
                    "Open Scope Z_scope.\nDefinition t3 (x : Z * Z * Z) : list Z := let '(a, b, c) := x in [a; b; c].\n"
                    "Eval vm_compute in (flat_map t3 [\n")
            f.write(";\n".join("thresholds (%s)%%float (%s)%%float %d" % (c["lo"], c["hi"], c["k"]) for _, c in ths))
            f.write("]).\n")
        pr = subprocess.run(["timeout", "900", "coqc", "-Q", COQ, "DSW", "-o", path[:-2] + ".vo", path], stdout=subprocess.PIPE,
                            stderr=subprocess.STDOUT, universal_newlines=True, cwd=work)
        m = re.search(r"= \[([-0-9; \n]*)\]", pr.stdout)
        vals = [int(x) for x in re.sub(r"\s+", "", m.group(1)).split(";") if x] if m else []
        for j, (i, _) in enumerate(ths):
            out[i] = [[0], vals[3 * j: 3 * j + 3]] if len(vals) == 3 * len(ths) else [[8], pr.stdout[-200:]]
        subprocess.call(["rm", "-rf", work])
    return out
