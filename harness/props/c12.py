"""C12 -- the local filter implements its documented window predicate."""
from fractions import Fraction

import dsw
import gen
from core import Case, enc_call, guard, s2c

ID = "C12"
PROOF_FILE = "Properties/C12.v"
THEOREMS = ["C12_whole", "C12_last", "C12_last_is_final_window", "C12_local_global", "C12_revcomp", "C12_substring_test",
            "C12_constructor"]
CONE = ["Proofs/FilterProofs.v", "Filter.v", "FilterSpec.v", "Spec.v", "Py.v"]
MODEL_FUNCTIONS = ["LocalBioFilter.__init__", "LocalBioFilter.valid"]
RULE = ("strings over ACGTNacgt- of length 0..3k (plus ACGT-only strings and reverse complements), configurations from a grid: "
        "k = 1..8, run limit absent / 1..k (incl. = k), GC range absent or from a grid with degenerate [x,x], [0,1], asymmetric "
        "and badly rounding 3-decimal values (0.55, 0.7, 0.8 ...), motif sets incl. palindromes; both only_last values; "
        "constructor acceptance for run limits and motif lengths around k.  Oracle: the documented predicate written with "
        "Fractions of the binary64 values (every count 0..k is compared against the exact threshold).  Metamorphic oracle "
        "checks: reverse complement, window conjunction.  non-trivial = string of length >= 2; distinct by payload")
TRUSTED_BASE = [
    "Coq 8.16.1 kernel (coqc); vm_compute only in the non-vacuity example; no native_compute",
    "Print Assumptions of every C12 theorem: Closed under the global context",
    "extraction (ExtrOcamlBasic only) + coq/extract/driver.ml + OCaml 4.13.1",
    "correspondence harness harness/core.py, harness/props/c12.py, harness/gen.py",
    "the integer thresholds handed to the model are floor/ceil of the same binary64 products the filter computes, evaluated "
    "by CPython (IEEE-754 multiplication and subtraction); the oracle recomputes them exactly with Fractions",
    "modelled, not verified: str slicing / in / count / replace / upper on ASCII, str * int",
]
ASSUMPTIONS = ["window length k >= 1", "motifs and strings are ASCII (str.upper on non-ASCII characters is not modelled)"]
EXHAUSTIVE = {}
NUC = "ACGT"
COMP = {"A": "T", "C": "G", "G": "C", "T": "A"}


def exact_pred(cfg, s, only_last):
    """the documented predicate, exact arithmetic on the binary64 values"""
    k = cfg["k"]
    obs = s[-k:] if only_last else s
    if any(c not in NUC for c in obs):
        return False
    if cfg["run"] is not None:
        r = cfg["run"]
        for n in NUC:
            if n * (1 + r) in obs:
                return False
    if cfg["motifs"] is not None:
        for m in cfg["motifs"]:
            rc = "".join(COMP.get(c, c.upper()) for c in reversed(m))
            if m in obs or rc in obs:
                return False
    if cfg["gc"] is not None:
        lo, hi = cfg["gc"]
        hik = Fraction(float(Fraction(hi) * k))          # correctly rounded product = IEEE multiplication
        lok = Fraction(float(Fraction(lo) * k))
        one_lo = float(Fraction(1) - Fraction(lo))
        atk = Fraction(float(Fraction(one_lo) * k))
        if len(obs) >= k:
            for i in range(len(obs) - k + 1):
                w = obs[i:i + k]
                g = w.count("C") + w.count("G")
                if g > hik or g < lok:
                    return False
        else:
            if obs.count("C") + obs.count("G") > hik:
                return False
            if obs.count("A") + obs.count("T") > atk:
                return False
    return True


def string(rng, k, acgt_only):
    n = rng.choice([0, 1, k - 1, k, k + 1, 2 * k, rng.randint(0, 3 * k)])
    alpha = NUC if acgt_only else "ACGT" * 6 + "Nacgt-"
    kind = rng.choice(["random", "random", "runs", "gcrich", "atrich"])
    if kind == "runs":
        out = ""
        while len(out) < n:
            out += rng.choice(NUC) * rng.randint(1, 4)
        return out[:n]
    if kind == "gcrich":
        return "".join(rng.choice("GGCCAT") for _ in range(n))
    if kind == "atrich":
        return "".join(rng.choice("AATTGC") for _ in range(n))
    return "".join(rng.choice(alpha) for _ in range(max(0, n)))


def payloads(rng, tier):
    n = {"quick": 3000, "thorough": 50000, "search": 3000}[tier]
    for _ in range(n):
        k = rng.randint(1, 8)
        cfg = gen.local_cfg(rng, k)
        acgt_only = rng.random() < 0.6
        yield "valid", {"cfg": cfg, "s": string(rng, k, acgt_only), "only_last": rng.random() < 0.4}
    for _ in range(n // 10):
        k = rng.randint(1, 6)
        yield "ctor", {"k": k, "run": rng.choice([None, k - 1, k, k + 1, 0]),
                       "motifs": rng.choice([None, ["A" * (k - 1) + "C"], ["A" * k], ["A" * (k + 1)], ["AC", "G" * (k + 1)]])}


def build(stream, p):
    if stream == "ctor":
        cfg = {"k": p["k"], "run": p["run"], "gc": None, "motifs": p["motifs"]}
        h, ms = gen.enc_cfg(cfg)
        call = enc_call(42, h, ms)

        def run():
            try:
                gen.make_filter(cfg)
                return 1
            except ValueError:
                return 0
        impl = lambda: guard(run, lambda r: [[r]])

        def oracle(ans, raw):
            want = int((cfg["run"] is None or cfg["run"] <= cfg["k"]) and
                       (cfg["motifs"] is None or all(len(m) <= cfg["k"] for m in cfg["motifs"])))
            return None if raw == want else "constructor %s, documented validation says %s" % (raw, want)
        return Case(stream, p, call, impl, oracle, nontrivial=True, tags=["ctor"])
    cfg, s, only_last = p["cfg"], p["s"], p["only_last"]
    k = cfg["k"]
    h, ms = gen.enc_cfg(cfg)
    call = enc_call(41, h, ms, int(only_last), s2c(s))
    try:
        f = gen.make_filter(cfg)
    except ValueError:
        f = None
    if f is None:
        return Case(stream, p, None, lambda: ([[0]], None), None, domain=False, nontrivial=False, tags=["rejected-cfg"])
    impl = lambda: guard(lambda: int(bool(f.valid(s, only_last=only_last))), lambda r: [[r]])

    def oracle(ans, raw):
        if isinstance(raw, BaseException):
            return "raised %r" % (raw,)
        want = int(exact_pred(cfg, s, only_last))
        if raw != want:
            return "verdict %d, documented predicate gives %d" % (raw, want)
        if only_last and raw != int(bool(f.valid(s[-k:], only_last=False))):
            return "last-window verdict differs from the whole-sequence verdict of the final window"
        if not only_last and all(c in NUC for c in s) and (cfg["motifs"] is None or all(all(c in NUC for c in m) for m in cfg["motifs"])):
            rc = "".join(COMP[c] for c in reversed(s))
            if int(bool(f.valid(rc, only_last=False))) != raw:
                return "reverse complement %r gets a different verdict" % (rc,)
        decidable = (cfg["run"] is None or cfg["run"] < k) and (cfg["motifs"] is None or all(len(m) <= k for m in cfg["motifs"]))
        if not only_last and decidable and len(s) >= k:
            conj = all(f.valid(s[i:i + k], only_last=False) for i in range(len(s) - k + 1))
            if int(conj) != raw:
                return "whole-sequence verdict %d differs from the conjunction over all windows %d" % (raw, int(conj))
        return None
    return Case(stream, p, call, impl, oracle, domain=all(ord(c) < 128 for c in s), nontrivial=len(s) >= 2,
                tags=["k=%d" % k, "only_last=%d" % only_last, "run=%s" % (cfg["run"] is not None),
                      "gc=%s" % (cfg["gc"] is not None), "motifs=%s" % (cfg["motifs"] is not None)])


def shrink(stream, p):
    if stream == "valid":
        s = p["s"]
        for cand in (s[:-1], s[1:]):
            if len(cand) < len(s):
                yield dict(p, s=cand)
