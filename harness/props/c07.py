"""C07 -- the path check is the documented VT function and sees every substitution."""
import numpy as np

import dsw
import gen
from core import Case, enc_call, guard, s2c, c2s

ID = "C07"
PROOF_FILE = "Properties/C07.v"
THEOREMS = ["C07_formula", "C07_values", "C07_length", "C07_total", "C07_empty", "C07_foreign", "C07_substitution",
            "C07_indel", "C07_decode_rejects"]
CONE = ["Proofs/VTProofs.v", "Proofs/KmerProofs.v", "Coder.v", "Convert.v", "Spec.v", "Py.v"]
MODEL_FUNCTIONS = ["set_vt", "number_to_dna", "decode (check comparison)"]
RULE = ("strands of length 0..200 (thorough ..1500) incl. empty, length 1, monotone runs, x check lengths 1..70 (1, 2, 5, 32, "
        "33, 34, 40 always present) against the closed formula in Python integers; for sampled strands EVERY single "
        "substitution and every single C/G/T insertion and deletion is decoded with the original check (must raise "
        "ValueError) on a complete or generated graph, both modes.  non-trivial = strand length >= 2; distinct by payload")
TRUSTED_BASE = [
    "Coq 8.16.1 kernel (coqc); vm_compute only in the non-vacuity example; no native_compute",
    "Print Assumptions of every C07 theorem: Closed under the global context",
    "extraction (ExtrOcamlBasic only) + coq/extract/driver.ml + OCaml 4.13.1",
    "correspondence harness harness/core.py, harness/props/c07.py, harness/gen.py",
    "modelled, not verified: numpy array/where/sum on int arrays, str.index, Python int %, ** (4 ** -1 = 0.25 for n = 0)",
]
ASSUMPTIONS = ["check length n >= 1 for the formula; strands over A,C,G,T (a foreign character is ValueError)"]
EXHAUSTIVE = {}
NUC = "ACGT"


def formula(s, n):
    vals = [NUC.index(c) for c in s]
    asc = sum(i for i in range(len(vals) - 1) if vals[i] < vals[i + 1]) % (4 ** (n - 1))
    tail = ""
    for _ in range(n - 1):
        tail = NUC[asc % 4] + tail
        asc //= 4
    return NUC[sum(vals) % 4] + tail


def strand(rng, maxlen):
    kind = rng.choice(["random", "random", "random", "empty", "one", "asc", "desc", "same"])
    n = rng.choice([0, 1, 2, 3, 8, 30, rng.randint(0, maxlen), rng.randint(0, maxlen)])
    if kind == "empty":
        return ""
    if kind == "one":
        return rng.choice(NUC)
    if kind == "asc":
        return "".join(sorted(rng.choice(NUC) for _ in range(n)))
    if kind == "desc":
        return "".join(sorted((rng.choice(NUC) for _ in range(n)), reverse=True))
    if kind == "same":
        return rng.choice(NUC) * n
    return "".join(rng.choice(NUC) for _ in range(n))


def payloads(rng, tier):
    n = {"quick": 1500, "thorough": 20000, "search": 1500}[tier]
    maxlen = {"quick": 200, "thorough": 1500, "search": 60}[tier]
    for s in ["", "A", "T", "AC", "CA", "TCTCTCT", "ACGT" * 10]:
        for vt in (1, 2, 5, 32, 33, 34, 40, 70):
            yield "set_vt", {"s": s, "n": vt}
    for ln in ([600, 2000, 20000, 100000] if tier != "search" else [600]):
        for vt in (10, 12, 17, 40):
            base = rng.choice(["AC", "ACGT", "AT", "CG"])
            st = (base * (ln // len(base) + 1))[:ln] if rng.random() < 0.5 else "".join(rng.choice(NUC) for _ in range(ln))
            yield "set_vt", {"s": st, "n": vt}
    # strands whose ascent-position sum exceeds 2^32 (from about 107 000 nt on), with checks longer than 17 symbols (4^17 = 2^34
    # divides nothing a 32-bit accumulator could hide): the position sum must be taken in unbounded integers
    for ln in ([130000, 180000] if tier != "search" else [130000]):
        for vt in (18, 40):
            st = ("ACGT" * (ln // 4 + 1))[:ln] if vt == 18 else "".join(rng.choice(NUC) for _ in range(ln))
            yield "set_vt", {"s": st, "n": vt}
    # strands just beyond 2^20 nucleotides in which EVERY position of one parity is an ascent (so that an ascent straddles every
    # block border of an implementation that scans in blocks, whatever power of two or ten the block size is)
    for pat, vt in ([("CA", 20), ("AC", 5)] if tier != "search" else [("CA", 20)]):
        yield "set_vt", {"s": pat * (2 ** 19 + 1), "n": vt}
    for _ in range(n):
        yield "set_vt", {"s": strand(rng, maxlen), "n": rng.choice([1, 1, 2, 3, 5, 8, 16, 32, 33, 34, 40, rng.randint(1, 70)])}
    for _ in range(n // 30):
        s = strand(rng, 20)
        i = rng.randint(0, len(s))
        yield "foreign", {"s": s[:i] + rng.choice(["N", "n", "a", "c", "g", "t", "U", "*", "é", "Ω"]) + s[i:], "n": rng.randint(1, 8)}
    # every single edit of sampled walks, decoded with the original check
    walks = {"quick": 12, "thorough": 150, "search": 6}[tier]
    for _ in range(walks):
        k = rng.choice([1, 2, 2, 3])
        if rng.random() < 0.4:
            rows = gen.complete(k)
        else:
            _, _, rows = gen.coding_graph(rng, k)
        live = gen.live_vertices(rows)
        v0 = rng.choice(live)
        w = gen.random_walk(rng, rows, v0, rng.randint(1, 14))
        vt = rng.choice([1, 2, 5, 33])
        faster = rng.random() < 0.3
        for i in range(len(w) + 1):
            for c in NUC:
                if i < len(w) and c != w[i]:
                    yield "edit", {"k": k, "rows": rows, "v0": v0, "w": w, "vt": vt, "faster": faster, "e": ["S", i, c]}
                if c != "A":
                    yield "edit", {"k": k, "rows": rows, "v0": v0, "w": w, "vt": vt, "faster": faster, "e": ["I", i, c]}
            if i < len(w) and w[i] != "A":
                yield "edit", {"k": k, "rows": rows, "v0": v0, "w": w, "vt": vt, "faster": faster, "e": ["D", i, w[i]]}


def build(stream, p):
    if stream in ("set_vt", "foreign"):
        s, n = p["s"], p["n"]
        call = enc_call(22, s2c(s), n)
        impl = lambda: guard(lambda: gen.api("set_vt", dna_sequence=gen.typed_str(s), vt_length=n), lambda r: [s2c(r)])

        def oracle(ans, raw):
            if stream == "foreign":
                return None if isinstance(raw, ValueError) else "foreign character gave %r instead of ValueError" % (raw,)
            if isinstance(raw, BaseException):
                return "raised %r" % (raw,)
            want = formula(s, n)
            if raw != want:
                return "set_vt returned %r, the documented function gives %r" % (raw, want)
            return None
        return Case(stream, p, call, impl, oracle, domain=True, nontrivial=len(s) >= 2,
                    tags=["n=%s" % ("1" if n == 1 else "2-32" if n <= 32 else ">=33"), "len<=%d" % (10 ** len(str(max(1, len(s)))))])
    rows, v0, w, vt, faster = p["rows"], p["v0"], p["w"], p["vt"], p["faster"]
    kind, i, c = p["e"]
    s2 = w[:i] + c + w[i + 1:] if kind == "S" else w[:i] + c + w[i:] if kind == "I" else w[:i] + w[i + 1:]
    L = 64

    def run():
        chk = dsw.set_vt(dna_sequence=w, vt_length=vt)
        try:
            dsw.decode(dna_sequence=s2, bit_length=L, accessor=gen.acc_array(rows), start_index=v0, is_faster=faster,
                       vt_check=chk)
        except ValueError:
            return "rejected"
        return "accepted"
    chk_model = formula(w, vt)
    call = enc_call(21, s2c(s2), L, gen.enc_acc(rows), v0, int(faster), gen.enc_opt_str(chk_model), [])
    impl = lambda: guard(run, lambda r: [])
    # the model's answer for a rejected strand is Raise ValueError; map the implementation's outcome to that form
    def impl2():
        a, r = impl()
        if r == "rejected":
            return [[1, 1]], r
        return a, r

    def oracle(ans, raw):
        if raw != "rejected":
            return "decode with the original check did not reject the single edit %r of %r: %r" % (p["e"], w, raw)
        return None
    return Case(stream, p, call, impl2, oracle, domain=True, nontrivial=len(w) >= 2, tags=["edit=" + kind, "fast=%d" % faster])
