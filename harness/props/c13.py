"""C13 -- vertex indices are k-mers and arcs are shift-append."""
import itertools

import numpy as np

import dsw
from core import Case, enc_call, guard, s2c, c2s

ID = "C13"
PROOF_FILE = "Properties/C13.v"
THEOREMS = ["C13_latters", "C13_formers", "C13_index_range", "C13_index_inj", "C13_index_surj", "C13_dna_to_number",
            "C13_pred_succ", "C13_column", "C13_complete", "C13_legal_complete", "C13_legal_valid_graph",
            "C13_legal_induced", "C13_legal_coding_graph", "C13_legal_from_matrix", "C13_legal_from_latter_map",
            "C13_legal_after_arc_removal"]
CONE = ["Proofs/KmerProofs.v", "Proofs/GraphProofs.v", "Proofs/LegalProofs.v", "Proofs/GenerateProofs.v", "Proofs/ReprProofs.v", "Proofs/ScoreProofs.v", "Kmer.v", "Convert.v", "Graph.v", "Spec.v", "Py.v"]
MODEL_FUNCTIONS = ["obtain_latters", "obtain_formers", "get_complete_accessor", "number_to_dna", "dna_to_number"]
RULE = ("every vertex of every order k <= 5 (thorough: k <= 7) and 2000 sampled vertices per k up to 12, for "
        "obtain_latters / obtain_formers / number_to_dna / dna_to_number; get_complete_accessor for k <= 5 (6); "
        "non-trivial = k >= 2; distinct by (function, k, vertex)")
TRUSTED_BASE = [
    "Coq 8.16.1 kernel (coqc); no native_compute",
    "Print Assumptions of every C13 theorem: Closed under the global context",
    "extraction (ExtrOcamlBasic only) + coq/extract/driver.ml + OCaml 4.13.1",
    "correspondence harness harness/core.py, harness/props/c13.py",
    "modelled, not verified: Python int arithmetic (//, %, **), list.append, int(4 ** (k - 1))",
]
ASSUMPTIONS = ["k >= 1 and 0 <= v < 4^k"]
EXHAUSTIVE = {"quick": False, "thorough": False}
NUC = "ACGT"


def kmer(v, k):
    return "".join(NUC[(v // 4 ** (k - 1 - i)) % 4] for i in range(k))


def index(s):
    x = 0
    for c in s:
        x = 4 * x + NUC.index(c)
    return x


def own(result):
    """what a call returns belongs to the caller: keep a copy for the comparison and overwrite the returned object in place,
    so that a library that hands out (or keeps) a reference to internal or cached state is exposed by a later call"""
    if isinstance(result, np.ndarray):
        keep = result.copy()
        if result.flags.writeable:
            result[...] = -1
        return keep
    keep = list(result)
    result[:] = [-1] * len(result)
    return keep


def payloads(rng, tier):
    kmax = {"quick": 5, "thorough": 7, "search": 4}[tier]
    for k in range(1, kmax + 1):
        for v in range(4 ** k):
            yield "latters", {"k": k, "v": v}
            yield "formers", {"k": k, "v": v}
            if k <= 4 or tier == "thorough":
                yield "n2d", {"k": k, "v": v}
                yield "d2n", {"k": k, "v": v}
    for k in range(kmax + 1, 13):
        for _ in range({"quick": 150, "thorough": 2000, "search": 50}[tier]):
            v = rng.randrange(4 ** k)
            for s in ("latters", "formers", "n2d", "d2n"):
                yield s, {"k": k, "v": v}
    for k in range(1, {"quick": 5, "thorough": 6, "search": 3}[tier] + 1):
        yield "complete", {"k": k}
        yield "complete", {"k": k, "again": 1}
    # complete accessors of higher order: checked against the vectorised shift formula (no model call: 4^k rows)
    for k in range(6, {"quick": 10, "thorough": 11, "search": 8}[tier] + 1):
        yield "complete_big", {"k": k}
    # ... and with progress output switched on (every order: the progress path may be written differently)
    for k in range(1, {"quick": 8, "thorough": 9, "search": 8}[tier] + 1):
        yield "complete_big", {"k": k, "verbose": 1}
    # calling conventions: the same questions asked positionally, by keyword, and by keyword in the other order, interleaved with
    # the transposed question (current and observed_length exchanged) -- every answer must be the formula's
    for _ in range({"quick": 40, "thorough": 400, "search": 40}[tier]):
        yield "conventions", {"k": rng.randint(1, 6), "v": rng.randint(0, 6), "seed": rng.randrange(1 << 30)}
    # the functions must still be right after graphs have been generated in the same process (shared / cached state)
    for _ in range({"quick": 12, "thorough": 120, "search": 6}[tier]):
        k = rng.randint(1, 4)
        yield "after_generation", {"k": k, "mask": [1 if rng.random() < 0.6 else 0 for _ in range(4 ** k)],
                                   "t": rng.choice([1, 2]), "v": rng.randrange(4 ** k)}


def build(stream, p):
    k = p["k"]
    v = p.get("v", 0)
    km = kmer(v, k)
    if stream == "complete_big":
        def run_big():
            if p.get("verbose"):
                import contextlib, io
                with contextlib.redirect_stdout(io.StringIO()):
                    a = own(dsw.get_complete_accessor(observed_length=k, verbose=True))
            else:
                a = own(dsw.get_complete_accessor(observed_length=k))
            n = 4 ** k
            rows = np.arange(n, dtype=np.int64).reshape(-1, 1)
            want = (4 * rows + np.arange(4, dtype=np.int64).reshape(1, -1)) % n
            return a.shape == (n, 4) and bool((np.asarray(a, dtype=np.int64) == want).all())
        return Case(stream, p, None, lambda: guard(run_big, lambda r: [[int(r)]], seconds=300),
                    lambda a, r: None if r is True else "complete accessor of order %d%s is not the shift-successor table: %r" % (k, " (verbose)" if p.get("verbose") else "", r),
                    domain=True, nontrivial=True, tags=["k=%d" % k])
    if stream == "conventions":
        def run_conv():
            import random as pyrandom
            r = pyrandom.Random(p["seed"])
            a, b = p["k"], p["v"]
            problems = []
            for _ in range(12):
                x, y = r.choice([(a, b), (b, a), (a, a), (b, b)])        # current = x, observed_length = y
                if y < 1:
                    continue
                fn = r.choice(["obtain_latters", "obtain_formers"])
                how = r.choice(["pos", "kw", "kw_rev", "mixed"])
                f = getattr(dsw, fn)
                if how == "pos":
                    got = f(x, y)
                elif how == "kw":
                    got = f(current=x, observed_length=y)
                elif how == "kw_rev":
                    got = f(observed_length=y, current=x)
                else:
                    got = f(x, observed_length=y)
                n = 4 ** y
                want = [(4 * x + j) % n for j in range(4)] if fn == "obtain_latters" else [x // 4 + j * (n // 4) for j in range(4)]
                if [int(t) for t in got] != [int(t) for t in want]:
                    problems.append("%s(current=%d, observed_length=%d) called %s gave %r, the formula gives %r" % (fn, x, y, how, list(got), want))
            # ... and what the graph builders compute afterwards in the same process must be what a fresh process computes
            for y in sorted({t for t in (a, b) if 1 <= t <= 4}):
                n = 4 ** y
                comp = np.asarray(dsw.get_complete_accessor(observed_length=y), dtype=np.int64)
                want = (4 * np.arange(n, dtype=np.int64).reshape(-1, 1) + np.arange(4, dtype=np.int64).reshape(1, -1)) % n
                if comp.shape != want.shape or not bool((comp == want).all()):
                    problems.append("get_complete_accessor(%d) after these calls is not the shift-successor table" % y)
            return problems
        return Case(stream, p, None, lambda: guard(run_conv, lambda r: [[len(r)]]),
                    lambda a, r: ("raised %r" % (r,)) if isinstance(r, BaseException) else (r[0] if r else None),
                    domain=True, nontrivial=True, tags=["conventions"])
    if stream == "after_generation":
        def run_after():
            mask = np.array(p["mask"], dtype=int)
            try:
                dsw.connect_valid_graph(observed_length=k, vertices=mask)
                dsw.connect_coding_graph(observed_length=k, vertices=mask, threshold=p["t"])
            except ValueError:
                pass
            # results handed out earlier belong to the caller: writing into them must not affect later results
            first = dsw.get_complete_accessor(observed_length=k)
            first[:] = -1
            l0 = dsw.obtain_latters(current=v, observed_length=k)
            l0[:] = [-1] * len(l0)
            f0 = dsw.obtain_formers(current=v, observed_length=k)
            f0[:] = [-1] * len(f0)
            lat = dsw.obtain_latters(current=v, observed_length=k)
            fo = dsw.obtain_formers(current=v, observed_length=k)
            comp = dsw.get_complete_accessor(observed_length=k)
            return [int(x) for x in lat], [int(x) for x in fo], [int(x) for x in comp.reshape(-1)]
        want_l = [index(km[1:] + c) for c in NUC]
        want_f = [index(c + km[:-1]) for c in NUC]
        want_c = [(4 * u + j) % 4 ** k for u in range(4 ** k) for j in range(4)]

        def oracle_after(ans, raw):
            if isinstance(raw, BaseException):
                return "raised %r" % (raw,)
            if raw[0] != want_l or raw[1] != want_f or raw[2] != want_c:
                return "after generating a graph of order %d: successors %r / predecessors %r / complete accessor differ from shift-append" % (k, raw[0], raw[1])
            return None
        return Case(stream, p, None, lambda: guard(run_after, lambda r: [r[0], r[1]]), oracle_after, domain=True,
                    nontrivial=k >= 2, tags=["k=%d" % k])
    if stream == "latters":
        call = enc_call(13, v, k)
        impl = lambda: guard(lambda: own(dsw.obtain_latters(current=v, observed_length=k)), lambda r: [[int(x) for x in r]])
        want = [index(km[1:] + c) for c in NUC]
    elif stream == "formers":
        call = enc_call(14, v, k)
        impl = lambda: guard(lambda: own(dsw.obtain_formers(current=v, observed_length=k)), lambda r: [[int(x) for x in r]])
        want = [index(c + km[:-1]) for c in NUC]
    elif stream == "n2d":
        call = enc_call(12, v, k)
        impl = lambda: guard(lambda: dsw.number_to_dna(decimal_number=v, dna_length=k), lambda r: [s2c(r)])
        want = km
    elif stream == "d2n":
        call = enc_call(10, s2c(km))
        impl = lambda: guard(lambda: dsw.dna_to_number(dna_sequence=km, is_string=False), lambda r: [[int(r)]])
        want = v
    else:
        call = enc_call(15, k)
        impl = lambda: guard(lambda: own(dsw.get_complete_accessor(observed_length=k)), lambda r: [[int(x) for x in r.reshape(-1)]])
        want = None

    def oracle(ans, raw):
        if isinstance(raw, BaseException):
            return "raised %r" % (raw,)
        if stream == "complete":
            n = 4 ** k
            if raw.shape != (n, 4):
                return "shape %r" % (raw.shape,)
            for u in range(n):
                ku = kmer(u, k)
                for j in range(4):
                    if int(raw[u][j]) != index(ku[1:] + NUC[j]):
                        return "entry (%d,%d) = %d is not the j-th shift successor" % (u, j, raw[u][j])
            return None
        got = list(raw) if isinstance(raw, list) else raw
        if got != want:
            return "returned %r, k-mer manipulation gives %r" % (got, want)
        if stream == "latters":
            # u is a predecessor of w exactly when w is a successor of u
            for w in got:
                if v not in dsw.obtain_formers(current=w, observed_length=k):
                    return "%d is a successor of %d but %d is not among its predecessors" % (w, v, v)
        return None

    return Case(stream, p, call, impl, oracle, domain=True, nontrivial=k >= 2, tags=["k=%d" % k])
