"""C03 -- the coding graph is the largest closed sub-graph, or a ValueError."""
import numpy as np

import dsw
import gen
from core import Case, enc_call, guard

ID = "C03"
PROOF_FILE = "Properties/C03.v"
THEOREMS = ["C03_thresholds_2_to_4", "C03_threshold_1", "C03_trimming", "C03_monotone", "C03_unique",
            "C03_latter_map_trimming", "C03_remove_useless", "C03_monotone_function", "C03_no_dead_end"]
CONE = ["Proofs/GenerateProofs.v", "Proofs/TrimMapProofs.v", "Proofs/ReprProofs.v", "Proofs/GraphProofs.v", "Proofs/KmerProofs.v", "Graph.v", "Kmer.v", "GraphSpec.v",
        "Spec.v", "Py.v"]
MODEL_FUNCTIONS = ["connect_coding_graph", "remove_useless", "latter_map_to_accessor", "accessor_to_latter_map",
                   "connect_valid_graph", "obtain_vertices", "obtain_latters", "obtain_formers"]
RULE = ("vertex masks of order 1..5 (quick: 3000 random masks at densities 0.2..0.97 x thresholds 1..4 x bool / 0-1 int dtype; "
        "thorough: ALL 65536 order-2 masks x thresholds 1..4, plus random masks of order 1, 3, 4, 5), chain masks of order 2..6 (consecutive k-mers of a random de Bruijn sequence of order k-1: out-degree-1 chains of up to 4^(k-1) vertices into a small branching core), funnel masks (equal-length sibling chains merging into an information-free sink beside a live core; trees hanging off a core), masks coming from "
        "LocalBioFilters; for every case the returned accessor and vertex description are compared with an independent "
        "greatest-fixed-point + reachability oracle written with Python sets, the input mask is checked to be unmodified, a "
        "random sub-mask is checked to give a sub-graph, and for t >= 2 the latter-map trimming (remove_useless through "
        "latter_map_to_accessor) is compared with the same graph.  non-trivial = result is neither empty nor the whole "
        "mask; distinct by (k, mask, t)")
TRUSTED_BASE = [
    "Coq 8.16.1 kernel (coqc); vm_compute only in the non-vacuity example; no native_compute",
    "Print Assumptions of every C03 theorem: Closed under the global context",
    "extraction (ExtrOcamlBasic only) + coq/extract/driver.ml + OCaml 4.13.1",
    "correspondence harness harness/core.py, harness/props/c03.py, harness/gen.py (independent fixed-point oracle)",
    "modelled, not verified: numpy where/sum/zeros/ones/boolean masks and in-place row assignment, dict iteration order "
    "in remove_useless (insertion order, modelled as an association list)",
]
ASSUMPTIONS = ["masks have one 0/1 entry per vertex", "k >= 1"]
EXHAUSTIVE = {"thorough": True}


def payloads(rng, tier):
    n = {"quick": 3000, "thorough": 12000, "search": 2000}[tier]
    kmax = {"quick": 4, "thorough": 5, "search": 3}[tier]
    fixed = [[1, 1, 0, 0, 1, 1, 0, 0, 0, 0, 0, 0, 0, 0, 0, 1], [1, 1, 1, 0, 0, 1, 0, 0, 0, 0, 0, 0, 1, 0, 0, 0],
             [0, 1, 1, 0, 1, 0, 0, 1, 1, 0, 0, 1, 0, 1, 1, 0], [0] * 16, [1] * 16]
    for m in fixed:
        for t in (1, 2, 3, 4):
            yield "coding_graph", {"k": 2, "mask": m, "t": t, "dtype": "int"}
    # structured masks: a closed core (every k-mer over a sub-alphabet of d letters: exactly d^k vertices, out-degree d) plus
    # a few extra vertices that have to be trimmed away - the smallest possible closed graphs for each threshold
    for _ in range({"quick": 400, "thorough": 4000, "search": 200}[tier]):
        k = rng.randint(1, min(kmax, 4))
        d = rng.randint(1, 4)
        letters = rng.sample(range(4), d)
        mask = [1 if all(((v // 4 ** i) % 4) in letters for i in range(k)) else 0 for v in range(4 ** k)]
        for v in rng.sample(range(4 ** k), rng.choice([0, 1, 1, 2, 3])):
            mask[v] = 1
        yield "coding_graph", {"k": k, "mask": mask, "t": rng.choice([1, d, d, max(1, d - 1), min(4, d + 1)]),
                               "dtype": rng.choice(["bool", "int"])}
    # chain masks: one long out-degree-1 chain (consecutive k-mers of a de Bruijn sequence of order k-1) running into a small
    # branching core -- the deepest trimming cascades / backward searches a mask of that order can produce (up to 4^(k-1) steps)
    for kk, cnt in {"quick": [(2, 20), (3, 40), (4, 40), (5, 30), (6, 3)], "thorough": [(2, 50), (3, 200), (4, 200), (5, 200), (6, 20)],
                    "search": [(3, 20), (4, 20), (5, 30), (6, 2)]}[tier]:
        for _ in range(cnt):
            yield "coding_graph", {"k": kk, "mask": gen.chain_mask(rng, kk), "t": rng.choice([1, 1, 1, 2]),
                                   "dtype": rng.choice(["bool", "int"])}
    # funnel masks (sibling chains of equal length merging into a doomed sink next to a live core) and trees hanging off a core:
    # several successors of one vertex lose their last arc in the same sweep of the threshold-1 cascade
    for i in range({"quick": 600, "thorough": 6000, "search": 500}[tier]):
        kk = rng.choice([2, 3, 3, 3, 4])
        yield "coding_graph", {"k": kk, "mask": gen.funnel_mask(rng, kk) if i % 4 else gen.core_with_tails(rng, kk),
                               "t": rng.choice([1, 1, 1, 2]), "dtype": rng.choice(["bool", "int"])}
    for i in range(n):
        k = rng.choice([1, 2, 2, 2, 3, 3, 4, 5][: kmax + 3])
        k = min(k, kmax)
        if rng.random() < 0.15:
            cfg = gen.local_cfg(rng, k)
            try:
                f = gen.make_filter(cfg)
                mask = [1 if f.valid(gen.kmer(v, k)) else 0 for v in range(4 ** k)]
            except ValueError:
                mask = gen.random_mask(rng, k)
            t = rng.choice([1, 1, 2, 2, 3, 4])
        else:
            # densities at which the trimming neither keeps everything nor removes everything (depends on the threshold)
            t = rng.choice([1, 1, 2, 2, 3, 4])
            dens = {1: [0.15, 0.25, 0.35, 0.5, 0.7], 2: [0.45, 0.55, 0.65, 0.75, 0.85], 3: [0.75, 0.85, 0.9, 0.95],
                    4: [0.9, 0.97, 1.0]}[t]
            mask = gen.random_mask(rng, k, rng.choice(dens + [rng.random()]))
        yield "coding_graph", {"k": k, "mask": mask, "t": t, "dtype": rng.choice(["bool", "int"])}
    if tier == "thorough":
        for m in range(65536):
            mask = [(m >> i) & 1 for i in range(16)]
            for t in (1, 2, 3, 4):
                yield "coding_graph", {"k": 2, "mask": mask, "t": t, "dtype": "int"}


def build(stream, p):
    k, mask, t = p["k"], p["mask"], p["t"]
    arr = np.array(mask, dtype=bool if p["dtype"] == "bool" else int)
    before = arr.copy()
    # a share of the masks (chosen by content) is handed over READ-ONLY (what numpy.frombuffer, a memory-mapped file or
    # setflags(write=False) gives): a function that never modifies its argument must not need to write to it
    import zlib
    if zlib.crc32(arr.tobytes()) % 4 == 0:
        arr.setflags(write=False)
    call = enc_call(51, k, mask, t)
    sub = [b if (i * 2654435761 + len(mask)) % 5 else 0 for i, b in enumerate(mask)]

    def run():
        try:
            v, acc = gen.api("connect_coding_graph", observed_length=k, vertices=arr, threshold=t)
            desc = [int(x) for x in v] if t == 1 else [int(i) for i in np.where(np.asarray(v) != 0)[0]]
            main = (desc, acc)
        except ValueError:
            main = None
        # the second implementation (latter maps), on the valid graph of the same mask
        second = None
        if any(mask):
            valid = dsw.connect_valid_graph(observed_length=k, vertices=np.array(mask, dtype=int))
            second = gen.api("latter_map_to_accessor", latter_map=dsw.accessor_to_latter_map(valid), observed_length=k, threshold=t)
        # a smaller mask
        try:
            _, acc2 = dsw.connect_coding_graph(observed_length=k, vertices=np.array(sub, dtype=int), threshold=t)
            smaller = set(int(i) for i in np.where((acc2 >= 0).any(axis=1))[0])
        except ValueError:
            smaller = set()
        return main, second, smaller

    def enc(r):
        main, second, _ = r
        a = [[0], [], []] if main is None else [[1], main[0], [int(x) for x in main[1].reshape(-1)]]
        b = [[]] if second is None else [[int(x) for x in second.reshape(-1)]]
        return a + b
    impl = lambda: guard(run, enc)

    def oracle(ans, raw):
        if isinstance(raw, BaseException):
            return "raised %r" % (raw,)
        main, second, smaller = raw
        x = gen.closed_sets(k, mask, t)
        if (arr != before).any() or arr.dtype != before.dtype:
            return "the input mask was modified"
        if not x:
            if main is not None:
                return "largest closed sub-graph is empty but a graph was returned"
        else:
            if main is None:
                return "ValueError although the largest closed sub-graph has %d vertices" % len(x)
            desc, acc = main
            live = set(int(i) for i in np.where((acc >= 0).any(axis=1))[0])
            if live != x:
                return "vertices with arcs %r differ from the largest closed set %r" % (sorted(live)[:20], sorted(x)[:20])
            if set(desc) != x:
                return "vertex description does not denote the vertices with arcs"
            want = gen.induced(k, [1 if v in x else 0 for v in range(4 ** k)])
            if acc.tolist() != want:
                return "accessor is not the vertex-induced sub-graph on the retained vertices"
        if not smaller <= x:
            return "a smaller mask gave a vertex outside the graph of the larger mask"
        if t >= 2 and second is not None:
            want = gen.induced(k, [1 if v in x else 0 for v in range(4 ** k)])
            if second.tolist() != want:
                return "trimming the latter map to threshold %d gives a different graph" % t
        return None
    nt = None
    return Case(stream, p, call, impl, oracle, domain=True,
                nontrivial=0 < len(gen.closed_sets(k, mask, t)) < sum(mask), tags=["k=%d" % k, "t=%d" % t, "dtype=" + p["dtype"]])


def shrink(stream, p):
    m = p["mask"]
    for i, b in enumerate(m):
        if b:
            yield dict(p, mask=m[:i] + [0] + m[i + 1:])
