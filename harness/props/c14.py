"""C14 -- the three graph representations are interchangeable."""
import numpy as np

import dsw
import gen
from core import Case, enc_call, guard

ID = "C14"
PROOF_FILE = "Properties/C14.v"
THEOREMS = ["C14_vertices", "C14_latter_map_content", "C14_latter_map_roundtrip", "C14_matrix_content",
            "C14_matrix_roundtrip", "C14_matrix_reject", "C14_leaves_agree", "C14_leaves_are_walk_ends"]
CONE = ["Proofs/ReprProofs.v", "Proofs/KmerProofs.v", "Graph.v", "Kmer.v", "GraphSpec.v", "Spec.v", "Py.v"]
MODEL_FUNCTIONS = ["accessor_to_latter_map", "latter_map_to_accessor", "accessor_to_adjacency_matrix",
                   "adjacency_matrix_to_accessor", "obtain_vertices", "obtain_leaf_vertices"]
RULE = ("random arc subsets of the de Bruijn graph (densities 0..1, incl. the empty and the complete graph) of order 1..4 "
        "(thorough 5; adjacency matrix: order <= 3, thorough 4): latter map, round trips, matrix, vertex listing, leaf "
        "queries of depth 0..4 from every representation, and of depth up to 4k+8 on cycle-trap graphs (disjoint short cycles that keep only their cycle arc, sparse feeders; at most 400 walks); matrices with one illegal arc (thorough: EVERY single illegal "
        "arc of order 2); both-arguments / no-argument error paths of obtain_leaf_vertices.  non-trivial = graph with at "
        "least one arc and one missing arc; distinct by payload")
TRUSTED_BASE = [
    "Coq 8.16.1 kernel (coqc); vm_compute only in the non-vacuity example; no native_compute",
    "Print Assumptions of every C14 theorem: Closed under the global context",
    "extraction (ExtrOcamlBasic only) + coq/extract/driver.ml + OCaml 4.13.1",
    "correspondence harness harness/core.py, harness/props/c14.py, harness/gen.py",
    "modelled, not verified: numpy boolean indexing / where / sum(axis) / tolist; dict insertion order; the legality test "
    "list(set(a) | set(b)) != b of adjacency_matrix_to_accessor relies on CPython's iteration order of small-int sets - "
    "the model states its intended meaning (ones are a subset of the shift successors) and the correspondence stream on "
    "legal and single-illegal-arc matrices is the evidence that CPython realises it; int(log(n)/log(4)) modelled as exact log4",
]
ASSUMPTIONS = ["accessors are legal (column j holds -1 or the j-th shift successor), order k >= 1"]
EXHAUSTIVE = {"thorough": True}


def payloads(rng, tier):
    n = {"quick": 500, "thorough": 5000, "search": 500}[tier]
    kmax = {"quick": 4, "thorough": 5, "search": 3}[tier]
    mmax = {"quick": 3, "thorough": 4, "search": 2}[tier]
    for _ in range(n):
        k = rng.randint(1, kmax)
        rows = gen.arc_subset(rng, k)
        yield "lmap", {"k": k, "rows": rows}
        yield "vertices", {"k": k, "rows": rows}
        v = rng.randrange(4 ** k)
        yield "leaves", {"k": k, "rows": rows, "v": v, "d": rng.randint(0, 4)}
    # deep leaf queries on cycle-trap graphs: the front keeps visiting the same few vertices with changing multiplicities
    for _ in range(n * 16):
        k = rng.choice([1, 2, 2, 2, 2, 2, 2, 3, 3])
        rows = gen.trap_graph(rng, k)
        live = [v for v in range(4 ** k) if sum(x >= 0 for x in rows[v]) >= 2] or [v for v in range(4 ** k) if any(x >= 0 for x in rows[v])] or [0]
        v = rng.choice(live)
        d, ends = 0, [v]
        dmax = rng.randint(k + 1, 4 * k + 8)
        while d < dmax:
            nxt = [x for u in ends for x in rows[u] if x >= 0]
            if len(nxt) > 400:
                break
            ends, d = nxt, d + 1
        yield "leaves", {"k": k, "rows": rows, "v": v, "d": d}
    for _ in range(n // 2):
        k = rng.randint(1, mmax)
        rows = gen.arc_subset(rng, k)
        yield "matrix", {"k": k, "rows": rows}
        u = rng.randrange(4 ** k)
        bad = [v for v in range(4 ** k) if v not in gen.latters(u, k)]
        if bad:
            yield "illegal", {"k": k, "rows": rows, "u": u, "v": rng.choice(bad)}
    yield "leaf_errors", {"which": "both"}
    yield "leaf_errors", {"which": "none"}
    if tier == "thorough":
        rows = gen.complete(2)
        for u in range(16):
            for v in range(16):
                if v not in gen.latters(u, 2):
                    yield "illegal", {"k": 2, "rows": [[-1] * 4 for _ in range(16)], "u": u, "v": v}
                    yield "illegal", {"k": 2, "rows": rows, "u": u, "v": v}


def lmap_of(rows):
    return {v: [x for x in r if x >= 0] for v, r in enumerate(rows) if any(x >= 0 for x in r)}


def build(stream, p):
    if stream == "leaf_errors":
        acc = gen.acc_array(gen.complete(1))
        if p["which"] == "both":
            f = lambda: dsw.obtain_leaf_vertices(0, 1, accessor=acc, latter_map={0: [0]})
        else:
            f = lambda: dsw.obtain_leaf_vertices(0, 1)
        return Case(stream, p, None, lambda: guard(f, lambda r: []),
                    lambda a, r: None if isinstance(r, ValueError) else "expected ValueError, got %r" % (r,), nontrivial=False)
    k, rows = p["k"], p["rows"]
    arr = gen.acc_array(rows)
    nt = any(x >= 0 for r in rows for x in r) and any(x < 0 for r in rows for x in r)
    tags = ["k=%d" % k]
    if stream == "lmap":
        def run():
            m = dsw.accessor_to_latter_map(gen.acc_array(rows, reuse=len(rows) % 3 == 1))
            back = gen.api("latter_map_to_accessor", latter_map=gen.lmap_dict(rows, reuse=True) if k % 2 else m, observed_length=k)
            return m, back
        call = enc_call(46, gen.enc_acc(rows), k)
        impl = lambda: guard(run, lambda r: [gen.enc_lmap({int(a): [int(x) for x in b] for a, b in sorted(r[0].items())}),
                                            [int(x) for x in r[1].reshape(-1)]])

        def oracle(ans, raw):
            if isinstance(raw, BaseException):
                return "raised %r" % (raw,)
            m, back = raw
            if {int(a): [int(x) for x in b] for a, b in m.items()} != lmap_of(rows):
                return "latter map differs from the live successors of the vertices that have any"
            if back.tolist() != rows:
                return "accessor -> latter map -> accessor is not the identity"
            return None
        return Case(stream, p, call, impl, oracle, nontrivial=nt, tags=tags)
    if stream == "vertices":
        call = enc_call(30, gen.enc_acc(rows))
        impl = lambda: guard(lambda: dsw.obtain_vertices(arr), lambda r: [[int(x) for x in r]])

        def oracle(ans, raw):
            if isinstance(raw, BaseException):
                return "raised %r" % (raw,)
            if [int(x) for x in raw] != [v for v, r in enumerate(rows) if any(x >= 0 for x in r)]:
                return "vertex listing differs from the vertices with arcs"
            return None
        return Case(stream, p, call, impl, oracle, nontrivial=nt, tags=tags)
    if stream == "leaves":
        v, d = p["v"], p["d"]

        def run():
            # long-lived argument objects, refilled in place: answers must follow the current content
            reuse = (v + d) % 2 == 0
            a = gen.api("obtain_leaf_vertices", vertex_index=v, depth=d, accessor=gen.acc_array(rows, reuse=reuse))
            b = dsw.obtain_leaf_vertices(v, d, latter_map=gen.lmap_dict(rows, reuse=reuse))
            return a, b
        call = enc_call(47, gen.enc_acc(rows), v, d)
        impl = lambda: guard(run, lambda r: [[int(x) for x in r[0]], [int(x) for x in r[1]]])

        def oracle(ans, raw):
            if isinstance(raw, BaseException):
                return "raised %r" % (raw,)
            ends = [v]
            for _ in range(d):
                ends = [x for u in ends for x in rows[u] if x >= 0]
            a, b = sorted(int(x) for x in raw[0]), sorted(int(x) for x in raw[1])
            if a != sorted(ends) or b != sorted(ends):
                return "leaf multiset differs from the end points of all %d-step walks" % d
            return None
        return Case(stream, p, call, impl, oracle, nontrivial=nt and d > 0, tags=tags + ["depth=%d" % d])
    if stream == "matrix":
        def run():
            m = gen.api("accessor_to_adjacency_matrix", accessor=arr)
            return m, dsw.adjacency_matrix_to_accessor(m)
        call = enc_call(48, gen.enc_acc(rows))
        impl = lambda: guard(run, lambda r: [[int(x) for x in r[0].reshape(-1)], [int(x) for x in r[1].reshape(-1)]])

        def oracle(ans, raw):
            if isinstance(raw, BaseException):
                return "raised %r" % (raw,)
            m, back = raw
            n = 4 ** k
            want = [[1 if v in [x for x in rows[u] if x >= 0] else 0 for v in range(n)] for u in range(n)]
            if m.tolist() != want:
                return "matrix does not have a 1 exactly at the arcs"
            if back.tolist() != rows:
                return "accessor -> matrix -> accessor is not the identity"
            return None
        return Case(stream, p, call, impl, oracle, nontrivial=nt, tags=tags)
    # illegal: one arc that is not a de Bruijn shift
    u, v = p["u"], p["v"]
    n = 4 ** k
    mat = [[1 if w in [x for x in rows[a] if x >= 0] else 0 for w in range(n)] for a in range(n)]
    mat[u][v] = 1
    call = enc_call(35, [x for r in mat for x in r], n)
    impl = lambda: guard(lambda: dsw.adjacency_matrix_to_accessor(np.array(mat, dtype=int)), lambda r: [[int(x) for x in r.reshape(-1)]])
    oracle = lambda a, r: None if isinstance(r, ValueError) else "illegal arc %d->%d accepted: %r" % (u, v, r)
    return Case(stream, p, call, impl, oracle, nontrivial=True, tags=tags + ["illegal"])
