"""C10 -- repair always returns."""
import dsw
import gen
import repair_common as rc
from core import Case, Budget

ID = "C10"
PROOF_FILE = "Properties/C10.v"
THEOREMS = ["C10_total"]
CONE = ["Proofs/RepairProofs.v", "Proofs/WalkProofs.v", "Proofs/VTProofs.v", "Proofs/KmerProofs.v", "Repair.v", "Coder.v",
        "Convert.v", "RepairSpec.v", "GraphSpec.v", "Spec.v", "Py.v"]
MODEL_FUNCTIONS = ["repair_dna", "path_matching", "set_vt", "dna_to_number"]
RULE = ("graphs: generated coding graphs and arbitrary arc subsets of order 1..3 (thorough 4) with any row as start vertex "
        "(dead start vertices included); strands over ACGT of length k..40: walks, walks with 1..6 edits anywhere (first "
        "symbol, last window), random strings, strings of length exactly k; check absent / right / wrong; indel handling "
        "on/off; a closed walk repeated 40..1500 times (thorough 2500) with one uniquely repairable substitution per copy (up to ~50000 nt and as many detected errors as copies); heap limits 0.5, 1, 10, 1e3, 1e9.  The implementation runs under a row-read budget derived from the proved "
        "look-up bound; the observable is completion, the type/shape of the result and the full result compared with the "
        "model (candidates and the four statistics).  non-trivial = strand that is not a walk; distinct by payload")
TRUSTED_BASE = [
    "Coq 8.16.1 kernel (coqc); vm_compute only in the non-vacuity example; no native_compute",
    "Print Assumptions of C10_total: Closed under the global context",
    "extraction (ExtrOcamlBasic only) + coq/extract/driver.ml + OCaml 4.13.1",
    "correspondence harness harness/core.py, harness/props/c10.py, harness/repair_common.py, harness/gen.py",
    "modelled, not verified: Python slice clamping and NumPy negative-row wrap (Py.py_slice / Py.py_get), set / itertools.product "
    "(order-insensitive: the model uses sorted duplicate-free lists), float heap limit compared through floor()",
]
ASSUMPTIONS = ["the accessor has 4^k four-entry rows with in-range entries, start vertex is a row index",
               "strand over A,C,G,T at least k long"]
EXHAUSTIVE = {}
NUC = "ACGT"


GC = [[-1, -1, -1, -1], [4, -1, -1, 7], [8, -1, -1, 11], [-1, -1, -1, -1], [-1, 1, 2, -1], [-1, -1, -1, -1], [-1, -1, -1, -1],
      [-1, 13, 14, -1], [-1, 1, 2, -1], [-1, -1, -1, -1], [-1, -1, -1, -1], [-1, 13, 14, -1], [-1, -1, -1, -1], [4, -1, -1, 7],
      [8, -1, -1, 11], [-1, -1, -1, -1]]


def unique_error_block(rng):
    """(k, rows, v0, block, edited block): a closed walk from v0 of length >= 3k+2 and one substitution in it that the library
    repairs uniquely (checked on three copies with the library itself -- this only shapes the input)"""
    k, t, rows = rc.generated_graph(rng, 3)
    if k < 2:
        return None
    live = gen.live_vertices(rows)
    if not live:
        return None
    v0 = rng.choice(live)
    for _ in range(40):
        w, v = "", v0
        for step in range(60):
            nxt = [(j, x) for j, x in enumerate(rows[v]) if x >= 0]
            if not nxt:
                break
            j, v = rng.choice(nxt)
            w += NUC[j]
            if v == v0 and len(w) >= 3 * k + 4:
                break
        if v != v0 or len(w) < 3 * k + 4:
            continue
        for _e in range(12):
            i = rng.randrange(k, len(w) - k)
            c = rng.choice([x for x in NUC if x != w[i]])
            e = w[:i] + c + w[i + 1:]
            if gen.is_walk(rows, v0, e * 3):
                continue
            try:
                out = dsw.repair_dna(dna_sequence=e * 3, accessor=gen.acc_array(rows), start_index=v0, observed_length=k,
                                     has_indel=False)
            except Exception:  # noqa
                continue
            if list(out[0]) == [w * 3] and out[1][0] == 3:
                return k, rows, v0, w, e
    return None


def payloads(rng, tier):
    n = {"quick": 1500, "thorough": 25000, "search": 1500}[tier]
    kmax = {"quick": 3, "thorough": 4, "search": 2}[tier]
    # strands with many independent ambiguous errors: the number of candidate combinations is astronomically large
    # (2^m), the heap limit must stop the enumeration
    # ... m = 1100: 2^1100 exceeds the largest binary64 number (a count kept in a float would be inf)
    for m in ([3, 20, 62, 63, 64, 65, 1100] if tier != "search" else [3, 63, 1100]):
        yield "repair", {"k": 2, "rows": GC, "v0": 1, "s": "TCTCTATCTCTC" * m, "vt": "none", "indel": True,
                         "heap": 1e3, "kind": "ambiguous"}
    # strands with very MANY errors each of which has exactly one repair: a closed walk repeated R times with the same
    # substitution in every copy -- the candidate enumeration is reached with R factors of size one (deep products, long
    # fragment lists); R up to 1500 (33000 nt for a 22-nt block)
    made = 0
    for _try in range(60):
        if made >= {"quick": 3, "thorough": 8, "search": 2}[tier]:
            break
        blk = unique_error_block(rng)
        if blk is None:
            continue
        k, rows, v0, w, e = blk
        made += 1
        for R in {"quick": [40, 300, 1200], "thorough": [40, 300, 1200, 1500, 2500], "search": [1200]}[tier]:
            yield "repair", {"k": k, "rows": rows, "v0": v0, "s": e * R, "vt": rng.choice(["none", "none", "wrong"]),
                             "indel": False, "heap": 1e3, "kind": "manyunique"}
    for _ in range(n):
        if rng.random() < 0.6:
            k, t, rows = rc.generated_graph(rng, kmax)
        else:
            k = rng.randint(1, kmax)
            rows = gen.arc_subset(rng, k)
        live = gen.live_vertices(rows)
        v0 = rng.choice(live) if live and rng.random() < 0.8 else rng.randrange(len(rows))
        kind = rng.choice(["walk", "edited", "edited", "edited", "random", "len_k", "first", "lastwin"])
        L = rng.randint(k, 40)
        w = gen.random_walk(rng, rows, v0, L)
        if len(w) < k:
            w = w + "".join(rng.choice(NUC) for _ in range(k - len(w)))
        s = w
        if kind == "edited":
            for _ in range(rng.randint(1, 6)):
                i = rng.randrange(len(s) + 1)
                e = rng.choice("SID")
                if e == "S" and i < len(s):
                    s = s[:i] + rng.choice(NUC) + s[i + 1:]
                elif e == "D" and i < len(s) and len(s) > k:
                    s = s[:i] + s[i + 1:]
                else:
                    s = s[:i] + rng.choice(NUC) + s[i:]
        elif kind == "random":
            s = "".join(rng.choice(NUC) for _ in range(L))
        elif kind == "len_k":
            s = "".join(rng.choice(NUC) for _ in range(k))
        elif kind == "first":
            s = rng.choice(NUC) + w[1:]
        elif kind == "lastwin":
            i = rng.randrange(max(0, len(w) - k), len(w))
            s = w[:i] + rng.choice(NUC) + w[i + 1:]
        vk = rng.choice(["none", "none", "right", "wrong"])
        # the number of candidate combinations the code enumerates is bounded by the heap limit only; keep it small unless
        # the strand has few errors (the run time of that enumeration is not what C10 is about)
        few = kind in ("walk", "first", "lastwin", "len_k")
        yield "repair", {"k": k, "rows": rows, "v0": v0, "s": s, "vt": vk, "indel": rng.random() < 0.6,
                         "heap": rng.choice([0.5, 1, 10, 1e3, 1e3, 1e9] if few else [0.5, 1, 10, 1e3, 1e3, 5e3]), "kind": kind}


def build(stream, p):
    from props.c07 import formula
    k, rows, v0, s = p["k"], p["rows"], p["v0"], p["s"]
    vt = None
    if p["vt"] == "right":
        vt = formula(s, 3)
    elif p["vt"] == "wrong":
        good = formula(s, 3)
        vt = good[:-1] + NUC[(NUC.index(good[-1]) + 1) % 4]
    n = len(s)
    # proved bound on graph look-ups (C10_total), each look-up costs at most 3 row reads in the implementation
    budget = rc.read_budget(n, k)
    call, impl = rc.repair_case_parts(rows, v0, k, s, vt, p["indel"], p["heap"], budget)
    if n > 6000:
        call = None          # the extracted model is quadratic in the strand length: strands this long are judged by the oracle only

    def oracle(ans, raw):
        if isinstance(raw, Budget):
            return "repair did not return: %s (row-read budget %d, time budget 60 s)" % (raw, budget)
        if isinstance(raw, BaseException):
            return "raised %r" % (raw,)
        if not rc.well_typed(raw):
            return "result is not a (list of str, 4-tuple) pair: %r" % (raw,)
        if raw[1][3] > n * (1 + 16 * k * k):
            return "look-up counter %d exceeds the polynomial bound" % raw[1][3]
        return None
    return Case(stream, p, call, impl, oracle, domain=True, nontrivial=not gen.is_walk(rows, v0, s),
                tags=[p["kind"], "k=%d" % k, "vt=" + p["vt"], "indel=%d" % p["indel"], "heap=%g" % p["heap"]])


def shrink(stream, p):
    s = p["s"]
    if len(s) > p["k"]:
        yield dict(p, s=s[:-1])
        yield dict(p, s=s[1:])
