"""C01 -- encode then decode returns the original message."""
import numpy as np

import dsw
import gen
import coder_common as cc
from core import Case, enc_call, guard, s2c

ID = "C01"
PROOF_FILE = "Properties/C01.v"
THEOREMS = ["C01_normal", "C01_fast", "C01_roundtrip_normal_any_fuel", "C01_roundtrip_fast_any_fuel",
            "C01_on_generated_graphs"]
CONE = ["Proofs/ComposeProofs.v", "Proofs/CoderProofs.v", "Proofs/TerminationProofs.v", "Proofs/WalkProofs.v",
        "Proofs/ShuffleProofs.v", "Proofs/VTProofs.v", "Proofs/ConvertProofs.v", "Proofs/BignumProofs.v", "Coder.v",
        "Convert.v", "Bignum.v", "CoderSpec.v", "FastSpec.v", "GraphSpec.v", "Spec.v", "Py.v"]
MODEL_FUNCTIONS = ["encode", "decode", "set_vt", "bit_to_number", "number_to_bit", "calculus_division",
                   "calculus_multiplication", "calculus_addition"]
RULE = ("well-formed coding graphs of order 1..4: graphs generated for thresholds 1..4, arc subsets with mixed out-degrees "
        "1..4 obtained by deleting arcs while every reachable vertex stays live and reaches a branching vertex, complete "
        "graphs; every kind of live start vertex; messages of length 0..96 (thorough ..2048) biased to empty, all-zero, "
        "leading zeros, odd lengths, powers of two; tables: none / random permutation rows; check lengths 0,1,2,5,33,40; both "
        "modes (fast mode counted in the domain only without out-degree 3).  The observable is decode(encode(m)) and the "
        "exception type of either call.  Twin-message cases: the round trip under test is preceded by the round trip of a related message on the same graph (same length incl. 1001..1200 bits, same first/last bits, middle changed / two bits swapped / identical / edges flipped).  non-trivial = message with a 1 bit; distinct by payload")
TRUSTED_BASE = [
    "Coq 8.16.1 kernel (coqc); no native_compute",
    "Print Assumptions of every C01 theorem: Closed under the global context",
    "extraction (ExtrOcamlBasic only) + coq/extract/driver.ml + OCaml 4.13.1",
    "correspondence harness harness/core.py, harness/props/c01.py, harness/coder_common.py, harness/gen.py",
    "modelled, not verified: numpy where/argsort on distinct keys/fancy indexing/zeros, str concatenation, Python int arithmetic",
]
ASSUMPTIONS = ["the graph is well formed from the start vertex (every reachable vertex is live and reaches a branching vertex)",
               "table rows are permutations of 0..3", "message entries are 0/1"]
EXHAUSTIVE = {}


def payloads(rng, tier):
    n = {"quick": 1500, "thorough": 25000, "search": 1500}[tier]
    kmax = {"quick": 3, "thorough": 4, "search": 3}[tier]
    mlen = {"quick": 96, "thorough": 2048, "search": 48}[tier]
    for _ in range(n):
        k, kind, rows, v0 = cc.graph_case(rng, kmax)
        fast = rng.random() < 0.4
        if fast and cc.has_deg3(rows) and rng.random() < 0.8:
            # keep most fast-mode cases inside the domain: fall back to a graph without out-degree 3
            rows = gen.complete(k) if rng.random() < 0.5 else gen.coding_graph(rng, k, t=4)[2]
            v0 = rng.choice(gen.live_vertices(rows))
        bits = gen.message(rng, mlen if rng.random() < 0.2 else 64)
        table = gen.random_table(rng, len(rows)) if rng.random() < 0.5 else None
        yield "roundtrip", {"k": k, "rows": rows, "v0": v0, "bits": bits, "fast": fast, "table": table,
                            "vt": rng.choice([0, 0, 1, 2, 5, 33, 40]), "kind": kind, "reuse": rng.random() < 0.5}
    # messages whose PREFIX VALUES are "mantissa x power of ten" (m * 10^e, then a few more bits): the decimal arithmetic behind the
    # normal mode sees numerals with long runs of zeros, blocks equal to 5 * 10^17, 25 * 10^16 ... and carries that just do or just
    # do not happen -- what block-wise (9 / 18 digits at a time) big-number code gets wrong
    for e in range({"quick": 16, "thorough": 9, "search": 30}[tier], {"quick": 58, "thorough": 120, "search": 40}[tier]):
        for m in ([5, 15, 25, 125, 1, 3] if tier != "search" else [15, 5]):
            k, kind, rows, v0 = cc.graph_case(rng, min(kmax, 2))
            bits = [int(c) for c in bin(m * 10 ** e + rng.choice([0, 0, -1, -7, -30, 1]))[2:]] + [rng.randint(0, 1) for _ in range(rng.randint(1, 3))]
            yield "roundtrip", {"k": k, "rows": rows, "v0": v0, "bits": bits, "fast": False,
                                "table": gen.random_table(rng, len(rows)) if rng.random() < 0.3 else None,
                                "vt": rng.choice([0, 0, 2]), "kind": kind, "reuse": False}
    # twin messages: the call under test is preceded by a round trip of a RELATED message on the same graph (same length, same
    # first and last bits, same number of ones, different middle / identical / same middle and different edges) -- whatever a
    # function remembers about its previous argument through a lossy summary shows up here.  Lengths include > 1000 bits (where
    # NumPy abbreviates the text form of an array).
    for i in range({"quick": 60, "thorough": 600, "search": 40}[tier]):
        k, kind, rows, v0 = cc.graph_case(rng, min(kmax, 2) if i % 3 == 0 else kmax)
        fast = rng.random() < 0.3
        if fast and cc.has_deg3(rows):
            rows = gen.complete(k)
            v0 = rng.choice(gen.live_vertices(rows))
        L = rng.choice([8, 40, 64, 200, 1001, 1024, 1200]) if i % 3 == 0 else rng.choice([8, 16, 40, 64, 65, 128])
        bits = gen.message(rng, L)
        bits = bits + [rng.randint(0, 1) for _ in range(L - len(bits))]
        prev = list(bits)
        how = rng.choice(["middle", "middle", "middle", "swap", "same", "edges", "crc", "crc"])
        if how == "crc":
            prev = gen.checksum_twin(rng, bits) or prev
        if how == "middle" and L >= 8:
            a, b2 = sorted(rng.sample(range(3, L - 3), 2))
            for j in range(a, b2 + 1):
                prev[j] = rng.randint(0, 1)
            prev[a] = 1 - bits[a]
        elif how == "swap" and L >= 8:
            ones = [j for j in range(3, L - 3) if bits[j] == 1]
            zeros = [j for j in range(3, L - 3) if bits[j] == 0]
            if ones and zeros:
                x, y = rng.choice(ones), rng.choice(zeros)
                prev[x], prev[y] = 0, 1
        elif how == "edges":
            prev[0], prev[-1] = 1 - prev[0], 1 - prev[-1]
        table = gen.random_table(rng, len(rows)) if rng.random() < 0.4 else None
        yield "roundtrip", {"k": k, "rows": rows, "v0": v0, "bits": bits, "fast": fast, "table": table, "prev": prev,
                            "vt": rng.choice([0, 0, 2, 33]), "kind": kind, "reuse": rng.random() < 0.5}


def build(stream, p):
    rows, v0, bits, fast, table, vt = p["rows"], p["v0"], p["bits"], p["fast"], p["table"], p["vt"]
    L = len(bits)
    fuel = L * len(rows) + len(rows) + 1
    tab = None if table is None else np.array(table, dtype=int)
    domain = gen.wellformed_from(rows, v0) and not (fast and cc.has_deg3(rows))

    def run():
        arr = gen.acc_array(rows, reuse=p.get("reuse", False))
        a = arr if p.get("reuse", False) else gen.counting(rows, 2 * fuel + 4)
        if p.get("prev") is not None:
            try:                                   # the related round trip that precedes the call under test
                e0 = dsw.encode(np.array(p["prev"], dtype=int), arr, v0, is_faster=fast, vt_length=vt, shuffles=tab)
                s0, c0 = (e0 if vt > 0 else (e0, None))
                dsw.decode(s0, len(p["prev"]), arr, v0, is_faster=fast, vt_check=c0, shuffles=tab)
            except ValueError:
                pass
        e = gen.api("encode", binary_message=np.array(bits, dtype=int), accessor=a, start_index=v0, is_faster=fast, vt_length=vt, shuffles=tab)
        s, chk = (e if vt > 0 else (e, None))
        d = gen.api("decode", dna_sequence=s, bit_length=L, accessor=arr, start_index=v0, is_faster=fast, vt_check=chk, shuffles=tab)
        return s, chk, [int(x) for x in d]
    call = enc_call(50, bits, gen.enc_acc(rows), v0, int(fast), vt, gen.enc_table(table), fuel)
    impl = lambda: guard(run, lambda r: [s2c(r[0]), gen.enc_opt_str(r[1]), r[2]])

    def oracle(ans, raw):
        if not domain:
            return None
        if isinstance(raw, BaseException):
            return "raised %r" % (raw,)
        if raw[2] != bits:
            return "decode(encode(m)) = %r for m = %r" % (raw[2], bits)
        return None
    return Case(stream, p, call, impl, oracle, domain=domain, nontrivial=any(bits),
                tags=[p["kind"], "fast=%d" % fast, "vt=%d" % vt, "table=%d" % (table is not None), "k=%d" % p["k"],
                      "len<=%d" % (10 ** len(str(max(1, L))))])


def shrink(stream, p):
    b = p["bits"]
    for cand in (b[: len(b) // 2], b[1:], b[:-1]):
        if len(cand) < len(b):
            yield dict(p, bits=cand)
    if p["vt"]:
        yield dict(p, vt=0)
    if p["table"] is not None:
        yield dict(p, table=None)
    if p.get("prev") is not None and len(p["prev"]) == len(b) and len(b) > 8:
        h = len(b) // 2
        yield dict(p, bits=b[:h], prev=p["prev"][:h])
        yield dict(p, bits=b[h:], prev=p["prev"][h:])
