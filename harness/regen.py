"""regen.py -- the REGENERATED part of the model (technique way 1), run by every check whose cone contains one of the functions.

A unit = a translator that turns the current source of some dsw functions into Gallina (harness/translate*.py) + proof files
under coq/Generated/ that are compiled against the freshly generated file and prove the generated definitions equal to the
hand-written model the property theorems are about.

  unit "kmer"       dsw/graphized.py obtain_latters, obtain_formers           shallow translation (arithmetic expression -> Z term)
  unit "operation"  dsw/operation.py calculus_*, bit/number/dna converters     deep embedding: the source becomes a MiniPy.v term,
                                                                             its meaning is MiniPy.run_fun

Outcome per unit: refused (translator does not recognise the shape: the AST fingerprints decide), proved (the functions are tied
by proof: a fingerprint difference of these functions is a harmless rewrite), or broken (generated but the proofs fail: the
proof obligation is broken, the check searches for a failing input).

coqc results are cached under work/gencache by the SHA-256 of everything the compilation reads (generated text, proof files,
the sources of the model / MiniPy / lemma files they import, coqc --version): the same inputs give the same verdict, exactly
like make not rebuilding an up-to-date .vo.  Only successes are cached."""
import hashlib
import re
import json
import os
import shutil
import subprocess
import sys
import tempfile
from concurrent.futures import ThreadPoolExecutor

HERE = os.path.dirname(os.path.abspath(__file__))
VERIF = os.path.dirname(HERE)
COQ = os.path.join(VERIF, "coq")
sys.path.insert(0, HERE)
import translate            # noqa: E402
import translate_minipy     # noqa: E402

UNITS = {
    "kmer": {
        "functions": translate.FUNCS,
        "generate": lambda repo, d: translate.generate(repo, os.path.join(d, "KmerGen.v")),
        "refuse": translate.Refuse,
        "generated": "KmerGen.v",
        "stages": [["KmerGenProofs.v"]],
        "deps": ["Py.v", "Kmer.v"],
        "theorems": {"KmerGenProofs.v": ["obtain_latters_regenerated", "obtain_formers_regenerated"]},
    },
    "operation": {
        "functions": translate_minipy.FUNCS,
        "generate": lambda repo, d: translate_minipy.generate(repo, os.path.join(d, "OperationGen.v")),
        "refuse": translate_minipy.Refuse,
        "generated": "OperationGen.v",
        # files of one stage are independent of each other and compiled in parallel
        "stages": [["AddGenProofs.v", "SubGenProofs.v", "MulGenProofs.v", "DivGenProofs.v", "ConvGenProofs.v"],
                   ["OperationGenProofs.v"]],
        "deps": ["Py.v", "Bignum.v", "Convert.v", "Spec.v", "MiniPy.v", "MiniPyEnc.v", "Proofs/MiniPyLemmas.v", "Proofs/BignumProofs.v",
                 "Proofs/ConvertProofs.v"],
        "theorems": {"AddGenProofs.v": ["calculus_addition_gen"], "SubGenProofs.v": ["calculus_subtraction_gen"],
                     "MulGenProofs.v": ["calculus_multiplication_gen"], "DivGenProofs.v": ["calculus_division_gen"],
                     "ConvGenProofs.v": ["bit_to_number_str_gen", "bit_to_number_int_gen", "number_to_bit_str_gen",
                                         "number_to_bit_int_gen", "dna_to_number_str_gen", "dna_to_number_int_gen",
                                         "number_to_dna_str_gen", "number_to_dna_int_gen"],
                     "OperationGenProofs.v": ["C15_add_source", "C15_mul_source", "C15_sub_source", "C15_div_source",
                                              "C16_bits_roundtrip_str_source", "C16_bits_roundtrip_int_source",
                                              "C16_dna_roundtrip_str_source", "C16_dna_roundtrip_int_source",
                                              "C16_dna_foreign_source"]},
    },
    "coder": {
        "functions": translate_minipy.CODER_FUNCS,
        "generate": lambda repo, d: (translate_minipy.generate(repo, os.path.join(d, "OperationGen.v")),
                                     translate_minipy.generate_coder(repo, os.path.join(d, "CoderGen.v"))),
        "refuse": translate_minipy.Refuse,
        "generated": ["OperationGen.v", "CoderGen.v"],
        "stages": [["AddGenProofs.v", "SubGenProofs.v", "MulGenProofs.v", "DivGenProofs.v", "ConvGenProofs.v"],
                   ["OperationGenProofs.v"], ["CoderCallees.v"],
                   ["SetVtGenProofs.v", "EncodeNormalGenProofs.v", "EncodeFastGenProofs.v", "DecodeNormalGenProofs.v",
                    "DecodeFastGenProofs.v"],
                   ["CoderGenProofs.v"]],
        "deps": ["Py.v", "Bignum.v", "Convert.v", "Kmer.v", "Coder.v", "Spec.v", "CoderSpec.v", "FastSpec.v", "MiniPy.v", "MiniPyEnc.v",
                 "Proofs/MiniPyLemmas.v", "Proofs/BignumProofs.v", "Proofs/ConvertProofs.v", "Proofs/CoderProofs.v",
                 "Proofs/ComposeProofs.v", "Proofs/VTProofs.v", "Proofs/WalkProofs.v", "Proofs/ShuffleProofs.v", "Proofs/KmerProofs.v",
                 "Graph.v", "GraphSpec.v"],
        "theorems": {"SetVtGenProofs.v": ["set_vt_gen"],
                     "EncodeNormalGenProofs.v": ["encode_normal_gen_ok", "encode_normal_gen_raise"],
                     "EncodeFastGenProofs.v": ["encode_fast_gen_ok", "encode_fast_gen_raise"],
                     "DecodeNormalGenProofs.v": ["decode_normal_gen_ok", "decode_normal_gen_raise"],
                     "DecodeFastGenProofs.v": ["decode_fast_gen_ok", "decode_fast_gen_raise"],
                     "CoderGenProofs.v": ["coder_callees_ok", "py2_set_vt", "py2_encode_ok", "py2_encode_raise", "py2_decode_ok",
                                          "py2_decode_raise", "C07_set_vt_source", "C07_foreign_source", "C06_normal_reject_source",
                                          "C06_normal_accept_source", "C01_normal_source", "C01_fast_source"]},
    },
    "graph": {
        "functions": translate_minipy.GRAPH_FUNC_NAMES,
        "generate": lambda repo, d: translate_minipy.generate_graph(repo, os.path.join(d, "GraphGen.v")),
        "refuse": translate_minipy.Refuse,
        "generated": "GraphGen.v",
        "stages": [["GraphRepr.v"],
                   ["KmerDeepGenProofs.v", "VerticesGenProofs.v", "LeavesGenProofs.v", "LmapGenProofs.v", "ValidGraphGenProofs.v"],
                   ["GraphGenProofs.v"]],
        "deps": ["Py.v", "Kmer.v", "Convert.v", "Graph.v", "Spec.v", "GraphSpec.v", "MiniPyG.v", "MiniPyGEnc.v", "Proofs/MiniPyGLemmas.v",
                 "Proofs/KmerProofs.v", "Proofs/GraphProofs.v", "Proofs/ReprProofs.v", "Proofs/TrimMapProofs.v"],
        "theorems": {"KmerDeepGenProofs.v": ["obtain_latters_gen", "obtain_formers_gen", "get_complete_accessor_gen"],
                     "VerticesGenProofs.v": ["obtain_vertices_gen", "accessor_to_latter_map_gen"],
                     "LeavesGenProofs.v": ["leaves_acc_gen", "leaves_map_gen", "leaves_both_gen", "leaves_none_gen"],
                     "LmapGenProofs.v": ["remove_useless_gen", "latter_map_to_accessor_gen"],
                     "ValidGraphGenProofs.v": ["connect_valid_graph_gen", "connect_valid_graph_gen_bool", "find_vertices_gen"],
                     "GraphGenProofs.v": ["py3_obtain_latters", "py3_obtain_formers", "py3_get_complete_accessor", "py3_obtain_vertices",
                                          "py3_accessor_to_latter_map", "py3_leaves_acc", "py3_leaves_map", "py3_remove_useless",
                                          "py3_latter_map_to_accessor", "py3_connect_valid_graph", "py3_connect_valid_graph_bool",
                                          "C13_complete_source", "C14_latter_map_roundtrip_source", "C14_vertices_source",
                                          "C14_leaves_agree_source", "C11_valid_graph_source", "C11_valid_graph_empty_source"]},
    },
    "coding": {
        "functions": translate_minipy.CODING_FUNCS,
        "generate": lambda repo, d: translate_minipy.generate_coding(repo, os.path.join(d, "CodingGen.v")),
        "refuse": translate_minipy.Refuse,
        "generated": "CodingGen.v",
        "stages": [["CodingRepr.v"], ["CodingKmerGenProofs.v", "CodingVerticesGenProofs.v", "CodingGraphGenProofs.v"],
                   ["CodingKnotGenProofs.v"]],
        "deps": ["Py.v", "Kmer.v", "Convert.v", "Graph.v", "Spec.v", "GraphSpec.v", "MiniPyH.v", "MiniPyHEnc.v", "Proofs/MiniPyHLemmas.v",
                 "Proofs/KmerProofs.v", "Proofs/GraphProofs.v", "Proofs/GenerateProofs.v", "Proofs/GeneratedProofs.v"],
        "theorems": {"CodingKmerGenProofs.v": ["obtain_latters_gen", "obtain_formers_gen"],
                     "CodingVerticesGenProofs.v": ["obtain_vertices_gen"],
                     "CodingGraphGenProofs.v": ["connect_coding_graph_gen_ok", "connect_coding_graph_gen_raise"],
                     "CodingKnotGenProofs.v": ["coding_callees", "py4_connect_coding_graph_ok", "py4_connect_coding_graph_raise",
                                               "C03_source", "C04_no_dead_end_source", "C04_no_dead_end_source_any"]},
    },
    "repair": {
        "functions": translate_minipy.REPAIR_FUNCS,
        "generate": lambda repo, d: translate_minipy.generate_repair(repo, os.path.join(d, "RepairGen.v")),
        "refuse": translate_minipy.Refuse,
        "generated": "RepairGen.v",
        "stages": [["RepairRepr.v"], ["PathMatchingGenProofs.v", "RepairDnaGenProofs.v"], ["RepairKnotGenProofs.v"]],
        "deps": ["Py.v", "Kmer.v", "Convert.v", "Coder.v", "Repair.v", "Spec.v", "RepairSpec.v", "MiniPyR.v", "MiniPyREnc.v",
                 "Proofs/MiniPyRLemmas.v", "Proofs/RepairProofs.v", "Proofs/Repair8Proofs.v", "Proofs/Repair8MultiProofs.v",
                 "Proofs/TerminationProofs.v", "Proofs/VTProofs.v", "GraphSpec.v", "CoderSpec.v"],
        "theorems": {"PathMatchingGenProofs.v": ["path_matching_gen", "path_matching_gen_nonneg"],
                     "RepairDnaGenProofs.v": ["repair_dna_gen"],
                     "RepairKnotGenProofs.v": ["repair_dna_source", "C09_clean_source", "C09_output_shape_source", "C10_returns_source"]},
    },
    "score": {
        "functions": translate_minipy.SCORE_FUNCS,
        "generate": lambda repo, d: translate_minipy.generate_score(repo, os.path.join(d, "ScoreGen.v")),
        "refuse": translate_minipy.Refuse,
        "generated": "ScoreGen.v",
        "stages": [["ScoreRepr.v"], ["ScoreLeavesGenProofs.v", "ScoreVerticesGenProofs.v"],
                   ["IntersectionScoreGenProofs.v", "NastyArcGenProofs.v"], ["ScoreKnotGenProofs.v"]],
        "deps": ["Py.v", "Kmer.v", "Convert.v", "Graph.v", "Score.v", "Spec.v", "GraphSpec.v", "MiniPyS.v", "MiniPySEnc.v",
                 "Proofs/MiniPySLemmas.v", "Proofs/KmerProofs.v", "Proofs/GraphProofs.v", "Proofs/ReprProofs.v", "Proofs/ScoreProofs.v",
                 "Proofs/ShuffleProofs.v", "Shuffle.v"],
        "theorems": {"ScoreLeavesGenProofs.v": ["leaves_map_gen"], "ScoreVerticesGenProofs.v": ["obtain_vertices_gen_any"],
                     "IntersectionScoreGenProofs.v": ["calculate_intersection_score_gen"],
                     "NastyArcGenProofs.v": ["remove_nasty_arc_gen"],
                     "ScoreKnotGenProofs.v": ["py6_calculate_intersection_score", "py6_remove_nasty_arc", "C19_scores_source",
                                              "C19_step_source", "C19_total_source", "run_removals_source", "C19_history_source"]},
    },
    "matrix": {
        "functions": translate_minipy.MATRIX_FUNCS,
        "generate": lambda repo, d: translate_minipy.generate_matrix(repo, os.path.join(d, "MatrixGen.v")),
        "refuse": translate_minipy.Refuse,
        "generated": "MatrixGen.v",
        "stages": [["MatrixRepr.v"], ["MatrixKmerGenProofs.v"], ["ToMatrixGenProofs.v", "FromMatrixGenProofs.v"],
                   ["MatrixKnotGenProofs.v"]],
        "deps": ["Py.v", "Kmer.v", "Convert.v", "Graph.v", "Spec.v", "GraphSpec.v", "MiniPyM.v", "MiniPyMEnc.v",
                 "Proofs/MiniPyMLemmas.v", "Proofs/KmerProofs.v", "Proofs/GraphProofs.v", "Proofs/ReprProofs.v", "Proofs/LegalProofs.v"],
        "theorems": {"MatrixKmerGenProofs.v": ["obtain_latters_gen"], "ToMatrixGenProofs.v": ["accessor_to_adjacency_matrix_gen"],
                     "FromMatrixGenProofs.v": ["adjacency_matrix_to_accessor_gen"],
                     "MatrixKnotGenProofs.v": ["ext_sorted_ok", "py7_to_matrix", "py7_from_matrix", "C14_matrix_content_source",
                                               "C14_matrix_roundtrip_source", "C14_matrix_reject_source",
                                               "C13_legal_from_matrix_source"]},
    },
    "capacity": {
        "functions": translate_minipy.CAPACITY_FUNCS,
        "generate": lambda repo, d: translate_minipy.generate_capacity(repo, os.path.join(d, "CapacityGen.v")),
        "refuse": translate_minipy.Refuse,
        "generated": "CapacityGen.v",
        "stages": [["CapacityRepr.v"], ["CapacityGenProofs.v"], ["CapacityKnotGenProofs.v"]],
        "deps": ["Py.v", "Capacity.v", "Thresholds.v", "MiniPyC.v", "MiniPyCEnc.v", "Proofs/MiniPyCLemmas.v", "Kmer.v", "Graph.v", "Spec.v",
                 "GraphSpec.v", "CapacitySpec.v", "Proofs/CapacityProofs.v", "Proofs/CapacityFloatProofs.v", "Proofs/CapacityTermProofs.v"],
        "float_axioms": True,
        "theorems": {"CapacityGenProofs.v": ["approximate_capacity_gen"],
                     "CapacityKnotGenProofs.v": ["py8_approximate_capacity", "C17_returns_source", "C17_arcless_source",
                                                 "C17_le_four_source", "C17_regular_source"]},
    },
    "shuffle": {
        "float_primitives": True,              # MiniPyD.val has a float constructor: the primitive declarations are listed, nothing else
        "functions": translate_minipy.SHUFFLE_FUNCS,
        "generate": lambda repo, d: translate_minipy.generate_shuffle(repo, os.path.join(d, "ShuffleGen.v")),
        "refuse": translate_minipy.Refuse,
        "generated": "ShuffleGen.v",
        "stages": [["ShuffleRepr.v"], ["ShuffleGenProofs.v"], ["ShuffleKnotGenProofs.v"], ["ShuffleMTGenProofs.v"]],
        "deps": ["Py.v", "Kmer.v", "Shuffle.v", "Spec.v", "MiniPyD.v", "MiniPyDEnc.v", "Proofs/MiniPyDLemmas.v", "Proofs/ShuffleProofs.v",
                 "Proofs/KmerProofs.v", "MT19937.v", "Proofs/ShuffleMTProofs.v"],
        "theorems": {"ShuffleGenProofs.v": ["create_random_shuffles_gen", "create_random_shuffles_gen_raise"],
                     "ShuffleKnotGenProofs.v": ["py9_create_random_shuffles", "C18_table_source",
                                                "C18_seed_and_verbose_irrelevant_source", "C18_bad_seed_source"],
                     "ShuffleMTGenProofs.v": ["C18_numpy_table_source", "C18_reproducible_source"]},
    },
    "monitor": {
        "float_axioms": True,
        "functions": translate_minipy.MONITOR_FUNCS,
        "generate": lambda repo, d: translate_minipy.generate_monitor(repo, os.path.join(d, "MonitorGen.v")),
        "refuse": translate_minipy.Refuse,
        "generated": "MonitorGen.v",
        "stages": [["MonitorRepr.v"], ["MonitorGenProofs.v"]],
        "deps": ["Py.v", "Thresholds.v", "MiniPyE.v", "MiniPyEEnc.v", "Proofs/MiniPyELemmas.v", "Proofs/CapacityFloatProofs.v"],
        "theorems": {"MonitorGenProofs.v": ["monitor_returns", "monitor_zero_total_raises"]},
    },
    "biofilter": {
        "functions": translate_minipy.BIOFILTER_FUNCS,
        "generate": lambda repo, d: translate_minipy.generate_biofilter(repo, os.path.join(d, "BiofilterGen.v")),
        "refuse": translate_minipy.Refuse,
        "generated": "BiofilterGen.v",
        "stages": [["FilterGenProofs.v"]],
        "deps": ["Py.v", "Filter.v", "FilterFloat.v", "Thresholds.v", "MiniPyF.v", "MiniPyFEnc.v", "Proofs/MiniPyFLemmas.v",
                 "Proofs/FilterProofs.v", "Proofs/FilterFloatProofs.v"],
        "theorems_biofilter": True,
        # binary64: Print Assumptions lists Coq's primitive float / int63 declarations and, for the theorem that goes on to the
        # integer-threshold filter, the standard library's float axioms (harness/axioms.py names every one that is accepted)
        "float_axioms": True,
        "theorems": {"FilterGenProofs.v": ["filter_valid_gen", "filter_init_rejects", "filter_init_accepts", "filter_object_gen",
                                           "C12_valid_source"]},
    },
}


def _strip_comments(text):
    out, depth, i = [], 0, 0
    while i < len(text):
        if text.startswith("(*", i):
            depth += 1
            i += 2
        elif text.startswith("*)", i) and depth > 0:
            depth -= 1
            i += 2
        else:
            if depth == 0:
                out.append(text[i])
            i += 1
    return "".join(out)


def _sha(paths_and_texts):
    h = hashlib.sha256()
    for x in paths_and_texts:
        h.update(x if isinstance(x, bytes) else x.encode())
        h.update(b"\0")
    return h.hexdigest()


def _coqc_version():
    try:
        return subprocess.run(["coqc", "--version"], stdout=subprocess.PIPE, universal_newlines=True).stdout
    except Exception as e:  # noqa
        return repr(e)


def _compile(work, fn):
    p = subprocess.run(["timeout", "900", "coqc", "-Q", COQ, "DSW", "-Q", work, "DSWGen", os.path.join(work, fn)], cwd=work,
                       stdout=subprocess.PIPE, stderr=subprocess.STDOUT, universal_newlines=True)
    out = "\n".join(l for l in p.stdout.split("\n") if "overriding-logical-loadpath" not in l and "was previously bound" not in l
                    and "is remapped to" not in l and l.strip() not in ("", "[overriding-logical-loadpath,loadpath]"))
    return p.returncode, out


def run_unit(name, repo, use_cache=True, keep=None):
    u = UNITS[name]
    out = {"unit": name, "functions": list(u["functions"]), "generated": False, "proved": False, "cached": False}
    os.makedirs(os.path.join(VERIF, "work"), exist_ok=True)
    work = keep or tempfile.mkdtemp(prefix="gen-%s-" % name, dir=os.path.join(VERIF, "work"))
    os.makedirs(work, exist_ok=True)
    try:
        try:
            u["generate"](repo, work)
            out["generated"] = True
        except u["refuse"] as e:
            out["refused"] = str(e)
            return out
        except Exception as e:  # noqa   (a syntax error in the source, a missing file ...)
            out["refused"] = repr(e)
            return out
        gens = u["generated"] if isinstance(u["generated"], list) else [u["generated"]]
        gen_text = "".join(open(os.path.join(work, g)).read() for g in gens)
        # the header comment names the repository path: not part of the content
        body_text = "\n".join(l for l in gen_text.split("\n") if not l.startswith("(* GENERATED"))
        files = [f for st in u["stages"] for f in st]
        missing = [f for f in files if not os.path.exists(os.path.join(COQ, "Generated", f))]
        if missing:
            out["log"] = "proof file(s) missing: %s" % ", ".join(missing)
            return out
        # the theorems the unit stands for must be stated (as Theorem, outside comments) and have their Print Assumptions line
        for f, names in u.get("theorems", {}).items():
            text = _strip_comments(open(os.path.join(COQ, "Generated", f)).read())
            for nm in names:
                if not re.search(r"\b(?:Theorem|Corollary|Lemma)\s+%s\b" % re.escape(nm), text) or not re.search(r"Print Assumptions\s+%s\s*\." % re.escape(nm), text):
                    out["log"] = "%s: theorem %s (or its Print Assumptions) is missing" % (f, nm)
                    out["failed_file"] = f
                    return out
            if re.search(r"\b(Admitted|admit|Axiom|Parameter|Conjecture|Abort)\b", text):
                out["log"] = "%s: forbidden construct" % f
                out["failed_file"] = f
                return out
        out["theorems"] = sorted(n for v in u.get("theorems", {}).values() for n in v)
        key = _sha([_coqc_version(), os.environ.get("VERIF_SEED", "0"), open(os.path.abspath(__file__)).read(), body_text] + [open(os.path.join(COQ, "Generated", f)).read() for f in files]
                   + [open(os.path.join(COQ, d)).read() for d in u["deps"]])
        out["content_sha256"] = key
        cache = os.path.join(VERIF, "work", "gencache", "%s-%s.json" % (name, key))
        if use_cache and os.path.exists(cache):
            try:
                c = json.load(open(cache))
                if c.get("proved"):
                    out.update(proved=True, cached=True, closed=c.get("closed"), seconds=c.get("seconds"),
                               minipy_semantics_vs_cpython=c.get("minipy_semantics_vs_cpython"))
                    return out
            except Exception:  # noqa
                pass
        import time
        t0 = time.time()
        for g in gens:
            rc, log = _compile(work, g)
            if rc != 0:
                out["log"] = log[-1500:]
                return out
        closed = 0
        for stage in u["stages"]:
            for f in stage:
                shutil.copy(os.path.join(COQ, "Generated", f), os.path.join(work, f))
            with ThreadPoolExecutor(max_workers=6) as ex:
                res = list(ex.map(lambda f: (f,) + _compile(work, f), stage))
            for f, rc, log in res:
                if rc != 0:
                    out["log"] = ("%s: " % f) + log[-1500:]
                    out["failed_file"] = f
                    return out
                closed += log.count("Closed under the global context")
                import axioms as ax
                listed = ax.parse_print_assumptions(log)
                if u.get("float_axioms"):
                    bad = ax.unexpected(listed, ax.FLOAT_ALLOWED, ax.FLOAT_PATTERNS)
                    out["axioms_listed"] = sorted(set(listed))
                elif u.get("float_primitives"):
                    bad = ax.unexpected(listed, ax.FLOAT_PRIMITIVES, ax.FLOAT_PATTERNS)
                else:
                    # every Print Assumptions of these files must be closed: no axiom at all
                    bad = sorted(set(listed)) or (["?"] if "Axioms:" in log else [])
                if bad:
                    out["log"] = "%s: a theorem depends on axioms that are not accepted: %s" % (f, bad)
                    out["failed_file"] = f
                    return out
        out.update(proved=True, closed=closed, seconds=round(time.time() - t0, 1))
        if name in ("operation", "biofilter", "coder", "graph", "coding", "repair", "score", "matrix", "capacity", "shuffle", "monitor"):
            sem = {"operation": semantics_check, "biofilter": semantics_check_filter, "coder": semantics_check_coder,
                   "graph": semantics_check_graph, "coding": semantics_check_coding, "repair": semantics_check_repair,
                   "score": semantics_check_score, "matrix": semantics_check_matrix,
                   "capacity": semantics_check_capacity, "shuffle": semantics_check_shuffle,
                   "monitor": semantics_check_monitor}[name](
                work, repo, int(os.environ.get("VERIF_SEED", "0") or 0))
            out["minipy_semantics_vs_cpython"] = sem
            if sem.get("error") or sem.get("disagreements") or not sem.get("compared"):
                out["proved"] = False
                out["failed_file"] = "MiniPy.v / translate_minipy.py (semantics cross-check)"
                out["log"] = "MiniPy interpreter and CPython differ on the regenerated program: " + json.dumps(sem)[:800]
                return out
        os.makedirs(os.path.dirname(cache), exist_ok=True)
        json.dump({"proved": True, "closed": closed, "seconds": out["seconds"],
                   "minipy_semantics_vs_cpython": out.get("minipy_semantics_vs_cpython")}, open(cache, "w"))
        return out
    finally:
        if keep is None:
            shutil.rmtree(work, ignore_errors=True)


# ------------------------------------------------------------------------------------------------------------------------
# semantics cross-check of the deep embedding: the regenerated programs are run by the MiniPy interpreter (coqc, vm_compute)
# and by CPython on the same arguments.  This validates the translator + MiniPy.v (the trusted part of the regenerated
# tie), not the property: a mutated source is mirrored by the generated program and both sides follow it.
EXN_CODE = {ValueError: 1, IndexError: 2, TypeError: 3, OverflowError: 4, KeyError: 5}


def _enc_py(v):
    import numpy as np
    if isinstance(v, (bool, np.bool_)):
        return [5, int(v)]
    if isinstance(v, (int, np.integer)):
        return [0, int(v)]
    if isinstance(v, str):
        return [1, len(v)] + [ord(c) for c in v]
    if isinstance(v, (list, tuple)):
        out = [2 if isinstance(v, list) else 3, len(v)]
        for x in v:
            out += _enc_py(x)
        return out
    if v is None:
        return [4]
    return [99]


def _coq_val(v):
    if isinstance(v, bool):
        return "(VBool %s)" % ("true" if v else "false")
    if isinstance(v, int):
        return "(VInt (%d))" % v
    if isinstance(v, str):
        return "(VStr [%s])" % "; ".join(str(ord(c)) for c in v)
    if isinstance(v, list):
        return "(VList [%s])" % "; ".join(_coq_val(x) for x in v)
    if v is None:
        return "VNone"
    raise ValueError(v)


def _sem_cases(rng, n):
    def digits(maxlen):
        k = rng.choice(["canon", "canon", "canon", "zeros", "empty", "nines"])
        m = rng.randint(1, maxlen)
        if k == "empty":
            return ""
        if k == "nines":
            return "9" * m
        s = "".join(rng.choice("0123456789") for _ in range(m))
        return s if k == "zeros" else (s.lstrip("0") or "0")
    cases = []
    for _ in range(n):
        f = rng.choice(["calculus_addition", "calculus_subtraction", "calculus_multiplication", "calculus_division",
                        "bit_to_number", "number_to_bit", "dna_to_number", "number_to_dna"])
        if f.startswith("calculus"):
            num = digits(24)
            b = rng.choice("0123456789")
            if f == "calculus_subtraction" and (not num or int(num) < int(b)):
                continue                       # negative wrap-around region: Python's behaviour is index-wrap dependent
            args = [num, b]
        elif f == "bit_to_number":
            args = [[rng.randint(0, 1) for _ in range(rng.randint(0, 40))], rng.random() < 0.5, False]
        elif f == "number_to_bit":
            v = rng.choice([digits(12), rng.randint(0, 10 ** rng.randint(0, 12)), rng.randint(-5, 5), None, "0"])
            args = [v, rng.randint(-2, 50)]
        elif f == "dna_to_number":
            sdna = "".join(rng.choice("ACGT") for _ in range(rng.randint(0, 24)))
            if rng.random() < 0.15:
                i = rng.randint(0, len(sdna))
                sdna = sdna[:i] + rng.choice("NUacgt \n") + sdna[i:]
            args = [sdna, rng.random() < 0.5]
        else:
            v = rng.choice([digits(12), rng.randint(0, 4 ** rng.randint(0, 20)), 0, "0"])
            args = [v, rng.randint(-2, 30)]
        cases.append((f, args))
    return cases


def semantics_check(work, repo, seed=0, n=260):
    """-> {"cases", "compared", "stuck", "disagreements": [...]}"""
    import random
    rng = random.Random(1000003 * seed + 17)
    cases = _sem_cases(rng, n)
    lines = ["From DSW Require Import MiniPy MiniPyEnc.", "From DSWGen Require Import OperationGen.", "Open Scope Z_scope."]
    for f, args in cases:
        lines.append('Eval vm_compute in enc_res (call_in operation_module 400 "%s"%%string [%s]).'
                     % (f, "; ".join(_coq_val(a) for a in args)))
    open(os.path.join(work, "SemCases.v"), "w").write("\n".join(lines) + "\n")
    rc, log = _compile(work, "SemCases.v")
    if rc != 0:
        return {"cases": len(cases), "compared": 0, "error": log[-600:]}
    import re
    got = [[int(x) for x in re.findall(r"-?\d+", blk.split(": list Z")[0])] for blk in log.split("= ")[1:]]
    if len(got) != len(cases):
        return {"cases": len(cases), "compared": 0, "error": "parsed %d answers for %d cases" % (len(got), len(cases))}
    # CPython side: the same functions of the same working tree, in a fresh interpreter
    prog = ("import sys, json, io, contextlib\nsys.path.insert(0, %r)\nimport dsw.operation as op\n"
            "EX = {ValueError: 1, IndexError: 2, TypeError: 3, OverflowError: 4, KeyError: 5}\n"
            "sys.path.insert(0, %r)\nfrom regen import _enc_py\nout = []\n"
            "for f, a in json.load(sys.stdin):\n"
            "    try:\n"
            "        with contextlib.redirect_stdout(io.StringIO()):\n"
            "            r = getattr(op, f)(*a)\n"
            "        out.append([0] + _enc_py(r))\n"
            "    except Exception as e:\n"
            "        out.append([1, EX.get(type(e), 6)])\n"
            "print(json.dumps(out))\n" % (repo, HERE))
    p = subprocess.run(["/venv/bin/python", "-c", prog], input=json.dumps(cases), stdout=subprocess.PIPE, stderr=subprocess.PIPE,
                       universal_newlines=True, env=dict(os.environ, PYTHONHASHSEED="0"))
    if p.returncode != 0:
        return {"cases": len(cases), "compared": 0, "error": p.stderr[-600:]}
    want = json.loads(p.stdout)
    res = {"cases": len(cases), "compared": 0, "stuck": 0, "fuel": 0, "disagreements": [],
           "per_function": {}}
    for (f, args), g, w in zip(cases, got, want):
        if g[:1] == [3]:
            res["stuck"] += 1
            continue
        if g[:1] == [2]:
            res["fuel"] += 1
            continue
        res["compared"] += 1
        res["per_function"][f] = res["per_function"].get(f, 0) + 1
        if g != w and len(res["disagreements"]) < 5:
            res["disagreements"].append({"function": f, "args": args, "minipy": g[:40], "cpython": w[:40]})
    return res


def _coq_aval(v):
    """JSON-able argument -> MiniPy value; {"arr": [...]} is a 1-D NumPy array, {"arr2": [[...]]} a 2-D one"""
    if isinstance(v, dict) and "arr" in v:
        return "(VArr [%s])" % "; ".join("(VInt (%d))" % x for x in v["arr"])
    if isinstance(v, dict) and "arr2" in v:
        return "(VArr [%s])" % "; ".join("(VArr [%s])" % "; ".join("(VInt (%d))" % x for x in row) for row in v["arr2"])
    return _coq_val(v)


def semantics_check_coder(work, repo, seed=0, n=160):
    """set_vt / encode / decode of dsw/spiderweb.py: MiniPy interpreter (vm_compute) against CPython + NumPy"""
    import random
    sys.path.insert(0, HERE)
    rng = random.Random(1000003 * seed + 41)
    NUC = "ACGT"
    cases = []
    for _ in range(n):
        k = rng.choice([1, 1, 2])
        nn = 4 ** k
        keep = rng.choice([0.5, 0.75, 1.0])
        rows = [[(4 * v + j) % nn if rng.random() < keep else -1 for j in range(4)] for v in range(nn)]
        live = [v for v in range(nn) if any(x >= 0 for x in rows[v])] or [0]
        v0 = rng.choice(live) if rng.random() < 0.9 else rng.randrange(nn)
        table = None
        if rng.random() < 0.4:
            table = [rng.sample(range(4), 4) for _ in range(nn)]
        f = rng.choice(["encode", "encode", "decode", "decode", "set_vt"])
        fast = rng.random() < 0.4
        if f == "set_vt":
            sdna = "".join(rng.choice(NUC) for _ in range(rng.randint(0, 14)))
            if rng.random() < 0.15:
                sdna += rng.choice("Nx")
            cases.append(("set_vt", [sdna, rng.choice([1, 2, 3, 5, 33])]))
        elif f == "encode":
            bits = [rng.randint(0, 1) for _ in range(rng.randint(0, 14))]
            cases.append(("encode", [{"arr": bits}, {"arr2": rows}, v0, fast, rng.choice([0, 0, 2, 4]),
                                     None if table is None else {"arr2": table}, False, rng.random() < 0.3]))
        else:
            # a walk (sometimes corrupted) from v0
            w, v = "", v0
            for _s in range(rng.randint(0, 10)):
                js = [j for j in range(4) if rows[v][j] >= 0]
                if not js:
                    break
                j = rng.choice(js)
                w += NUC[j]
                v = rows[v][j]
            if rng.random() < 0.25 and w:
                i = rng.randrange(len(w))
                w = w[:i] + rng.choice("ACGTN") + w[i + 1:]
            cases.append(("decode", [w, rng.randint(0, 16), {"arr2": rows}, v0, fast,
                                     rng.choice([None, None, "A", "TA", "GCA"]), None if table is None else {"arr2": table},
                                     False]))
    lines = ["From DSW Require Import MiniPy MiniPyEnc.", "From DSWGen Require Import OperationGen CoderGen.", "Open Scope Z_scope."]
    for f, args in cases:
        lines.append('Eval vm_compute in enc_res (call_in coder_module 400 "%s"%%string [%s]).'
                     % (f, "; ".join(_coq_aval(a) for a in args)))
    open(os.path.join(work, "SemCasesCoder.v"), "w").write("\n".join(lines) + "\n")
    rc, log = _compile(work, "SemCasesCoder.v")
    if rc != 0:
        return {"cases": len(cases), "compared": 0, "error": log[-600:]}
    got = [[int(x) for x in re.findall(r"-?\d+", blk.split(": list Z")[0])] for blk in log.split("= ")[1:]]
    if len(got) != len(cases):
        return {"cases": len(cases), "compared": 0, "error": "parsed %d answers for %d cases" % (len(got), len(cases))}
    prog = ("import sys, json, io, contextlib\nsys.path.insert(0, %r)\nimport numpy as np\nimport dsw\n"
            "EX = {ValueError: 1, IndexError: 2, TypeError: 3, OverflowError: 4, KeyError: 5}\n"
            "def conv(a):\n"
            "    if isinstance(a, dict):\n"
            "        return np.array(a.get('arr', a.get('arr2')), dtype=int).reshape((-1, 4)) if 'arr2' in a else np.array(a['arr'], dtype=int)\n"
            "    return a\n"
            "def enc(v):\n"
            "    if isinstance(v, np.ndarray):\n"
            "        out = [7, len(v)]\n"
            "        for x in v: out += enc(x)\n"
            "        return out\n"
            "    if isinstance(v, (bool, np.bool_)): return [5, int(v)]\n"
            "    if isinstance(v, (int, np.integer)): return [0, int(v)]\n"
            "    if isinstance(v, str): return [1, len(v)] + [ord(c) for c in v]\n"
            "    if isinstance(v, (list, tuple)):\n"
            "        out = [2 if isinstance(v, list) else 3, len(v)]\n"
            "        for x in v: out += enc(x)\n"
            "        return out\n"
            "    return [4] if v is None else [99]\n"
            "import signal\n"
            "class Slow(BaseException): pass\n"
            "def alarm(*a): raise Slow()\n"
            "signal.signal(signal.SIGALRM, alarm)\n"
            "out = []\n"
            "for f, a in json.load(sys.stdin):\n"
            "    try:\n"
            "        signal.alarm(3)\n"
            "        with contextlib.redirect_stdout(io.StringIO()):\n"
            "            r = getattr(dsw, f)(*[conv(x) for x in a])\n"
            "        signal.alarm(0)\n"
            "        out.append([0] + enc(r))\n"
            "    except Slow:\n"
            "        out.append([2])          # does not return (encode on a graph that is not well formed: C04's domain)\n"
            "    except Exception as e:\n"
            "        signal.alarm(0)\n"
            "        out.append([1, EX.get(type(e), 6)])\n"
            "print(json.dumps(out))\n" % (repo,))
    p = subprocess.run(["/venv/bin/python", "-c", prog], input=json.dumps(cases), stdout=subprocess.PIPE, stderr=subprocess.PIPE,
                       universal_newlines=True, env=dict(os.environ, PYTHONHASHSEED="0"))
    if p.returncode != 0:
        return {"cases": len(cases), "compared": 0, "error": p.stderr[-600:]}
    want = json.loads(p.stdout)
    res = {"cases": len(cases), "compared": 0, "stuck": 0, "fuel": 0, "disagreements": [], "per_function": {}, "raised": 0}
    for (f, args), g, w in zip(cases, got, want):
        if g[:1] == [3]:
            res["stuck"] += 1
            continue
        if g[:1] == [2] or w == [2]:
            res["fuel"] += 1                        # no result within the budget on at least one side
            if g[:1] != [2] or w != [2]:
                res.setdefault("fuel_mismatch", 0)
                res["fuel_mismatch"] += 1
            continue
        res["compared"] += 1
        res["raised"] += int(w[:1] == [1])
        res["per_function"][f] = res["per_function"].get(f, 0) + 1
        if g != w and len(res["disagreements"]) < 5:
            res["disagreements"].append({"function": f, "args": args, "minipy": g[:40], "cpython": w[:40]})
    return res


def _coq_gval(v):
    """JSON-able argument -> MiniPyG value: {"arr": ..}, {"arr2": ..}, {"barr": [bools]}, {"dict": [[k, [..]], ..]}"""
    if isinstance(v, dict) and "barr" in v:
        return "(VArr [%s])" % "; ".join("(VBool %s)" % ("true" if x else "false") for x in v["barr"])
    if isinstance(v, dict) and "dict" in v:
        return "(VDict [%s])" % "; ".join("((VInt (%d)), (VList [%s]))" % (k, "; ".join("(VInt (%d))" % x for x in ls))
                                           for k, ls in v["dict"])
    if isinstance(v, dict) and "obj" in v:
        return "VOpaque"
    return _coq_aval(v)


def semantics_check_graph(work, repo, seed=0, n=170):
    """the graph functions: MiniPyG interpreter (vm_compute) against CPython + NumPy"""
    import random
    rng = random.Random(1000003 * seed + 53)
    cases = []
    for _ in range(n):
        k = rng.choice([1, 1, 2, 2, 3])
        nn = 4 ** k
        keep = rng.choice([0.3, 0.6, 0.9, 1.0])
        rows = [[(4 * v + j) % nn if rng.random() < keep else -1 for j in range(4)] if rng.random() < 0.8 else [-1] * 4 for v in range(nn)]
        lm = [[v, [x for x in r if x >= 0]] for v, r in enumerate(rows) if any(x >= 0 for x in r)]
        f = rng.choice(["obtain_latters", "obtain_formers", "get_complete_accessor", "obtain_vertices", "obtain_leaf_vertices",
                        "obtain_leaf_vertices", "accessor_to_latter_map", "remove_useless", "latter_map_to_accessor",
                        "latter_map_to_accessor", "connect_valid_graph", "connect_valid_graph", "find_vertices"])
        if f in ("obtain_latters", "obtain_formers"):
            args = [rng.randrange(nn), k]
        elif f == "get_complete_accessor":
            args = [rng.choice([1, 2]), rng.random() < 0.3]
        elif f == "obtain_vertices":
            args = [{"arr2": rows}]
        elif f == "obtain_leaf_vertices":
            how = rng.choice(["acc", "acc", "map", "map", "both", "none"])
            args = [rng.randrange(-2, nn + 1), rng.randint(0, 3),
                    {"arr2": rows} if how in ("acc", "both") else None, {"dict": lm} if how in ("map", "both") else None]
        elif f == "accessor_to_latter_map":
            args = [{"arr2": rows}, rng.random() < 0.3]
        elif f == "remove_useless":
            args = [{"dict": lm}, rng.randint(1, 4), rng.random() < 0.3]
        elif f == "latter_map_to_accessor":
            args = [{"dict": lm}, k, rng.choice([None, None, 1, 2, 3]), rng.random() < 0.3]
        elif f == "connect_valid_graph":
            mask = [1 if rng.random() < rng.choice([0.0, 0.5, 0.9]) else 0 for _ in range(nn)]
            args = [k, {"barr": [bool(x) for x in mask]} if rng.random() < 0.5 else {"arr": mask}, rng.random() < 0.3]
        else:
            args = [rng.choice([1, 2]), {"obj": rng.choice(["AA", "C", "GT", "ACGTA"])}, rng.random() < 0.3]
        cases.append((f, args))
    lines = ["From Coq Require Import String.", "From DSW Require Import MiniPyG MiniPyGEnc Graph.", "From DSWGen Require Import GraphGen.",
             "Open Scope Z_scope.",
             "(* callees outside the generated module: number_to_dna (int path) and a filter that rejects strings containing a motif *)",
             "Definition ce_sem (motif : list Z) (fuel : nat) : string -> list val -> res val := fun f args =>",
             '  if String.eqb f "bio_filter.valid" then match args with [VStr s] => Ret (VBool (negb (infixZ motif s))) | _ => Stuck end',
             '  else if String.eqb f "number_to_dna" then match args with [VInt v; VInt k] => Ret (VStr (kmer_string (Z.to_nat k) v)) | _ => Stuck end',
             "  else call_in graph_module fuel f args."]
    for f, args in cases:
        if f == "find_vertices":
            motif = "[%s]" % "; ".join(str(ord(c)) for c in args[1]["obj"])
            lines.append('Eval vm_compute in enc_res (run_fun (ce_sem %s 300) 300 find_vertices_def [%s]).'
                         % (motif, "; ".join(_coq_gval(a) for a in args)))
        else:
            lines.append('Eval vm_compute in enc_res (call_in graph_module 300 "%s"%%string [%s]).'
                         % (f, "; ".join(_coq_gval(a) for a in args)))
    open(os.path.join(work, "SemCasesGraph.v"), "w").write("\n".join(lines) + "\n")
    rc, log = _compile(work, "SemCasesGraph.v")
    if rc != 0:
        return {"cases": len(cases), "compared": 0, "error": log[-600:]}
    got = [[int(x) for x in re.findall(r"-?\d+", blk.split(": list Z")[0])] for blk in log.split("= ")[1:]]
    if len(got) != len(cases):
        return {"cases": len(cases), "compared": 0, "error": "parsed %d answers for %d cases" % (len(got), len(cases))}
    prog = ("import sys, json, io, contextlib\nsys.path.insert(0, %r)\nimport numpy as np\nimport dsw\n"
            "EX = {ValueError: 1, IndexError: 2, TypeError: 3, OverflowError: 4, KeyError: 5}\n"
            "class F(object):\n"
            "    def __init__(self, m): self.m = m\n"
            "    def valid(self, dna_string): return self.m not in dna_string\n"
            "def conv(a):\n"
            "    if isinstance(a, dict):\n"
            "        if 'arr2' in a: return np.array(a['arr2'], dtype=int).reshape((-1, 4))\n"
            "        if 'arr' in a: return np.array(a['arr'], dtype=int)\n"
            "        if 'barr' in a: return np.array(a['barr'], dtype=bool)\n"
            "        if 'dict' in a: return {k: list(v) for k, v in a['dict']}\n"
            "        if 'obj' in a: return F(a['obj'])\n"
            "    return a\n"
            "def enc(v):\n"
            "    if isinstance(v, np.ndarray):\n"
            "        out = [7, len(v)]\n"
            "        for x in v: out += enc(x)\n"
            "        return out\n"
            "    if isinstance(v, dict):\n"
            "        out = [8, len(v)]\n"
            "        for k, x in v.items(): out += enc(k) + enc(x)\n"
            "        return out\n"
            "    if isinstance(v, (bool, np.bool_)): return [5, int(v)]\n"
            "    if isinstance(v, (int, np.integer)): return [0, int(v)]\n"
            "    if isinstance(v, str): return [1, len(v)] + [ord(c) for c in v]\n"
            "    if isinstance(v, (list, tuple)):\n"
            "        out = [2 if isinstance(v, list) else 3, len(v)]\n"
            "        for x in v: out += enc(x)\n"
            "        return out\n"
            "    return [4] if v is None else [99]\n"
            "out = []\n"
            "for f, a in json.load(sys.stdin):\n"
            "    try:\n"
            "        with contextlib.redirect_stdout(io.StringIO()):\n"
            "            r = getattr(dsw, f)(*[conv(x) for x in a])\n"
            "        out.append([0] + enc(r))\n"
            "    except Exception as e:\n"
            "        out.append([1, EX.get(type(e), 6)])\n"
            "print(json.dumps(out))\n" % (repo,))
    p = subprocess.run(["/venv/bin/python", "-c", prog], input=json.dumps(cases), stdout=subprocess.PIPE, stderr=subprocess.PIPE,
                       universal_newlines=True, env=dict(os.environ, PYTHONHASHSEED="0"))
    if p.returncode != 0:
        return {"cases": len(cases), "compared": 0, "error": p.stderr[-600:]}
    want = json.loads(p.stdout)
    res = {"cases": len(cases), "compared": 0, "stuck": 0, "fuel": 0, "disagreements": [], "per_function": {}, "raised": 0}
    for (f, args), g, w in zip(cases, got, want):
        if g[:1] == [3]:
            res["stuck"] += 1
            res.setdefault("stuck_functions", [])
            if f not in res["stuck_functions"]:
                res["stuck_functions"].append(f)
            continue
        if g[:1] == [2]:
            res["fuel"] += 1
            continue
        res["compared"] += 1
        res["raised"] += int(w[:1] == [1])
        res["per_function"][f] = res["per_function"].get(f, 0) + 1
        if g != w and len(res["disagreements"]) < 5:
            res["disagreements"].append({"function": f, "args": args, "minipy": g[:40], "cpython": w[:40]})
    return res


def semantics_check_coding(work, repo, seed=0, n=90):
    """connect_coding_graph: MiniPyH interpreter (vm_compute) against CPython + NumPy"""
    import random
    sys.path.insert(0, HERE)
    if repo not in sys.path:
        sys.path.insert(1, repo)            # harness/gen.py imports dsw (only its pure-Python mask generators are used here)
    import gen
    rng = random.Random(1000003 * seed + 67)
    cases = []
    for i in range(n):
        k = rng.choice([1, 2, 2, 2, 3])
        nn = 4 ** k
        kind = i % 4
        if kind == 0:
            mask = gen.funnel_mask(rng, k) if k >= 2 else [1] * nn
        elif kind == 1:
            mask = gen.chain_mask(rng, k)
        else:
            dens = rng.choice([0.2, 0.4, 0.6, 0.8, 0.95, 1.0, 0.0])
            mask = [1 if rng.random() < dens else 0 for _ in range(nn)]
        t = rng.choice([1, 1, 1, 2, 2, 3, 4])
        arg = {"barr": [bool(x) for x in mask]} if rng.random() < 0.4 else {"arr": mask}
        cases.append(("connect_coding_graph", [k, arg, t, rng.random() < 0.25]))
    lines = ["From DSW Require Import MiniPyH MiniPyHEnc.", "From DSWGen Require Import CodingGen.", "Open Scope Z_scope."]
    for f, args in cases:
        lines.append('Eval vm_compute in enc_res (call_in coding_module 400 "%s"%%string [%s]).'
                     % (f, "; ".join(_coq_gval(a) for a in args)))
    open(os.path.join(work, "SemCasesCoding.v"), "w").write("\n".join(lines) + "\n")
    rc, log = _compile(work, "SemCasesCoding.v")
    if rc != 0:
        return {"cases": len(cases), "compared": 0, "error": log[-600:]}
    got = [[int(x) for x in re.findall(r"-?\d+", blk.split(": list Z")[0])] for blk in log.split("= ")[1:]]
    if len(got) != len(cases):
        return {"cases": len(cases), "compared": 0, "error": "parsed %d answers for %d cases" % (len(got), len(cases))}
    prog = ("import sys, json, io, contextlib\nsys.path.insert(0, %r)\nimport numpy as np\nimport dsw\n"
            "EX = {ValueError: 1, IndexError: 2, TypeError: 3, OverflowError: 4, KeyError: 5}\n"
            "def conv(a):\n"
            "    if isinstance(a, dict):\n"
            "        if 'arr' in a: return np.array(a['arr'], dtype=int)\n"
            "        if 'barr' in a: return np.array(a['barr'], dtype=bool)\n"
            "    return a\n"
            "def enc(v):\n"
            "    if isinstance(v, np.ndarray):\n"
            "        out = [7, len(v)]\n"
            "        for x in v: out += enc(x)\n"
            "        return out\n"
            "    if isinstance(v, (bool, np.bool_)): return [5, int(v)]\n"
            "    if isinstance(v, (int, np.integer)): return [0, int(v)]\n"
            "    if isinstance(v, (list, tuple)):\n"
            "        out = [2 if isinstance(v, list) else 3, len(v)]\n"
            "        for x in v: out += enc(x)\n"
            "        return out\n"
            "    return [4] if v is None else [99]\n"
            "out = []\n"
            "for f, a in json.load(sys.stdin):\n"
            "    try:\n"
            "        with contextlib.redirect_stdout(io.StringIO()):\n"
            "            r = getattr(dsw, f)(*[conv(x) for x in a])\n"
            "        out.append([0] + enc(r))\n"
            "    except Exception as e:\n"
            "        out.append([1, EX.get(type(e), 6)])\n"
            "print(json.dumps(out))\n" % (repo,))
    p = subprocess.run(["/venv/bin/python", "-c", prog], input=json.dumps(cases), stdout=subprocess.PIPE, stderr=subprocess.PIPE,
                       universal_newlines=True, env=dict(os.environ, PYTHONHASHSEED="0"))
    if p.returncode != 0:
        return {"cases": len(cases), "compared": 0, "error": p.stderr[-600:]}
    want = json.loads(p.stdout)
    res = {"cases": len(cases), "compared": 0, "stuck": 0, "fuel": 0, "disagreements": [], "raised": 0, "threshold1": 0}
    for (f, args), g, w in zip(cases, got, want):
        if g[:1] == [3]:
            res["stuck"] += 1
            continue
        if g[:1] == [2]:
            res["fuel"] += 1
            continue
        res["compared"] += 1
        res["raised"] += int(w[:1] == [1])
        res["threshold1"] += int(args[2] == 1)
        if g != w and len(res["disagreements"]) < 5:
            res["disagreements"].append({"function": f, "args": args, "minipy": g[:40], "cpython": w[:40]})
    return res


def semantics_check_repair(work, repo, seed=0, n=120):
    """path_matching / repair_dna: MiniPyR interpreter (vm_compute) against CPython under three hash seeds (the order in which a
    set of strings is listed depends on the seed; the results must not)"""
    import random
    rng = random.Random(1000003 * seed + 79)
    NUC = "ACGT"
    cases = []
    for _ in range(n):
        k = rng.choice([1, 2, 2, 2, 3])
        nn = 4 ** k
        keep = rng.choice([0.5, 0.7, 0.9, 1.0])
        rows = [[(4 * v + j) % nn if rng.random() < keep else -1 for j in range(4)] for v in range(nn)]
        live = [v for v in range(nn) if any(x >= 0 for x in rows[v])] or [0]
        v0 = rng.choice(live)
        w, v = "", v0
        for _s in range(rng.randint(k, 6 * k + 4)):
            js = [j for j in range(4) if rows[v][j] >= 0]
            if not js:
                break
            j = rng.choice(js)
            w += NUC[j]
            v = rows[v][j]
        sdna = w
        for _e in range(rng.choice([0, 1, 1, 2, 3])):
            if not sdna:
                break
            i = rng.randrange(len(sdna))
            e = rng.choice("SID")
            sdna = sdna[:i] + (rng.choice(NUC) + sdna[i + 1:] if e == "S" else sdna[i + 1:] if e == "D" else rng.choice(NUC) + sdna[i:])
        if rng.random() < 0.08:
            sdna += "N"
        if rng.random() < 0.5:
            occ = rng.randint(-1, len(sdna))
            cases.append(("path_matching", [sdna[: 2 * k + 1], {"arr2": rows}, rng.randrange(-1, nn + 1), occ, rng.random() < 0.6, None]))
        else:
            vt = rng.choice([None, None, "AC", "T", "GGA"])
            cases.append(("repair_dna", [sdna, {"arr2": rows}, v0, k, vt, rng.random() < 0.6, rng.choice([0, 1, 10, 1000])]))
    lines = ["From Coq Require Import String.", "From DSW Require Import MiniPyR MiniPyREnc Repair Coder Convert.",
             "From DSWGen Require Import RepairGen.", "Open Scope Z_scope.",
             "Definition ce_r (fuel : nat) : string -> list val -> res val := fun f args =>",
             '  if String.eqb f "dna_to_number" then match args with [VStr s; VBool false] => match dna_to_number_int s with Ok n => Ret (VInt n) | Raise e => Exn e | _ => Fuel end | _ => Stuck end',
             '  else if String.eqb f "set_vt" then match args with [VStr s; VInt n] => match set_vt s n with Ok r => Ret (VStr r) | Raise e => Exn e | _ => Fuel end | _ => Stuck end',
             "  else call_in repair_module fuel f args."]
    for f, args in cases:
        lines.append('Eval vm_compute in enc_res (run_fun (ce_r 400) 400 %s_def [%s]).' % (f, "; ".join(_coq_aval(a) for a in args)))
    open(os.path.join(work, "SemCasesRepair.v"), "w").write("\n".join(lines) + "\n")
    rc, log = _compile(work, "SemCasesRepair.v")
    if rc != 0:
        return {"cases": len(cases), "compared": 0, "error": log[-600:]}
    got = [[int(x) for x in re.findall(r"-?\d+", blk.split(": list Z")[0])] for blk in log.split("= ")[1:]]
    if len(got) != len(cases):
        return {"cases": len(cases), "compared": 0, "error": "parsed %d answers for %d cases" % (len(got), len(cases))}
    prog = ("import sys, json\nsys.path.insert(0, %r)\nimport numpy as np\nimport dsw\n"
            "EX = {ValueError: 1, IndexError: 2, TypeError: 3, OverflowError: 4, KeyError: 5}\n"
            "def conv(a):\n"
            "    if isinstance(a, dict): return np.array(a['arr2'], dtype=int).reshape((-1, 4))\n"
            "    return a\n"
            "def enc(v):\n"
            "    if isinstance(v, (bool, np.bool_)): return [5, int(v)]\n"
            "    if isinstance(v, (int, np.integer)): return [0, int(v)]\n"
            "    if isinstance(v, str): return [1, len(v)] + [ord(c) for c in v]\n"
            "    if isinstance(v, (list, tuple)):\n"
            "        out = [2 if isinstance(v, list) else 3, len(v)]\n"
            "        for x in v: out += enc(x)\n"
            "        return out\n"
            "    return [4] if v is None else [99]\n"
            "import signal\n"
            "class Slow(BaseException): pass\n"
            "def alarm(*a): raise Slow()\n"
            "signal.signal(signal.SIGALRM, alarm)\n"
            "out = []\n"
            "for f, a in json.load(sys.stdin):\n"
            "    try:\n"
            "        signal.alarm(5)\n"
            "        r = getattr(dsw, f)(*[conv(x) for x in a])\n"
            "        signal.alarm(0)\n"
            "        out.append([0] + enc(r))\n"
            "    except Slow:\n"
            "        out.append([2])\n"
            "    except Exception as e:\n"
            "        signal.alarm(0)\n"
            "        out.append([1, EX.get(type(e), 6)])\n"
            "print(json.dumps(out))\n" % (repo,))
    res = {"cases": len(cases), "compared": 0, "stuck": 0, "fuel": 0, "disagreements": [], "per_function": {}, "raised": 0,
           "hash_seeds": [0, 1, 2]}
    wants = []
    for hs in res["hash_seeds"]:
        p = subprocess.run(["/venv/bin/python", "-c", prog], input=json.dumps(cases), stdout=subprocess.PIPE, stderr=subprocess.PIPE,
                           universal_newlines=True, env=dict(os.environ, PYTHONHASHSEED=str(hs)))
        if p.returncode != 0:
            return {"cases": len(cases), "compared": 0, "error": p.stderr[-600:]}
        wants.append(json.loads(p.stdout))
    for i, ((f, args), g) in enumerate(zip(cases, got)):
        if g[:1] == [3]:
            res["stuck"] += 1
            continue
        if g[:1] == [2] or wants[0][i] == [2]:
            res["fuel"] += 1
            continue
        res["compared"] += 1
        res["raised"] += int(wants[0][i][:1] == [1])
        res["per_function"][f] = res["per_function"].get(f, 0) + 1
        for hs, w in zip(res["hash_seeds"], wants):
            if g != w[i] and len(res["disagreements"]) < 5:
                res["disagreements"].append({"function": f, "args": args, "hash_seed": hs, "minipy": g[:40], "cpython": w[i][:40]})
    return res


def semantics_check_score(work, repo, seed=0, n=70):
    """calculate_intersection_score / remove_nasty_arc: MiniPyS interpreter (vm_compute) against CPython + NumPy; also checks the
    float assumption behind BIntLogRatio (int(log(4**k) / log(4)) == k for k = 0..30)"""
    import random
    rng = random.Random(1000003 * seed + 97)
    cases = []
    for _ in range(n):
        k = rng.choice([1, 1, 2, 2, 2])
        nn = 4 ** k
        keep = rng.choice([0.4, 0.7, 0.9, 1.0])
        rows = [[(4 * v + j) % nn if rng.random() < keep else -1 for j in range(4)] if rng.random() < 0.85 else [-1] * 4 for v in range(nn)]
        lm = [[v, [x for x in r if x >= 0]] for v, r in enumerate(rows) if any(x >= 0 for x in r)]
        if rng.random() < 0.5:
            cases.append(("calculate_intersection_score", [{"dict": lm}, k, rng.random() < 0.5, rng.random() < 0.5, rng.random() < 0.2]))
        else:
            lm2 = [[a, list(b)] for a, b in lm]
            if lm2 and rng.random() < 0.15:
                lm2.pop(rng.randrange(len(lm2)))          # a latter map that is not the accessor's
            cases.append(("remove_nasty_arc", [{"arr2": rows}, {"dict": lm2}, 0, rng.random() < 0.5, rng.random() < 0.5, False]))
    # outcomes that raise: no arc at all, a single arc (no positive score), a latter map without the chosen vertex / successor
    for kk in (1, 2):
        nn = 4 ** kk
        empty = [[-1] * 4 for _ in range(nn)]
        cases.append(("remove_nasty_arc", [{"arr2": empty}, {"dict": []}, 0, True, True, False]))
        one = [r[:] for r in empty]
        one[1][2] = (4 * 1 + 2) % nn
        cases.append(("remove_nasty_arc", [{"arr2": one}, {"dict": [[1, [one[1][2]]]]}, 0, True, True, False]))
        full = [[(4 * v + j) % nn for j in range(4)] for v in range(nn)]
        lmf = [[v, list(r)] for v, r in enumerate(full)]
        cases.append(("remove_nasty_arc", [{"arr2": full}, {"dict": lmf[1:]}, 0, True, True, False]))
        cases.append(("remove_nasty_arc", [{"arr2": full}, {"dict": [[v, r[1:]] for v, r in lmf]}, 0, True, False, False]))
        cases.append(("calculate_intersection_score", [{"dict": [[nn + 3, [1, 2]]]}, kk, True, True, False]))
    lines = ["From DSW Require Import MiniPyS MiniPySEnc.", "From DSWGen Require Import ScoreGen.", "Open Scope Z_scope."]
    for f, args in cases:
        lines.append('Eval vm_compute in enc_res (call_in score_module 300 "%s"%%string [%s]).'
                     % (f, "; ".join(_coq_gval(a) for a in args)))
    open(os.path.join(work, "SemCasesScore.v"), "w").write("\n".join(lines) + "\n")
    rc, log = _compile(work, "SemCasesScore.v")
    if rc != 0:
        return {"cases": len(cases), "compared": 0, "error": log[-600:]}
    got = [[int(x) for x in re.findall(r"-?\d+", blk.split(": list Z")[0])] for blk in log.split("= ")[1:]]
    if len(got) != len(cases):
        return {"cases": len(cases), "compared": 0, "error": "parsed %d answers for %d cases" % (len(got), len(cases))}
    prog = ("import sys, json, io, contextlib\nsys.path.insert(0, %r)\nimport numpy as np\nimport dsw\n"
            "from math import log as mlog\n"
            "EX = {ValueError: 1, IndexError: 2, TypeError: 3, OverflowError: 4, KeyError: 5}\n"
            "def conv(a):\n"
            "    if isinstance(a, dict):\n"
            "        if 'arr2' in a: return np.array(a['arr2'], dtype=int).reshape((-1, 4))\n"
            "        if 'dict' in a: return {k: list(v) for k, v in a['dict']}\n"
            "    return a\n"
            "def enc(v):\n"
            "    if isinstance(v, np.ndarray):\n"
            "        out = [7, len(v)]\n"
            "        for x in v: out += enc(x)\n"
            "        return out\n"
            "    if isinstance(v, dict):\n"
            "        out = [8, len(v)]\n"
            "        for k, x in v.items(): out += enc(k) + enc(x)\n"
            "        return out\n"
            "    if isinstance(v, (bool, np.bool_)): return [5, int(v)]\n"
            "    if isinstance(v, (int, np.integer)): return [0, int(v)]\n"
            "    if isinstance(v, (list, tuple)):\n"
            "        out = [2 if isinstance(v, list) else 3, len(v)]\n"
            "        for x in v: out += enc(x)\n"
            "        return out\n"
            "    return [4] if v is None else [99]\n"
            "out = []\n"
            "for f, a in json.load(sys.stdin):\n"
            "    try:\n"
            "        with contextlib.redirect_stdout(io.StringIO()):\n"
            "            r = getattr(dsw, f)(*[conv(x) for x in a])\n"
            "        out.append([0] + enc(r))\n"
            "    except Exception as e:\n"
            "        out.append([1, EX.get(type(e), 6)])\n"
            "from numpy import log\n"
            "print(json.dumps({'out': out, 'log_ok': all(int(log(4 ** k) / log(4)) == k for k in range(0, 31))}))\n" % (repo,))
    p = subprocess.run(["/venv/bin/python", "-c", prog], input=json.dumps(cases), stdout=subprocess.PIPE, stderr=subprocess.PIPE,
                       universal_newlines=True, env=dict(os.environ, PYTHONHASHSEED="0"))
    if p.returncode != 0:
        return {"cases": len(cases), "compared": 0, "error": p.stderr[-600:]}
    ans = json.loads(p.stdout)
    want = ans["out"]
    res = {"cases": len(cases), "compared": 0, "stuck": 0, "fuel": 0, "disagreements": [], "per_function": {}, "raised": 0,
           "int_log_ratio_exact_for_4^0..4^30": ans["log_ok"]}
    if not ans["log_ok"]:
        res["disagreements"].append({"function": "int(log(4**k)/log(4))", "note": "not the exact exponent for some k <= 30"})
    for (f, args), g, w in zip(cases, got, want):
        if g[:1] == [3]:
            res["stuck"] += 1
            continue
        if g[:1] == [2]:
            res["fuel"] += 1
            continue
        res["compared"] += 1
        res["raised"] += int(w[:1] == [1])
        res["per_function"][f] = res["per_function"].get(f, 0) + 1
        if g != w and len(res["disagreements"]) < 5:
            res["disagreements"].append({"function": f, "args": args, "minipy": g[:40], "cpython": w[:40]})
    return res


def semantics_check_matrix(work, repo, seed=0, n=90):
    """accessor_to_adjacency_matrix / adjacency_matrix_to_accessor: MiniPyM interpreter (vm_compute, external "__list_of_set__"
    = ascending order) against CPython + NumPy; also checks, on CPython itself, the assumption the theorems make of the
    iteration order of a set (MatrixRepr.set_order_ok): list(set(a) | set(b)) lists each element once, and in ascending order
    when all elements are non-negative ints inside one aligned block of four"""
    import random
    rng = random.Random(1000003 * seed + 131)
    cases = []
    for _ in range(n):
        k = rng.choice([1, 1, 2, 2])
        nn = 4 ** k
        keep = rng.choice([0.3, 0.6, 0.9, 1.0])
        rows = [[(4 * v + j) % nn if rng.random() < keep else -1 for j in range(4)] if rng.random() < 0.85 else [-1] * 4 for v in range(nn)]
        if rng.random() < 0.5:
            r = rng.random()
            if r < 0.15:                                      # an entry out of range
                rows[rng.randrange(nn)][rng.randrange(4)] = rng.choice([-2, -3, nn, nn + 5])
            elif r < 0.3:                                     # an arc that is no shift successor (still a fine accessor here)
                rows[rng.randrange(nn)][rng.randrange(4)] = rng.randrange(nn)
            width = 4 if rng.random() < 0.9 else rng.choice([3, 5])
            if width != 4:
                rows = [(rw + [-1])[:width] for rw in rows]
            ml = rng.choice([8, 8, 8, k, k + 1, 0])
            cases.append(("accessor_to_adjacency_matrix", [{"arr2": rows}, ml, rng.random() < 0.2]))
        else:
            mat = [[0] * nn for _ in range(nn)]
            for v, rw in enumerate(rows):
                for x in rw:
                    if x >= 0:
                        mat[v][x] = 1
            r = rng.random()
            if r < 0.25:                                      # a 1 that sits on no shift successor
                mat[rng.randrange(nn)][rng.randrange(nn)] = 1
            elif r < 0.35:                                    # an entry that is neither 0 nor 1
                mat[rng.randrange(nn)][rng.randrange(nn)] = rng.choice([2, -1])
            cases.append(("adjacency_matrix_to_accessor", [{"arr2": mat}, rng.random() < 0.2]))
    lines = ["From DSW Require Import MiniPyM MiniPyMEnc.", "From DSWGen Require Import MatrixGen.", "Open Scope Z_scope."]
    for f, args in cases:
        lines.append('Eval vm_compute in enc_res (call_in_ext ext_sorted matrix_module 300 "%s"%%string [%s]).'
                     % (f, "; ".join(_coq_gval(a) for a in args)))
    open(os.path.join(work, "SemCasesMatrix.v"), "w").write("\n".join(lines) + "\n")
    rc, log = _compile(work, "SemCasesMatrix.v")
    if rc != 0:
        return {"cases": len(cases), "compared": 0, "error": log[-600:]}
    got = [[int(x) for x in re.findall(r"-?\d+", blk.split(": list Z")[0])] for blk in log.split("= ")[1:]]
    if len(got) != len(cases):
        return {"cases": len(cases), "compared": 0, "error": "parsed %d answers for %d cases" % (len(got), len(cases))}
    prog = ("import sys, json, io, contextlib, random\nsys.path.insert(0, %r)\nimport numpy as np\nimport dsw\n"
            "EX = {ValueError: 1, IndexError: 2, TypeError: 3, OverflowError: 4, KeyError: 5}\n"
            "def conv(a):\n"
            "    if isinstance(a, dict) and 'arr2' in a: return np.array(a['arr2'], dtype=int)\n"
            "    return a\n"
            "def enc(v):\n"
            "    if isinstance(v, np.ndarray):\n"
            "        out = [7, len(v)]\n"
            "        for x in v: out += enc(x)\n"
            "        return out\n"
            "    if isinstance(v, (bool, np.bool_)): return [5, int(v)]\n"
            "    if isinstance(v, (int, np.integer)): return [0, int(v)]\n"
            "    return [4] if v is None else [99]\n"
            "out = []\n"
            "for f, a in json.load(sys.stdin):\n"
            "    try:\n"
            "        with contextlib.redirect_stdout(io.StringIO()):\n"
            "            r = getattr(dsw, f)(*[conv(x) for x in a])\n"
            "        out.append([0] + enc(r))\n"
            "    except Exception as e:\n"
            "        out.append([1, EX.get(type(e), 6)])\n"
            "rng = random.Random(7)\n"
            "order_ok, tried = True, 0\n"
            "for _ in range(4000):\n"
            "    base = 4 * rng.choice([rng.randrange(0, 64), rng.randrange(0, 4 ** 7), rng.randrange(0, 2 ** 40)])\n"
            "    a = [base + rng.randrange(4) for _ in range(rng.randrange(0, 5))]\n"
            "    b = [base + j for j in range(4)] if rng.random() < 0.7 else [base + rng.randrange(4) for _ in range(rng.randrange(0, 5))]\n"
            "    u = list(set(a) | set(b))\n"
            "    tried += 1\n"
            "    order_ok = order_ok and u == sorted(set(a + b))\n"
            "    c = [rng.randrange(0, 4 ** 7) for _ in range(rng.randrange(0, 9))]\n"
            "    w = list(set(c) | set(b))\n"
            "    order_ok = order_ok and sorted(w) == sorted(set(c + b)) and len(w) == len(set(w))\n"
            "print(json.dumps({'out': out, 'order_ok': order_ok, 'tried': tried}))\n" % (repo,))
    res = {"cases": len(cases), "compared": 0, "stuck": 0, "fuel": 0, "disagreements": [], "per_function": {}, "raised": 0}
    want = None
    for hs in ("0", "1", "random"):
        p = subprocess.run(["/venv/bin/python", "-c", prog], input=json.dumps(cases), stdout=subprocess.PIPE, stderr=subprocess.PIPE,
                           universal_newlines=True, env=dict(os.environ, PYTHONHASHSEED=hs))
        if p.returncode != 0:
            return {"cases": len(cases), "compared": 0, "error": p.stderr[-600:]}
        ans = json.loads(p.stdout)
        if not ans["order_ok"]:
            res["disagreements"].append({"function": "list(set(a) | set(b))", "note": "CPython's set order does not meet set_order_ok"})
        if want is not None and want != ans["out"]:
            res["disagreements"].append({"function": "*", "note": "CPython's results depend on PYTHONHASHSEED"})
        want = ans["out"]
        res["cpython_set_order_assumption"] = {"held": ans["order_ok"], "samples": ans["tried"]}
    for (f, args), g, w in zip(cases, got, want):
        if g[:1] == [3]:
            res["stuck"] += 1
            continue
        if g[:1] == [2]:
            res["fuel"] += 1
            continue
        res["compared"] += 1
        res["raised"] += int(w[:1] == [1])
        res["per_function"][f] = res["per_function"].get(f, 0) + 1
        if g != w and len(res["disagreements"]) < 5:
            res["disagreements"].append({"function": f, "args": args, "minipy": g[:40], "cpython": w[:40]})
    return res


def semantics_check_capacity(work, repo, seed=0, n=60):
    """approximate_capacity: MiniPyC interpreter (vm_compute, binary64) against CPython + NumPy, bit for bit.  The externals are
    replaced on BOTH sides by the same stand-ins: log2 := identity (libm is not modelled), 10 ** t := the float CPython computes,
    numpy.random.random := the next array of a given stream."""
    import random
    rng = random.Random(1000003 * seed + 173)
    cases = []
    for _ in range(n):
        k = rng.choice([1, 1, 2, 2])
        nn = 4 ** k
        keep = rng.choice([0.0, 0.3, 0.6, 0.9, 1.0])
        rows = [[(4 * v + j) % nn if rng.random() < keep else -1 for j in range(4)] if rng.random() < 0.85 else [-1] * 4 for v in range(nn)]
        tol = rng.choice([-10, -10, -5, -3, -1])
        repeats = rng.choice([1, 1, 2, 3])
        maxit = rng.choice([1, 2, 3, 10, 40, 500])
        stream = [[rng.random() for _ in range(nn)] for _ in range(repeats)]
        cases.append({"rows": rows, "tol": tol, "repeats": repeats, "maxit": maxit, "process": rng.random() < 0.5,
                      "verbose": rng.random() < 0.3, "stream": stream})
    lines = ["From Coq Require Import PrimFloat.", "From DSW Require Import MiniPyC MiniPyCEnc.", "From DSWGen Require Import CapacityGen.",
             "Open Scope Z_scope.",
             "Definition ext (tol : float) (f : string) (args : list val) : res val :=",
             '  if String.eqb f "__pow__" then match args with [VInt 10; VInt _] => Ret (VFloat tol) | _ => Stuck end',
             '  else if String.eqb f "__log2__" then match args with [VFloat x] => Ret (VFloat x) | _ => Stuck end else Stuck.']
    for c in cases:
        arr2 = "(VArr [%s])" % "; ".join("(VArr [%s])" % "; ".join("(VInt (%d))" % x for x in row) for row in c["rows"])
        stream = "(VList [%s])" % "; ".join("(VArr [%s])" % "; ".join("(VFloat (%s)%%float)" % float(x).hex() for x in a) for a in c["stream"])
        lines.append('Eval vm_compute in enc_res (run_fun (ext (%s)%%float) 700 approximate_capacity_def [%s; VInt (%d); VInt (%d); VInt (%d); VBool %s; VBool %s; %s]).'
                     % (float(10 ** c["tol"]).hex(), arr2, c["tol"], c["repeats"], c["maxit"], "true" if c["process"] else "false",
                        "true" if c["verbose"] else "false", stream))
    open(os.path.join(work, "SemCasesCapacity.v"), "w").write("\n".join(lines) + "\n")
    rc, log = _compile(work, "SemCasesCapacity.v")
    if rc != 0:
        return {"cases": len(cases), "compared": 0, "error": log[-600:]}
    got = [[int(x) for x in re.findall(r"-?\d+", blk.split(": list Z")[0])] for blk in log.split("= ")[1:]]
    if len(got) != len(cases):
        return {"cases": len(cases), "compared": 0, "error": "parsed %d answers for %d cases" % (len(got), len(cases))}
    prog = ("import sys, json, io, contextlib, math, warnings\nsys.path.insert(0, %r)\nimport numpy as np\nimport dsw\nimport dsw.graphized as G\n"
            "warnings.simplefilter('ignore')\n"
            "EX = {ValueError: 1, IndexError: 2, TypeError: 3, OverflowError: 4, KeyError: 5}\n"
            "def encf(x):\n"
            "    x = float(x)\n"
            "    m, e = math.frexp(abs(x))\n"
            "    return [11, 1 if x < 0 else 0, int(m * 2 ** 53), e]\n"
            "def enc(v):\n"
            "    if isinstance(v, (float, np.floating)): return encf(v)\n"
            "    if isinstance(v, (list, tuple)):\n"
            "        out = [2 if isinstance(v, list) else 3, len(v)]\n"
            "        for x in v: out += enc(x)\n"
            "        return out\n"
            "    return [99]\n"
            "class Stream:\n"
            "    def __init__(self, arrays): self.arrays = [np.array(a, dtype=float) for a in arrays]\n"
            "    def random(self, size=None):\n"
            "        a = self.arrays.pop(0)\n"
            "        assert size == (len(a),)\n"
            "        return a\n"
            "G.log2 = lambda x: x\n"
            "out = []\n"
            "for c in json.load(sys.stdin):\n"
            "    G.random = Stream(c['stream'])\n"
            "    try:\n"
            "        with contextlib.redirect_stdout(io.StringIO()):\n"
            "            r = dsw.approximate_capacity(np.array(c['rows'], dtype=int), c['tol'], c['repeats'], c['maxit'], c['process'], c['verbose'])\n"
            "        out.append([0] + enc(r))\n"
            "    except Exception as e:\n"
            "        out.append([1, EX.get(type(e), 6)])\n"
            "print(json.dumps({'out': out, 'imports_ok': hasattr(G, 'log2') and hasattr(G, 'random')}))\n" % (repo,))
    p = subprocess.run(["/venv/bin/python", "-c", prog], input=json.dumps(cases), stdout=subprocess.PIPE, stderr=subprocess.PIPE,
                       universal_newlines=True, env=dict(os.environ, PYTHONHASHSEED="0"))
    if p.returncode != 0:
        return {"cases": len(cases), "compared": 0, "error": p.stderr[-600:]}
    want = json.loads(p.stdout)["out"]
    res = {"cases": len(cases), "compared": 0, "stuck": 0, "fuel": 0, "disagreements": [], "raised": 0,
           "externals": "log2 := identity on both sides; 10 ** t := CPython's float; numpy.random.random := a given stream"}
    for c, g, w in zip(cases, got, want):
        if g[:1] == [3]:
            res["stuck"] += 1
            continue
        if g[:1] == [2]:
            res["fuel"] += 1
            continue
        res["compared"] += 1
        res["raised"] += int(w[:1] == [1])
        if g != w and len(res["disagreements"]) < 5:
            res["disagreements"].append({"function": "approximate_capacity", "args": {k: v for k, v in c.items() if k != "stream"},
                                         "minipy": g[:40], "cpython": w[:40]})
    return res


def semantics_check_shuffle(work, repo, seed=0, n=60):
    """create_random_shuffles: MiniPyD interpreter (vm_compute) against CPython + NumPy.  numpy.random.shuffle is replaced on both
    sides by "apply the next permutation of a given stream" (in place, on the row view, on the CPython side); numpy.random.seed is
    the real one on the CPython side and, on the MiniPyD side, the external function that accepts None and 0 <= seed < 2^32 and
    raises ValueError otherwise (checked here against NumPy on the boundary seeds)"""
    import random
    rng = random.Random(1000003 * seed + 211)
    cases = []
    for i in range(n):
        k = rng.choice([0, 1, 1, 2, 2, 3])
        sd = rng.choice([None, 0, 1, 12345, 2 ** 32 - 1, 2 ** 32 - 2, rng.randrange(2 ** 32), -1, 2 ** 32, 2 ** 40]) if i % 3 else rng.randrange(2 ** 32)
        perms = []
        for _ in range(4 ** k + rng.choice([0, 0, 2])):
            q = [0, 1, 2, 3]
            rng.shuffle(q)
            perms.append(q)
        cases.append({"k": k, "seed": sd, "verbose": rng.random() < 0.3, "perms": perms})
    # ... and with NOTHING replaced on the CPython side: the real numpy.random against the model of the generator (coq/MT19937.v)
    # feeding the interpreter -- the regenerated program plus the generator model must reproduce the library's table
    for i in range(14):
        cases.append({"k": [0, 1, 1, 2, 2, 3, 3][i % 7], "seed": [0, 1, 2021, 2 ** 32 - 1][i] if i < 4 else rng.randrange(2 ** 32),
                      "verbose": False, "real": True})
    lines = ["From DSW Require Import MiniPyD MiniPyDEnc MT19937.", "From DSWGen Require Import ShuffleGen.", "Open Scope Z_scope.",
             "Definition ext (f : string) (args : list val) : res val :=",
             '  if String.eqb f "__seed__" then match args with',
             "    | [VNone] => Ret VNone | [VInt z] => if (0 <=? z) && (z <? 2 ^ 32) then Ret VNone else Exn ValueError | _ => Stuck end",
             "  else Stuck."]
    for c in cases:
        if c.get("real"):
            lines.append('Eval vm_compute in enc_res (match mt_rows %d (%d) with Some rows => run_fun ext 50 create_random_shuffles_def '
                         '[VInt (%d); VInt (%d); VBool false; VList (map (fun r => VList (map VInt r)) rows)] | None => Stuck end).'
                         % (4 ** c["k"], c["seed"], c["k"], c["seed"]))
            continue
        stream = "(VList [%s])" % "; ".join("(VList [%s])" % "; ".join("(VInt (%d))" % x for x in q) for q in c["perms"])
        lines.append('Eval vm_compute in enc_res (run_fun ext 50 create_random_shuffles_def [VInt (%d); %s; VBool %s; %s]).'
                     % (c["k"], "VNone" if c["seed"] is None else "(VInt (%d))" % c["seed"], "true" if c["verbose"] else "false", stream))
    open(os.path.join(work, "SemCasesShuffle.v"), "w").write("\n".join(lines) + "\n")
    rc, log = _compile(work, "SemCasesShuffle.v")
    if rc != 0:
        return {"cases": len(cases), "compared": 0, "error": log[-600:]}
    got = [[int(x) for x in re.findall(r"-?\d+", blk.split(": list Z")[0])] for blk in log.split("= ")[1:]]
    if len(got) != len(cases):
        return {"cases": len(cases), "compared": 0, "error": "parsed %d answers for %d cases" % (len(got), len(cases))}
    prog = ("import sys, json, io, contextlib\nsys.path.insert(0, %r)\nimport numpy as np\nimport dsw\nimport dsw.spiderweb as S\n"
            "EX = {ValueError: 1, IndexError: 2, TypeError: 3, OverflowError: 4, KeyError: 5}\n"
            "def enc(v):\n"
            "    if isinstance(v, np.ndarray):\n"
            "        out = [7, len(v)]\n"
            "        for x in v: out += enc(x)\n"
            "        return out\n"
            "    if isinstance(v, (int, np.integer)): return [0, int(v)]\n"
            "    return [99]\n"
            "class Stream:\n"
            "    def __init__(self, perms): self.perms = [list(p) for p in perms]\n"
            "    def seed(self, x): np.random.seed(x)\n"
            "    def shuffle(self, a):\n"
            "        p = self.perms.pop(0)\n"
            "        a[:] = a[p]\n"
            "out = []\n"
            "REAL = S.random\n"
            "for c in json.load(sys.stdin):\n"
            "    S.random = REAL if c.get('real') else Stream(c['perms'])\n"
            "    try:\n"
            "        with contextlib.redirect_stdout(io.StringIO()):\n"
            "            r = dsw.create_random_shuffles(c['k'], c['seed'], c['verbose'])\n"
            "        out.append([0] + enc(r))\n"
            "    except Exception as e:\n"
            "        out.append([1, EX.get(type(e), 6)])\n"
            "print(json.dumps({'out': out}))\n" % (repo,))
    p = subprocess.run(["/venv/bin/python", "-c", prog], input=json.dumps(cases), stdout=subprocess.PIPE, stderr=subprocess.PIPE,
                       universal_newlines=True, env=dict(os.environ, PYTHONHASHSEED="0"))
    if p.returncode != 0:
        return {"cases": len(cases), "compared": 0, "error": p.stderr[-600:]}
    want = json.loads(p.stdout)["out"]
    res = {"cases": len(cases), "compared": 0, "stuck": 0, "fuel": 0, "disagreements": [], "raised": 0,
           "externals": "numpy.random.shuffle := apply the next permutation of a given stream; numpy.random.seed := NumPy's own on the "
                        "CPython side, 'None or 0 <= seed < 2^32, else ValueError' on the MiniPyD side"}
    for c, g, w in zip(cases, got, want):
        if g[:1] == [3]:
            res["stuck"] += 1
            continue
        if g[:1] == [2]:
            res["fuel"] += 1
            continue
        res["compared"] += 1
        res["raised"] += int(w[:1] == [1])
        res["real_generator_cases"] = res.get("real_generator_cases", 0) + int(bool(c.get("real")))
        if g != w and len(res["disagreements"]) < 5:
            res["disagreements"].append({"function": "create_random_shuffles", "args": {k: v for k, v in c.items() if k != "perms"},
                                         "minipy": g[:40], "cpython": w[:40]})
    return res


def semantics_check_monitor(work, repo, seed=0, n=140):
    """Monitor.__call__: MiniPyE interpreter (vm_compute) against CPython, INCLUDING the printed text; datetime is replaced on the
    CPython side by a stand-in whose elapsed time is the float handed to the interpreter's external "__elapsed__" """
    import random
    rng = random.Random(1000003 * seed + 239)
    cases = []
    elapsed = [-0.0, -1.5, -61.25, -3600.0, 0.0, 0.5, 1.0, 59.0, 59.99999, 60.0, 61.5, 3599.999, 3600.0, 3725.5, 86400.0, 360000.25, 1e6, 123456.789, 1e-7, 35999999.0]
    extras = [None, None, {"round": 3}, {"largest eigenvalue": "1.25000", "error": "0.50000"}, {"capacity": "0.00000"}, {}, {"valid": 17}]
    for i in range(n):
        total = rng.choice([1, 2, 3, 7, 10, 16, 20, 21, 99, 100, 101, 1000, 4 ** 8, 10 ** 6, 2 ** 40, rng.randrange(1, 10 ** 9)])
        cur = rng.choice([1, total, max(1, total // 2), max(1, total - 1), rng.randrange(1, total + 1), rng.randrange(1, total + 1)])
        if i % 11 == 0:
            cur = rng.choice([0, -1, total + 1, 2 * total, -total])
        if i % 17 == 0:
            total = rng.choice([0, 0, -3])
        cases.append({"cur": cur, "total": total, "extra": rng.choice(extras), "elapsed": rng.choice(elapsed + [rng.random() * 10 ** rng.randint(0, 7)]),
                      "fresh": rng.random() < 0.5})
    lines = ["From Coq Require Import PrimFloat.", "From DSW Require Import MiniPyE MiniPyEEnc.", "From DSWGen Require Import MonitorGen.",
             "Open Scope Z_scope.",
             "Definition ext (e : float) (f : string) (args : list val) : res val :=",
             '  if String.eqb f "__now__" then Ret (VFloat 0%float)',
             '  else if String.eqb f "__elapsed__" then match args with [VFloat _] => Ret (VFloat e) | _ => Stuck end else Stuck.']
    for c in cases:
        ex = "VNone" if c["extra"] is None else "(VDict [%s])" % "; ".join(
            "((VStr %s), %s)" % (translate_minipy.codepoints(k), ("(VInt (%d))" % v) if isinstance(v, int) else "(VStr %s)" % translate_minipy.codepoints(v))
            for k, v in c["extra"].items())
        lines.append('Eval vm_compute in enc_res (run_fun (ext (%s)%%float) 10 monitor_call_def [VInt (%d); VInt (%d); %s; %s; VList []]).'
                     % (float(c["elapsed"]).hex(), c["cur"], c["total"], ex, "VNone" if c["fresh"] else "(VFloat 0%float)"))
    open(os.path.join(work, "SemCasesMonitor.v"), "w").write("\n".join(lines) + "\n")
    rc, log = _compile(work, "SemCasesMonitor.v")
    if rc != 0:
        return {"cases": len(cases), "compared": 0, "error": log[-600:]}
    got = [[int(x) for x in re.findall(r"-?\d+", blk.split(": list Z")[0])] for blk in log.split("= ")[1:]]
    if len(got) != len(cases):
        return {"cases": len(cases), "compared": 0, "error": "parsed %d answers for %d cases" % (len(got), len(cases))}
    prog = ("import sys, json\nsys.path.insert(0, %r)\nimport dsw\nimport dsw.operation as O\n"
            "EX = {ValueError: 1, IndexError: 2, TypeError: 3, OverflowError: 4, KeyError: 5}\n"
            "class Delta:\n"
            "    def __init__(self, e): self.e = e\n"
            "    def total_seconds(self): return self.e\n"
            "class T:\n"
            "    def __sub__(self, other):\n"
            "        assert isinstance(other, T)\n"
            "        return Delta(Clock.elapsed)\n"
            "class Clock:\n"
            "    elapsed = 0.0\n"
            "    @staticmethod\n"
            "    def now(): return T()\n"
            "O.datetime = Clock\n"
            "class Rec:\n"
            "    def __init__(self): self.w = []\n"
            "    def write(self, x):\n"
            "        if x: self.w.append(x)\n"
            "    def flush(self): pass\n"
            "out = []\n"
            "for c in json.load(sys.stdin):\n"
            "    Clock.elapsed = c['elapsed']\n"
            "    m = dsw.Monitor()\n"
            "    if not c['fresh']: m.last_time = T()\n"
            "    rec, old = Rec(), sys.stdout\n"
            "    sys.stdout = rec\n"
            "    try:\n"
            "        r = m(c['cur'], c['total']) if c['extra'] is None else m(c['cur'], c['total'], extra=c['extra'])\n"
            "        sys.stdout = old\n"
            "        enc = [0, 3, 3, 4 if r is None else 99, 2, len(rec.w)]\n"
            "        for x in rec.w: enc += [1, len(x)] + [ord(ch) for ch in x]\n"
            "        enc += [4] if m.last_time is None else [11, 0, 0, 0]\n"
            "        out.append(enc)\n"
            "    except Exception as e:\n"
            "        sys.stdout = old\n"
            "        out.append([1, EX.get(type(e), 6)])\n"
            "print(json.dumps({'out': out}))\n" % (repo,))
    p = subprocess.run(["/venv/bin/python", "-c", prog], input=json.dumps(cases), stdout=subprocess.PIPE, stderr=subprocess.PIPE,
                       universal_newlines=True, env=dict(os.environ, PYTHONHASHSEED="0"))
    if p.returncode != 0:
        return {"cases": len(cases), "compared": 0, "error": p.stderr[-600:]}
    want = json.loads(p.stdout)["out"]
    res = {"cases": len(cases), "compared": 0, "stuck": 0, "fuel": 0, "disagreements": [], "raised": 0,
           "externals": "datetime.now() := a token, elapsed seconds := the given float on both sides; the printed text is compared"}
    for c, g, w in zip(cases, got, want):
        if g[:1] == [3]:
            res["stuck"] += 1
            continue
        if g[:1] == [2]:
            res["fuel"] += 1
            continue
        res["compared"] += 1
        res["raised"] += int(w[:1] == [1])
        if g != w and len(res["disagreements"]) < 5:
            res["disagreements"].append({"function": "Monitor.__call__", "args": c, "minipy": g[:60], "cpython": w[:60]})
    return res


def _coq_fval(v):
    if isinstance(v, float):
        return "(VFloat (%s)%%float)" % float(v).hex()
    if isinstance(v, list):
        return "(VList [%s])" % "; ".join(_coq_fval(x) for x in v)
    return _coq_val(v)


def semantics_check_filter(work, repo, seed=0, n=220):
    """LocalBioFilter: constructor outcome + valid() verdict, MiniPyF interpreter (vm_compute) against CPython"""
    import random
    rng = random.Random(1000003 * seed + 29)
    grid = [0.0, 0.1, 0.25, 0.3, 0.4, 0.5, 0.55, 0.6, 0.7, 0.8, 1.0]
    cases = []
    for _ in range(n):
        k = rng.randint(0, 7)
        run = rng.choice([None, None, 0, 1, 2, 3, k, k + 1])
        gc = None
        if rng.random() < 0.6:
            lo = rng.choice(grid)
            gc = [lo, rng.choice([x for x in grid if x >= lo])]
            if rng.random() < 0.1:
                gc = [0, 1]                                   # integer bounds
        motifs = rng.choice([None, None, ["AC"], ["GGG", "at"], ["A" * (k + 1)], ["ACGT", "tTa"], []])
        m = rng.randint(0, 3 * k + 2)
        sdna = "".join(rng.choice("ACGT" if rng.random() < 0.8 else "GGCC") for _ in range(m))
        if rng.random() < 0.12:
            i = rng.randint(0, len(sdna))
            sdna = sdna[:i] + rng.choice("Nacgt \n") + sdna[i:]
        cases.append({"k": k, "run": run, "gc": gc, "motifs": motifs, "s": sdna, "only_last": rng.random() < 0.5})
    lines = ["From Coq Require Import PrimFloat.", "From DSW Require Import MiniPyF MiniPyFEnc.", "From DSWGen Require Import BiofilterGen.", "Open Scope Z_scope.",
             "Definition ce0 : string -> list val -> res val := fun _ _ => Stuck."]
    for c in cases:
        ctor = "[%s]" % "; ".join(_coq_fval(x) for x in [c["k"], c["run"], c["gc"], c["motifs"]])
        val = "[%s]" % "; ".join(_coq_fval(x) for x in [c["s"], c["only_last"], c["run"], c["motifs"], c["gc"], c["k"]])
        lines.append("Eval vm_compute in (enc_proc (run_proc ce0 5 filter_init_def %s) ++ enc_res (run_fun ce0 5 filter_valid_def %s))."
                     % (ctor, val))
    open(os.path.join(work, "SemCases.v"), "w").write("\n".join(lines) + "\n")
    rc, log = _compile(work, "SemCases.v")
    if rc != 0:
        return {"cases": len(cases), "compared": 0, "error": log[-600:]}
    got = [[int(x) for x in re.findall(r"-?\d+", blk.split(": list Z")[0])] for blk in log.split("= ")[1:]]
    if len(got) != len(cases):
        return {"cases": len(cases), "compared": 0, "error": "parsed %d answers for %d cases" % (len(got), len(cases))}
    prog = ("import sys, json\nsys.path.insert(0, %r)\nimport dsw\nout = []\n"
            "for c in json.load(sys.stdin):\n"
            "    try:\n"
            "        f = dsw.LocalBioFilter(observed_length=c['k'], max_homopolymer_runs=c['run'], gc_range=c['gc'], undesired_motifs=c['motifs'])\n"
            "        a = [0]\n"
            "    except ValueError:\n"
            "        f = None\n"
            "        a = [1, 1]\n"
            "    if f is None:\n"
            "        # valid() on the fields the constructor would have stored\n"
            "        f = dsw.LocalBioFilter.__new__(dsw.LocalBioFilter)\n"
            "        f.observed_length, f.max_homopolymer_runs, f.gc_range, f.undesired_motifs = c['k'], c['run'], c['gc'], c['motifs']\n"
            "    try:\n"
            "        a += [0, 5, int(bool(f.valid(c['s'], only_last=c['only_last'])))]\n"
            "    except Exception as e:\n"
            "        a += [1, {ValueError: 1, IndexError: 2, TypeError: 3}.get(type(e), 6)]\n"
            "    out.append(a)\n"
            "print(json.dumps(out))\n" % (repo,))
    p = subprocess.run(["/venv/bin/python", "-c", prog], input=json.dumps(cases), stdout=subprocess.PIPE, stderr=subprocess.PIPE,
                       universal_newlines=True, env=dict(os.environ, PYTHONHASHSEED="0"))
    if p.returncode != 0:
        return {"cases": len(cases), "compared": 0, "error": p.stderr[-600:]}
    want = json.loads(p.stdout)
    res = {"cases": len(cases), "compared": 0, "stuck": 0, "disagreements": [], "ctor_rejects": 0, "verdict_true": 0}
    for c, g, w in zip(cases, got, want):
        proc, rest = (g[:2], g[2:]) if g[:1] == [1] else (g[:1], g[1:])
        if proc == [3] or rest == [3]:
            res["stuck"] += 1                       # outside the modelled fragment
            continue
        res["compared"] += 1
        res["ctor_rejects"] += int(w[:2] == [1, 1])
        res["verdict_true"] += int(w[-3:] == [0, 5, 1])
        if g != w and len(res["disagreements"]) < 5:
            res["disagreements"].append({"case": c, "minipy": g[:20], "cpython": w[:20]})
    return res


def units_for(cone):
    return [n for n, u in UNITS.items() if u.get("enabled", True) and any(f in cone for f in u["functions"])]


if __name__ == "__main__":
    # python regen.py <unit> [repo] [--keep dir] [--no-cache]
    a = sys.argv[1:]
    keep = a[a.index("--keep") + 1] if "--keep" in a else None
    pos = [x for i, x in enumerate(a) if not x.startswith("--") and (i == 0 or a[i - 1] != "--keep")]
    r = run_unit(pos[0], pos[1] if len(pos) > 1 else "/repo", use_cache="--no-cache" not in a, keep=keep)
    print(json.dumps(r, indent=1))
    sys.exit(0 if r.get("proved") else 1)
