#!/bin/bash
# Build the framework from files on disk only (offline): full .vo build of the Coq development,
# extraction of the executable model, OCaml driver.
set -e
cd "$(dirname "$0")/coq"
coq_makefile -f _CoqProject -o Makefile > /dev/null
timeout 3000 make -j16
cd extract
timeout 600 coqc -Q .. DSW Extract.v
ocamlfind ocamlopt -O3 -package str model.mli model.ml driver.ml -o driver
echo "setup done"
