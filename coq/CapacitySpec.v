(* CapacitySpec.v -- layer 1 for C17: capacity is the growth rate of the number of n-step walks; a positive vector x
   with  r * x <= A x  (on a sub-graph)  and  A x <= R * x  brackets that growth rate for EVERY n (Collatz-Wielandt),
   with r = pl/ql and R = pu/qu rationals.  Integer arithmetic only.  Definitions only. *)
From DSW Require Import Py Kmer Graph Spec GraphSpec.

Definition succs (acc : accessor) (v : Z) : list Z := live_entries (get_row acc v).
(* number of n-step walks from v *)
Fixpoint walks (acc : accessor) (n : nat) (v : Z) : Z :=
  match n with O => 1 | S m => sumZ (map (walks acc m) (succs acc v)) end.
(* number of n-step walks from v that stay inside the vertex list S *)
Fixpoint walks_in (acc : accessor) (S : list Z) (n : nat) (v : Z) : Z :=
  match n with O => 1 | S m => sumZ (map (walks_in acc S m) (filter (fun u => memZ u S) (succs acc v))) end.

Definition xat (x : list Z) (v : Z) : Z := nth (Z.to_nat v) x 0.

(* upper certificate:  x > 0 everywhere and  q * (A x)_v <= p * x_v  for every vertex *)
Definition cert_upper (acc : accessor) (x : list Z) (p q : Z) : bool :=
  (0 <? q) && (0 <=? p) && Nat.eqb (length x) (length acc) &&
  forallb (fun v => (0 <? xat x v) && (q * sumZ (map (xat x) (succs acc v)) <=? p * xat x v)) (zrange (length acc)).
(* lower certificate on the vertex list S:  x > 0 on S and  p * x_v <= q * (A_S x)_v  for every v in S *)
Definition cert_lower (acc : accessor) (S : list Z) (x : list Z) (p q : Z) : bool :=
  (0 <? q) && (0 <=? p) &&
  forallb (fun v => (0 <=? v) && (v <? Z.of_nat (length acc)) && (0 <? xat x v) &&
                    (p * xat x v <=? q * sumZ (map (xat x) (filter (fun u => memZ u S) (succs acc v))))) S.
