(* Dispatch.v -- the line protocol of the correspondence check, written in Gallina so that
   the OCaml driver only has to parse and print lists of integers.
   A call is a list of integer lists: [fn_id] :: arguments.  The answer is a list of integer
   lists whose head is the status: [0] = returned, [1; code] = raised, [2] = out of fuel,
   [9] = malformed call.  Structured arguments are flattened:
     accessor / shuffle table : the 4n entries row by row ([] = None for the table)
     optional string          : [] = None, 1 :: chars = Some chars
     latter map               : key, count, successors ..., key, count, ...
     list of strings          : length, chars ..., length, chars ... *)
From DSW Require Import Py Bignum Convert Kmer Graph Coder Repair Filter Score MT19937.

Definition out_result {A} (enc : A -> list (list Z)) (r : result A) : list (list Z) :=
  match r with
  | Ok a => [0] :: enc a
  | Raise e => [[1; exn_code e]]
  | OutOfFuel => [[2]]
  end.

Definition a1 (l : list Z) : Z := hd 0 l.
Definition natarg (l : list Z) : nat := Z.to_nat (hd 0 l).
Definition boolarg (l : list Z) : bool := negb (hd 0 l =? 0).
Definition b2z (b : bool) : Z := if b then 1 else 0.
Definition bad : list (list Z) := [[9]].

Fixpoint chunk4 (l : list Z) : list (list Z) :=
  match l with a :: b :: c :: d :: t => [a; b; c; d] :: chunk4 t | _ => [] end.
Definition opt_table (l : list Z) : option (list (list Z)) := match l with [] => None | _ => Some (chunk4 l) end.
Definition opt_string (l : list Z) : option (list Z) := match l with [] => None | _ :: t => Some t end.
Definition enc_opt_string (o : option (list Z)) : list Z := match o with None => [] | Some s => 1 :: s end.

Fixpoint chunks_of (fuel : nat) (n : nat) (l : list Z) : list (list Z) :=
  match fuel with O => [] | S f => match l with [] => [] | _ => firstn n l :: chunks_of f n (skipn n l) end end.

(* length-prefixed groups: len, items..., len, items... *)
Fixpoint groups (fuel : nat) (l : list Z) : list (list Z) :=
  match fuel with
  | O => []
  | S f => match l with
           | [] => []
           | n :: t => firstn (Z.to_nat n) t :: groups f (skipn (Z.to_nat n) t)
           end
  end.
Definition enc_groups (ls : list (list Z)) : list Z := flat_map (fun s => Z.of_nat (length s) :: s) ls.

Fixpoint dec_lmap (fuel : nat) (l : list Z) : lmap :=
  match fuel with
  | O => []
  | S f => match l with
           | k :: n :: t => (k, firstn (Z.to_nat n) t) :: dec_lmap f (skipn (Z.to_nat n) t)
           | _ => []
           end
  end.
Definition enc_lmap (m : lmap) : list Z := flat_map (fun kv => fst kv :: Z.of_nat (length (snd kv)) :: snd kv) m.

(* [k; run_flag; run; gc_flag; gmin; gmax; amax; motifs_flag] and the motifs as groups *)
Definition dec_cfg (h : list Z) (ms : list Z) : cfg :=
  match h with
  | [k; rf; r; gf; gmin; gmax; amax; mf] =>
      {| f_k := k; f_run := if rf =? 0 then None else Some r;
         f_motifs := if mf =? 0 then None else Some (groups (length ms) ms);
         f_gc := if gf =? 0 then None else Some (gmin, gmax, amax) |}
  | _ => {| f_k := 1; f_run := None; f_motifs := None; f_gc := None |}
  end.

Definition enc_records (rs : list record) : list Z :=
  flat_map (fun r => let '(kind, c, s) := r in kind :: c :: Z.of_nat (length s) :: s) rs.

Definition dispatch_basic (fn : Z) (args : list (list Z)) : option (list (list Z)) :=
  match fn, args with
  | 1, [n; b] => Some [[0]; calculus_addition n (a1 b)]
  | 2, [n; b] => Some [[0]; calculus_subtraction n (a1 b)]
  | 3, [n; b] => Some [[0]; calculus_multiplication n (a1 b)]
  | 4, [n; b] => Some (let '(q, r) := calculus_division n (a1 b) in [[0]; q; [r]])
  | 5, [bits] => Some [[0]; bit_to_number_str bits]
  | 6, [bits] => Some [[0]; [bit_to_number_int bits]]
  | 7, [d; len] => Some (out_result (fun l => [l]) (number_to_bit_str d (a1 len)))
  | 8, [n; len] => Some (out_result (fun l => [l]) (number_to_bit_int (a1 n) (a1 len)))
  | 9, [s] => Some (out_result (fun l => [l]) (dna_to_number_str s))
  | 10, [s] => Some (out_result (fun z => [[z]]) (dna_to_number_int s))
  | 11, [d; len] => Some (out_result (fun l => [l]) (number_to_dna_str d (a1 len)))
  | 12, [n; len] => Some (out_result (fun l => [l]) (number_to_dna_int (a1 n) (a1 len)))
  | 13, [v; k] => Some [[0]; obtain_latters (a1 v) (natarg k)]
  | 14, [v; k] => Some [[0]; obtain_formers (a1 v) (natarg k)]
  | 15, [k] => Some [[0]; concat (get_complete_accessor (natarg k))]
  | 16, [bits] =>          (* composite: both forward paths and both round trips at the original width *)
      let ds := bit_to_number_str bits in let di := bit_to_number_int bits in
      let len := Z.of_nat (length bits) in
      Some (out_result (fun r => [ds; [di]; fst r; snd r])
              (bs <- number_to_bit_str ds len ;; bi <- number_to_bit_int di len ;; Ok (bs, bi)))
  | 17, [s] =>
      let len := Z.of_nat (length s) in
      Some (out_result (fun r => r)
              (ds <- dna_to_number_str s ;; di <- dna_to_number_int s ;;
               bs <- number_to_dna_str ds len ;; bi <- number_to_dna_int di len ;; Ok [ds; [di]; bs; bi]))
  | _, _ => None
  end.

Definition dispatch_coder (fn : Z) (args : list (list Z)) : option (list (list Z)) :=
  match fn, args with
  | 20, [bits; acc; v; faster; vtl; sh; fuel] =>
      Some (out_result (fun r => [fst r; enc_opt_string (snd r)])
              (encode bits (chunk4 acc) (a1 v) (boolarg faster) (a1 vtl) (opt_table sh) (natarg fuel)))
  | 21, [s; len; acc; v; faster; vt; sh] =>
      Some (out_result (fun l => [l])
              (decode s (a1 len) (chunk4 acc) (a1 v) (boolarg faster) (opt_string vt) (opt_table sh)))
  | 22, [s; n] => Some (out_result (fun l => [l]) (set_vt s (a1 n)))
  | 23, [s; acc; prev; occ; indel] =>
      Some (out_result (fun r => [enc_records (fst r); [snd r]])
              (path_matching s (chunk4 acc) (a1 prev) (a1 occ) (boolarg indel)))
  | 24, [s; acc; v0; k; vt; indel; heap] =>
      Some (out_result (fun r => let '(cands, (det, flag, count, visited)) := r in
                                 [enc_groups cands; [det; b2z flag; count; visited]])
              (repair_dna s (chunk4 acc) (a1 v0) (a1 k) (opt_string vt) (boolarg indel) (a1 heap)))
  | 49, [bits; acc; v; faster; sh; fuel] =>   (* composite: encode then decode with the same arguments *)
      Some (out_result (fun r => [fst r; snd r])
              (e <- encode bits (chunk4 acc) (a1 v) (boolarg faster) 0 (opt_table sh) (natarg fuel) ;;
               d <- decode (fst e) (Z.of_nat (length bits)) (chunk4 acc) (a1 v) (boolarg faster) None (opt_table sh) ;;
               Ok (fst e, d)))
  | 50, [bits; acc; v; faster; vtl; sh; fuel] =>   (* composite: encode (with check), then decode with the check *)
      Some (out_result (fun r => r)
              (e <- encode bits (chunk4 acc) (a1 v) (boolarg faster) (a1 vtl) (opt_table sh) (natarg fuel) ;;
               d <- decode (fst e) (Z.of_nat (length bits)) (chunk4 acc) (a1 v) (boolarg faster) (snd e) (opt_table sh) ;;
               Ok [fst e; enc_opt_string (snd e); d]))
  | _, _ => None
  end.

Definition table_filter (tbl : list Z) (s : list Z) : bool :=
  match dna_to_number_int s with Ok v => negb (nth (Z.to_nat v) tbl 0 =? 0) | _ => false end.

(* a history of remove_nasty_arc calls on the views handed back by the previous call, up to the first call that raises:
   per returning call [accessor; latter map; [former; latter]; positive scores], then [1; code] of the raising call
   (or [0] when all calls returned) *)
Fixpoint removal_history (flags : list Z) (acc : accessor) (m : lmap) : list (list Z) :=
  match flags with
  | [] => [[0]]
  | f :: rest =>
      match remove_nasty_arc acc m (negb (f mod 2 =? 0)) (negb (f / 2 =? 0)) with
      | Ok (acc', m', (u, v), sc) => [concat acc'; enc_lmap m'; [u; v]; sc] ++ removal_history rest acc' m'
      | Raise e => [[1; exn_code e]]
      | OutOfFuel => [[2]]
      end
  end.

Definition dispatch_graph (fn : Z) (args : list (list Z)) : option (list (list Z)) :=
  match fn, args with
  | 30, [acc] => Some [[0]; obtain_vertices (chunk4 acc)]
  | 31, [acc] => Some [[0]; enc_lmap (accessor_to_latter_map (chunk4 acc))]
  | 32, [m; k; thr] =>
      Some (out_result (fun a => [concat a])
              (latter_map_to_accessor (dec_lmap (length m) m) (natarg k)
                                      (match thr with [] => None | t :: _ => Some t end)))
  | 33, [m; t] => Some (out_result (fun r => [enc_lmap r]) (remove_useless (dec_lmap (length m) m) (a1 t)))
  | 34, [acc; maxlen] =>
      Some (out_result (fun r => [concat r]) (accessor_to_adjacency_matrix (chunk4 acc) (natarg maxlen)))
  | 35, [mat; n] =>
      Some (out_result (fun a => [concat a]) (adjacency_matrix_to_accessor (chunks_of (natarg n) (natarg n) mat)))
  | 36, [acc; v; depth] => Some (out_result (fun l => [l]) (leaves_acc (natarg depth) (chunk4 acc) [a1 v]))
  | 37, [m; v; depth] => Some [[0]; leaves_map (natarg depth) (dec_lmap (length m) m) [a1 v]]
  | 38, [k; tbl] => Some (out_result (fun l => [l]) (find_vertices (natarg k) (table_filter tbl)))
  | 39, [k; mask] => Some (out_result (fun a => [concat a]) (connect_valid_graph (natarg k) mask))
  | 40, [k; mask; t] =>
      Some (out_result (fun r => [fst r; concat (snd r)]) (connect_coding_graph (natarg k) mask (a1 t)))
  | 51, [k; mask; t] =>    (* composite: graph generation, and the latter-map trimming of the valid graph *)
      let main := match connect_coding_graph (natarg k) mask (a1 t) with
                  | Ok (v, acc) => Ok [[1]; v; concat acc]
                  | Raise ValueError => Ok [[0]; []; []]
                  | Raise e => Raise e
                  | OutOfFuel => OutOfFuel
                  end in
      let second := match connect_valid_graph (natarg k) mask with
                    | Ok valid => r <- latter_map_to_accessor (accessor_to_latter_map valid) (natarg k) (Some (a1 t)) ;;
                                  Ok [concat r]
                    | Raise ValueError => Ok [[]]
                    | Raise e => Raise e
                    | OutOfFuel => OutOfFuel
                    end in
      Some (out_result (fun r => r) (a <- main ;; b <- second ;; Ok (a ++ b)))
  | 52, [k; h; ms; t; vsel; bits; faster; sh; fuel] =>
      (* composite (C02): LocalBioFilter -> vertices -> coding graph -> start vertex -> encode -> filter verdicts *)
      let c := dec_cfg h ms in
      let kk := natarg k in
      Some (out_result (fun r => r)
        (mask <- find_vertices kk (valid c true) ;;
         g <- connect_coding_graph kk mask (a1 t) ;;
         let '(V, acc) := g in
         let v0 := nth (Z.to_nat (a1 vsel mod Z.of_nat (length V))) V 0 in
         e <- encode bits acc v0 (boolarg faster) 0 (opt_table sh) (natarg fuel) ;;
         let s := fst e in
         let whole := kmer_string kk v0 ++ s in
         Ok [[v0]; s; [b2z (valid c false s); b2z (valid c false whole)];
             map (fun i => b2z (valid c true (firstn kk (skipn i whole)))) (seq 0 (S (length s)))]))
  | 53, [acc; flags] =>
      let a := chunk4 acc in Some ([0] :: removal_history flags a (accessor_to_latter_map a))
  | 54, [k; tbl; t; vsel; bits; faster; sh; fuel] =>
      (* composite (C02): user-defined table filter -> vertices -> coding graph -> start vertex -> encode -> window verdicts *)
      let f := table_filter tbl in
      let kk := natarg k in
      Some (out_result (fun r => r)
        (mask <- find_vertices kk f ;;
         g <- connect_coding_graph kk mask (a1 t) ;;
         let '(V, acc) := g in
         let v0 := nth (Z.to_nat (a1 vsel mod Z.of_nat (length V))) V 0 in
         e <- encode bits acc v0 (boolarg faster) 0 (opt_table sh) (natarg fuel) ;;
         let s := fst e in
         let whole := kmer_string kk v0 ++ s in
         Ok [[v0]; s; map (fun i => b2z (f (firstn kk (skipn i whole)))) (seq 0 (S (length s)))]))
  | 55, [k; seed] =>       (* the table create_random_shuffles builds after numpy.random.seed(seed): NumPy's MT19937 (MT19937.v) *)
      Some (match mt_rows (Z.to_nat (pow4 (natarg k))) (a1 seed) with Some rows => [[0]; concat rows] | None => [[2]] end)
  | 41, [h; ms; only_last; s] => Some [[0]; [b2z (valid (dec_cfg h ms) (boolarg only_last) s)]]
  | 42, [h; ms] => Some [[0]; [b2z (ctor_accepts (dec_cfg h ms))]]
  | 43, [k; h; ms] => Some (out_result (fun l => [l]) (find_vertices (natarg k) (valid (dec_cfg h ms) true)))
  | 44, [m; k; ins; del] =>
      Some (out_result (fun sc => [concat sc])
              (calculate_intersection_score (dec_lmap (length m) m) (natarg k) (boolarg ins) (boolarg del)))
  | 45, [acc; m; ins; del] =>
      Some (out_result (fun r => let '(acc', m', (f, l), sc) := r in [concat acc'; enc_lmap m'; [f; l]; sc])
              (remove_nasty_arc (chunk4 acc) (dec_lmap (length m) m) (boolarg ins) (boolarg del)))
  | 46, [acc; k] =>        (* composite: latter map and the round trip through it *)
      let m := accessor_to_latter_map (chunk4 acc) in
      Some (out_result (fun a => [enc_lmap m; concat a]) (latter_map_to_accessor m (natarg k) None))
  | 47, [acc; v; depth] => (* composite: leaf query from both representations *)
      let a := chunk4 acc in
      Some (out_result (fun l => [l; leaves_map (natarg depth) (accessor_to_latter_map a) [a1 v]])
              (leaves_acc (natarg depth) a [a1 v]))
  | 48, [acc] =>           (* composite: matrix and the round trip through it (maximum_length = 8) *)
      Some (out_result (fun r => [concat (fst r); concat (snd r)])
              (m <- accessor_to_adjacency_matrix (chunk4 acc) 8 ;; b <- adjacency_matrix_to_accessor m ;; Ok (m, b)))
  | _, _ => None
  end.

Definition dispatch (call : list (list Z)) : list (list Z) :=
  match call with
  | [fn] :: args =>
      match dispatch_basic fn args with
      | Some r => r
      | None => match dispatch_coder fn args with
                | Some r => r
                | None => match dispatch_graph fn args with Some r => r | None => bad end
                end
      end
  | _ => bad
  end.
