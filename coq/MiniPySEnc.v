(* MiniPyEnc.v -- flat integer encoding of MiniPy results, used by the semantics cross-check of harness/regen.py (the
   regenerated programs are run by the interpreter under vm_compute and by CPython on the same arguments). *)
From DSW Require Import MiniPyS.
Open Scope Z_scope.

Fixpoint enc_val (v : val) : list Z :=
  match v with
  | VInt z => [0; z]
  | VStr s => 1 :: Z.of_nat (length s) :: s
  | VList l => 2 :: Z.of_nat (length l) :: (fix go (l : list val) : list Z := match l with [] => [] | x :: t => enc_val x ++ go t end) l
  | VTuple l => 3 :: Z.of_nat (length l) :: (fix go (l : list val) : list Z := match l with [] => [] | x :: t => enc_val x ++ go t end) l
  | VNone => [4]
  | VBool b => [5; if b then 1 else 0]
  | VOpaque => [6]
  | VArr l => 7 :: Z.of_nat (length l) :: (fix go (l : list val) : list Z := match l with [] => [] | x :: t => enc_val x ++ go t end) l
  | VDict d => 8 :: Z.of_nat (length d) :: (fix go (d : list (val * val)) : list Z := match d with [] => [] | (k, v) :: t => enc_val k ++ enc_val v ++ go t end) d
  | VRatio a b => [9; a; b]
  | VSet l => 10 :: Z.of_nat (length l) :: (fix go (l : list val) : list Z := match l with [] => [] | x :: t => enc_val x ++ go t end) l
  end.

Definition enc_res (r : res val) : list Z :=
  match r with
  | Ret v => 0 :: enc_val v
  | Exn e => [1; exn_code e]
  | Fuel => [2]
  | Stuck => [3]
  end.
