(* Spec.v -- layer 1: the short declarative vocabulary the property theorems are stated in.
   Definitions only. *)
From DSW Require Import Py.

(* ---- decimal numerals -------------------------------------------------------------- *)
(* value of a big-endian digit list (Horner) *)
Definition dval (l : list Z) : Z := fold_left (fun a d => 10 * a + d) l 0.
(* value of a big-endian digit list in radix b *)
Definition rval (b : Z) (l : list Z) : Z := fold_left (fun a d => b * a + d) l 0.

Definition digit (d : Z) : Prop := 0 <= d < 10.
(* the canonical decimal string of a natural number: non-empty, digits, no leading zero
   unless the string is "0" *)
Definition canonical (l : list Z) : Prop :=
  l <> [] /\ Forall digit l /\ (forall t, l = 0 :: t -> t = []).

Definition bit (d : Z) : Prop := d = 0 \/ d = 1.
Definition bits_ok (l : list Z) : Prop := Forall bit l.
Definition nuc (d : Z) : Prop := 0 <= d < 4.
Definition acgt (s : list Z) : Prop := Forall (fun c => is_acgt c = true) s.

(* ---- k-mers ------------------------------------------------------------------------- *)
(* a k-mer is a list of nucleotide values 0..3; its index is its big-endian base-4 value *)
Definition kmer_index (km : list Z) : Z := rval 4 km.
Definition is_kmer (k : nat) (km : list Z) : Prop := length km = k /\ Forall nuc km.
