(* driver.ml -- reads one call per line ("fn;arg,arg;arg,..."), prints the model's answer in the
   same format.  Integers: decimal, or b<binary digits> / -b<binary digits> for big ones. *)
open Model

let rec pos_of_int n =
  if n = 1 then XH else if n land 1 = 1 then XI (pos_of_int (n lsr 1)) else XO (pos_of_int (n lsr 1))
let z_of_int n = if n = 0 then Z0 else if n > 0 then Zpos (pos_of_int n) else Zneg (pos_of_int (- n))

let pos_of_bits s =
  (* s: binary digits, most significant first, s.[0] = '1' *)
  let p = ref XH in
  for i = 1 to String.length s - 1 do
    p := if s.[i] = '1' then XI !p else XO !p
  done; !p

let z_of_token t =
  let n = String.length t in
  if n >= 2 && t.[0] = 'b' then
    (let s = String.sub t 1 (n - 1) in
     match String.index_opt s '1' with
     | None -> Z0
     | Some i -> Zpos (pos_of_bits (String.sub s i (String.length s - i))))
  else if n >= 3 && t.[0] = '-' && t.[1] = 'b' then
    (let s = String.sub t 2 (n - 2) in
     match String.index_opt s '1' with
     | None -> Z0
     | Some i -> Zneg (pos_of_bits (String.sub s i (String.length s - i))))
  else z_of_int (int_of_string t)

let rec pos_size p = match p with XH -> 1 | XO q -> 1 + pos_size q | XI q -> 1 + pos_size q
let rec int_of_pos p = match p with XH -> 1 | XO q -> 2 * int_of_pos q | XI q -> 2 * int_of_pos q + 1
let bits_of_pos p =
  let b = Buffer.create 64 in
  let rec go p acc = match p with
    | XH -> '1' :: acc
    | XO q -> go q ('0' :: acc)
    | XI q -> go q ('1' :: acc) in
  List.iter (Buffer.add_char b) (go p []); Buffer.contents b

let token_of_z z = match z with
  | Z0 -> "0"
  | Zpos p -> if pos_size p <= 60 then string_of_int (int_of_pos p) else "b" ^ bits_of_pos p
  | Zneg p -> if pos_size p <= 60 then string_of_int (- (int_of_pos p)) else "-b" ^ bits_of_pos p

let parse_list s =
  if s = "" then [] else List.map z_of_token (String.split_on_char ',' s)
let parse_line l = List.map parse_list (String.split_on_char ';' l)
let print_answer a =
  print_string (String.concat ";" (List.map (fun l -> String.concat "," (List.map token_of_z l)) a));
  print_newline ()

let () =
  try
    while true do
      let line = input_line stdin in
      (try print_answer (dispatch (parse_line line))
       with Stack_overflow -> print_string "8\n" | Failure _ -> print_string "9\n")
    done
  with End_of_file -> ()
