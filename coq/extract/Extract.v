(* Extraction of the executable model.  ExtrOcamlBasic only: bool, option, unit, list,
   prod, sumbool map to the OCaml types; Z, positive, N, nat stay the extracted inductive
   types (no Extract Constant, no mapping to OCaml int). *)
Require Import DSW.Dispatch.
From Coq Require Import ExtrOcamlBasic.
Extraction Language OCaml.
Extraction "model.ml" dispatch.
