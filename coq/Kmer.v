(* Kmer.v -- layer 0: obtain_latters, obtain_formers, get_complete_accessor
   (dsw/graphized.py 7-53, 380-463). *)
From DSW Require Import Py.

Definition obtain_latters (current : Z) (k : nat) : list Z :=
  map (fun j => (current * 4 + j) mod pow4 k) [0; 1; 2; 3].

(* int(4 ** (k - 1)): for k = 0 Python computes int(0.25) = 0 *)
Definition pow4_pred (k : nat) : Z := match k with O => 0 | S k' => pow4 k' end.

Definition obtain_formers (current : Z) (k : nat) : list Z :=
  map (fun j => current / 4 + j * pow4_pred k) [0; 1; 2; 3].

(* range(n) as Z *)
Fixpoint zrange_from (start : Z) (n : nat) : list Z :=
  match n with O => [] | S m => start :: zrange_from (start + 1) m end.
Definition zrange (n : nat) : list Z := zrange_from 0 n.
Definition vertices_of (k : nat) : list Z := zrange (Z.to_nat (pow4 k)).

Definition get_complete_accessor (k : nat) : list (list Z) :=
  map (fun v => obtain_latters v k) (vertices_of k).
