(* Api.v -- the modelled API as a state machine over shared argument objects (C20).
   A world is the list of shared argument objects (flattened as in Dispatch.v); a call names a function and takes each
   argument either from a slot of the world or as a literal.  Every modelled function computes on its arguments only;
   the single documented exception is remove_nasty_arc (fn 45), which hands back the updated accessor and latter map:
   the step writes them into the slots they came from. *)
From DSW Require Import Py Dispatch.

Definition world := list (list Z).
Inductive arg := Slot (i : nat) | Lit (l : list Z).
Record call := { c_fn : Z; c_args : list arg }.

Definition resolve (w : world) (a : arg) : list Z := match a with Slot i => nth i w [] | Lit l => l end.
Definition outcome (w : world) (c : call) : list (list Z) := dispatch ([c_fn c] :: map (resolve w) (c_args c)).

Definition is_removal (c : call) : bool := c_fn c =? 45.
(* in-place effect of arc removal: slots of the first two arguments receive the returned views *)
Definition write_back (w : world) (c : call) (ans : list (list Z)) : world :=
  match c_args c, ans with
  | Slot i :: Slot j :: _, [0] :: acc' :: m' :: _ => set_nth (set_nth w i acc') j m'
  | _, _ => w
  end.
Definition api_step (w : world) (c : call) : world * list (list Z) :=
  let ans := outcome w c in
  (if is_removal c then write_back w c ans else w, ans).

Fixpoint run (calls : list call) (w : world) : world * list (list (list Z)) :=
  match calls with
  | [] => (w, [])
  | c :: rest => let '(w1, a) := api_step w c in let '(w2, outs) := run rest w1 in (w2, a :: outs)
  end.
