(* Coder.v -- layer 0: encode, decode, set_vt (dsw/spiderweb.py 11-337, with the repairs of
   set_vt and of the fast mode).  Strands are lists of code points, bit arrays lists of Z,
   the running quotient is a decimal digit list handled by Bignum exactly as the Python
   handles its decimal string. *)
From DSW Require Import Py Bignum Convert Kmer.

Definition accessor := list (list Z).

(* shuffles[vertex_index, used_indices] then argsort(...)[remainder] *)
Definition shuffle_digit (shuffles : option (list (list Z))) (v : Z) (used : list Z) (rem : Z) : result Z :=
  match shuffles with
  | None => Ok rem
  | Some sh => srow <- py_get sh v ;; py_get (argsort (pick srow used)) rem
  end.
(* where(argsort(shuffles[vertex_index, used_indices]) == remainder)[0][0] *)
Definition unshuffle_digit (shuffles : option (list (list Z))) (v : Z) (used : list Z) (rem : Z) : result Z :=
  match shuffles with
  | None => Ok rem
  | Some sh => srow <- py_get sh v ;;
               match first_pos rem (argsort (pick srow used)) 0 with
               | Some p => Ok p
               | None => Raise IndexError
               end
  end.

(* ---- encode, normal mode (69-106) --------------------------------------------------------- *)
Fixpoint encode_normal (fuel : nat) (q : list Z) (acc : accessor) (v : Z) (sh : option (list (list Z)))
  : result (list Z) :=
  if is_zero_str q then Ok [] else
  match fuel with
  | O => OutOfFuel
  | S f =>
      row <- py_get acc v ;;
      let used := used_indices row in
      match used with
      | [] => Raise ValueError
      | [j] =>
          nxt <- py_get row j ;;
          rest <- encode_normal f q acc nxt sh ;; Ok (nuc_char j :: rest)
      | _ =>
          let '(q', rem) := calculus_division q (Z.of_nat (length used)) in
          rem' <- shuffle_digit sh v used rem ;;
          j <- py_get used rem' ;;
          nxt <- py_get row j ;;
          rest <- encode_normal f q' acc nxt sh ;; Ok (nuc_char j :: rest)
      end
  end.

(* ---- encode, fast mode (108-145) ---------------------------------------------------------- *)
Fixpoint encode_fast (fuel : nat) (bits : list Z) (acc : accessor) (v : Z) (sh : option (list (list Z)))
  : result (list Z) :=
  match bits with
  | [] => Ok []
  | b0 :: bits1 =>
      match fuel with
      | O => OutOfFuel
      | S f =>
          row <- py_get acc v ;;
          let used := used_indices row in
          let radix := Z.of_nat (length used) in
          if radix =? 4 then
            let '(rem, bits') := match bits1 with
                                 | [] => (b0 * 2, [])              (* the missing low bit is padded with 0 *)
                                 | b1 :: bits2 => (b0 * 2 + b1, bits2)
                                 end in
            rem' <- shuffle_digit sh v used rem ;;
            j <- py_get used rem' ;; nxt <- py_get row j ;;
            rest <- encode_fast f bits' acc nxt sh ;; Ok (nuc_char j :: rest)
          else if radix =? 2 then
            rem' <- shuffle_digit sh v used b0 ;;
            j <- py_get used rem' ;; nxt <- py_get row j ;;
            rest <- encode_fast f bits1 acc nxt sh ;; Ok (nuc_char j :: rest)
          else if radix =? 1 then
            j <- py_get used 0 ;; nxt <- py_get row j ;;
            rest <- encode_fast f bits acc nxt sh ;; Ok (nuc_char j :: rest)
          else Raise ValueError                                       (* radix 3 and radix 0 *)
      end
  end.

(* ---- set_vt (303-337, repaired) ----------------------------------------------------------- *)
(* sum of the 0-based positions i with values[i] < values[i+1] *)
Fixpoint ascent_sum (vs : list Z) (i : Z) : Z :=
  match vs with
  | a :: ((b :: _) as t) => (if a <? b then i else 0) + ascent_sum t (i + 1)
  | _ => 0
  end.

Definition set_vt (s : list Z) (n : Z) : result (list Z) :=
  vs <- nuc_values s ;;
  let flag := sumZ vs mod 4 in
  if n =? 0 then Ok [nuc_char flag]        (* 4 ** -1 = 0.25, x % 0.25 = 0.0, number_to_dna(0, -1) = "" *)
  else
    let vt_value := ascent_sum vs 0 mod 4 ^ (n - 1) in
    tail <- number_to_dna_int vt_value (n - 1) ;;
    Ok (nuc_char flag :: tail).

Definition encode (bits : list Z) (acc : accessor) (v : Z) (faster : bool) (vt_length : Z)
           (sh : option (list (list Z))) (fuel : nat) : result (list Z * option (list Z)) :=
  s <- (if faster then encode_fast fuel bits acc v sh
        else encode_normal fuel (bit_to_number_str bits) acc v sh) ;;
  if 0 <? vt_length then chk <- set_vt s vt_length ;; Ok (s, Some chk) else Ok (s, None).

(* ---- decode, normal mode (227-265) -------------------------------------------------------- *)
(* returns the saved (out_degree, digit) pairs in strand order *)
Fixpoint decode_walk (s : list Z) (acc : accessor) (v : Z) (sh : option (list (list Z)))
  : result (list (Z * Z)) :=
  match s with
  | [] => Ok []
  | c :: t =>
      row <- py_get acc v ;;
      let used := used_indices row in
      match used with
      | [] => Raise ValueError
      | [j] =>
          if c =? nuc_char j
          then nxt <- py_get row j ;; decode_walk t acc nxt sh
          else Raise ValueError
      | _ =>
          match nuc_index c with
          | None => Raise ValueError
          | Some j =>
              match first_pos j used 0 with
              | None => Raise ValueError
              | Some rem =>
                  rem' <- unshuffle_digit sh v used rem ;;
                  nxt <- py_get row j ;;
                  rest <- decode_walk t acc nxt sh ;;
                  Ok ((Z.of_nat (length used), rem') :: rest)
              end
          end
      end
  end.

(* for (out_degree, number) in saved_values[::-1]: quotient = quotient * out_degree + number *)
Definition horner_str (saved : list (Z * Z)) : list Z :=
  fold_left (fun q dn => calculus_addition (calculus_multiplication q (fst dn)) (snd dn)) (rev saved) [0].

(* ---- decode, fast mode (267-298, repaired) ------------------------------------------------ *)
Definition write_bit (bits : list Z) (pos : Z) (x : Z) : result (list Z) :=
  if (pos <? 0) || (Z.of_nat (length bits) <=? pos) then Raise IndexError
  else Ok (set_nth bits (Z.to_nat pos) x).

Fixpoint decode_fast (s : list Z) (acc : accessor) (v : Z) (sh : option (list (list Z)))
         (bits : list Z) (loc : Z) : result (list Z) :=
  match s with
  | [] => Ok bits
  | c :: t =>
      row <- py_get acc v ;;
      let used := used_indices row in
      let radix := Z.of_nat (length used) in
      match nuc_index c with
      | None => Raise ValueError
      | Some j =>
          match first_pos j used 0 with
          | None => Raise ValueError
          | Some rem =>
              rem' <- unshuffle_digit sh v used rem ;;
              nxt <- py_get row j ;;
              if radix =? 4 then
                b1 <- write_bit bits loc (rem' / 2) ;;
                b2 <- (if loc + 1 <? Z.of_nat (length bits) then write_bit b1 (loc + 1) (rem' mod 2) else Ok b1) ;;
                decode_fast t acc nxt sh b2 (loc + 2)
              else if radix =? 2 then
                b1 <- write_bit bits loc (rem' mod 2) ;;
                decode_fast t acc nxt sh b1 (loc + 1)
              else if radix =? 1 then decode_fast t acc nxt sh bits loc
              else Raise ValueError
          end
      end
  end.

Definition decode (s : list Z) (bit_length : Z) (acc : accessor) (v : Z) (faster : bool)
           (vt_check : option (list Z)) (sh : option (list (list Z))) : result (list Z) :=
  chk_ok <- (match vt_check with
             | None => Ok true
             | Some chk => c <- set_vt s (Z.of_nat (length chk)) ;; Ok (listZ_eqb c chk)
             end) ;;
  if negb chk_ok then Raise ValueError else
  if faster then decode_fast s acc v sh (repeat 0 (Z.to_nat bit_length)) 0
  else saved <- decode_walk s acc v sh ;; number_to_bit_str (horner_str saved) bit_length.
