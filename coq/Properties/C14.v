(* C14 -- the three graph representations are interchangeable, for EVERY arc subset of a de Bruijn graph
   (legal accessor of order k >= 1), not only complete or vertex-induced ones. *)
From Coq Require Import Sorting.Sorted.
From DSW Require Import Py Bignum Convert Kmer Graph Spec GraphSpec.
From DSW.Proofs Require Import KmerProofs ReprProofs.

Theorem C14_vertices : forall k acc, legal k acc ->
  StronglySorted Z.lt (obtain_vertices acc) /\
  forall v, In v (obtain_vertices acc) <-> (0 <= v < pow4 k /\ live acc v).
Proof. exact obtain_vertices_spec. Qed.
Theorem C14_latter_map_content : forall k acc, legal k acc ->
  StronglySorted Z.lt (keys (accessor_to_latter_map acc)) /\
  forall v, lookup (accessor_to_latter_map acc) v =
            if (0 <=? v) && (v <? pow4 k) && row_listed (get_row acc v)
            then Some (live_entries (get_row acc v)) else None.
Proof. exact latter_map_content. Qed.
Theorem C14_latter_map_roundtrip : forall k acc, (1 <= k)%nat -> legal k acc ->
  latter_map_to_accessor (accessor_to_latter_map acc) k None = Ok acc.
Proof. exact latter_map_roundtrip_partial. Qed.
Theorem C14_matrix_content : forall k acc maxlen, legal k acc -> (k < maxlen)%nat ->
  exists M, accessor_to_adjacency_matrix acc maxlen = Ok M /\ length M = Z.to_nat (pow4 k) /\
    forall u v, 0 <= u < pow4 k -> 0 <= v < pow4 k ->
      (nth (Z.to_nat v) (nth (Z.to_nat u) M []) 0 = 1 <-> exists j, 0 <= j < 4 /\ entry acc u j = v) /\
      (nth (Z.to_nat v) (nth (Z.to_nat u) M []) 0 = 1 \/ nth (Z.to_nat v) (nth (Z.to_nat u) M []) 0 = 0).
Proof. exact matrix_content. Qed.
Theorem C14_matrix_roundtrip : forall k acc maxlen, (1 <= k)%nat -> legal k acc -> (k < maxlen)%nat ->
  exists M, accessor_to_adjacency_matrix acc maxlen = Ok M /\ adjacency_matrix_to_accessor M = Ok acc.
Proof. exact matrix_roundtrip. Qed.
Theorem C14_matrix_reject : forall k M, (1 <= k)%nat -> length M = Z.to_nat (pow4 k) ->
  (exists u v, 0 <= u < pow4 k /\ 0 <= v /\ nth (Z.to_nat v) (nth (Z.to_nat u) M []) 0 = 1
               /\ ~ In v (obtain_latters u k)) ->
  adjacency_matrix_to_accessor M = Raise ValueError.
Proof. exact matrix_reject. Qed.
Theorem C14_leaves_agree : forall k acc d v, legal k acc -> 0 <= v < pow4 k ->
  leaves_acc d acc [v] = Ok (leaves_map d (accessor_to_latter_map acc) [v]).
Proof. exact leaves_agree. Qed.
Theorem C14_leaves_are_walk_ends : forall k acc d v, legal k acc -> 0 <= v < pow4 k ->
  leaves_acc d acc [v] = Ok (walk_ends acc d v).
Proof. exact leaves_are_walk_ends. Qed.

(* an arc subset that is neither complete nor vertex-induced *)
Example C14_nonvacuous :
  let acc := [[0; -1; 2; -1]; [-1; 1; -1; 3]; [-1; -1; -1; -1]; [0; 1; -1; -1]] in
  accessor_to_latter_map acc = [(0, [0; 2]); (1, [1; 3]); (3, [0; 1])]
  /\ latter_map_to_accessor (accessor_to_latter_map acc) 1 None = Ok acc
  /\ leaves_acc 2 acc [0] = Ok [0; 2].
Proof. repeat split; vm_compute; reflexivity. Qed.

Print Assumptions C14_vertices.
Print Assumptions C14_latter_map_content.
Print Assumptions C14_latter_map_roundtrip.
Print Assumptions C14_matrix_content.
Print Assumptions C14_matrix_roundtrip.
Print Assumptions C14_matrix_reject.
Print Assumptions C14_leaves_agree.
Print Assumptions C14_leaves_are_walk_ends.
