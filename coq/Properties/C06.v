(* C06 -- decoding accepts exactly the strands that are walks of the graph.
   Strands are lists of arbitrary code points (foreign characters, empty string); the graph is any accessor of
   four-column rows whose entries are -1 or valid row indices (no de Bruijn legality needed: graphs after arc
   removal are covered); the table is any table of the right shape. *)
From DSW Require Import Py Bignum Convert Kmer Graph Coder Spec GraphSpec CoderSpec.
From DSW.Proofs Require Import WalkProofs.

Theorem C06_normal : forall acc v0 sh s L vt, shaped acc -> in_range acc v0 -> shape_table sh (nrows acc) -> 0 <= L ->
  (is_walk acc v0 s /\ check_ok vt s ->
     exists bits, decode s L acc v0 false vt sh = Ok bits /\ Z.of_nat (length bits) = L) /\
  (~ (is_walk acc v0 s /\ check_ok vt s) -> decode s L acc v0 false vt sh = Raise ValueError).
Proof. exact decode_normal_iff. Qed.

(* fast mode: graphs without out-degree 3, strands whose walkable prefix carries no more bits than requested *)
Theorem C06_fast : forall acc v0 sh s L vt, shaped acc -> in_range acc v0 -> shape_table sh (nrows acc) ->
  no_outdeg3 acc -> 0 <= L -> bits_carried acc v0 s <= L ->
  (is_walk acc v0 s /\ check_ok vt s ->
     exists bits, decode s L acc v0 true vt sh = Ok bits /\ Z.of_nat (length bits) = L) /\
  (~ (is_walk acc v0 s /\ check_ok vt s) -> decode s L acc v0 true vt sh = Raise ValueError).
Proof. exact decode_fast_iff. Qed.

(* the check never produces any other outcome *)
Theorem C06_check_outcomes : forall s n, 0 <= n -> (exists c, set_vt s n = Ok c) \/ set_vt s n = Raise ValueError.
Proof. exact set_vt_ok_or_valueerror. Qed.

(* non-vacuity on the GC-balanced order-2 graph of the doctests: a walk, a non-walk, a foreign character *)
Definition gc_acc : accessor :=
  [[-1;-1;-1;-1]; [4;-1;-1;7]; [8;-1;-1;11]; [-1;-1;-1;-1]; [-1;1;2;-1]; [-1;-1;-1;-1]; [-1;-1;-1;-1]; [-1;13;14;-1];
   [-1;1;2;-1]; [-1;-1;-1;-1]; [-1;-1;-1;-1]; [-1;13;14;-1]; [-1;-1;-1;-1]; [4;-1;-1;7]; [8;-1;-1;11]; [-1;-1;-1;-1]].
Example C06_nonvacuous :
  decode [84;67;84;67;84;67;84] 8 gc_acc 1 false None None = Ok [0;1;0;1;0;1;0;1]
  /\ decode [84;67;84;65] 8 gc_acc 1 false None None = Raise ValueError
  /\ decode [84;78] 8 gc_acc 1 false None None = Raise ValueError
  /\ decode [] 3 gc_acc 1 true None None = Ok [0;0;0]
  /\ decode [84;67;84;67;84;67;84] 8 gc_acc 1 false (Some [84;65;65;71;67]) None = Ok [0;1;0;1;0;1;0;1]
  /\ decode [84;67;84;67;84;67;84] 8 gc_acc 1 false (Some [84;65;65;71;71]) None = Raise ValueError.
Proof. repeat split; vm_compute; reflexivity. Qed.

Print Assumptions C06_normal.
Print Assumptions C06_fast.
Print Assumptions C06_check_outcomes.
