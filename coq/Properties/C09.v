(* C09 -- repair leaves clean strands alone and only returns check-consistent candidates. *)
From Coq Require Import Sorting.Sorted.
From DSW Require Import Py Bignum Convert Kmer Graph Coder Repair Spec GraphSpec CoderSpec RepairSpec.
From DSW.Proofs Require Import RepairProofs.

(* a strand that is already a walk: exactly that strand (or nothing when a supplied check disagrees), zero detected errors;
   any accessor of four-column rows with in-range entries, any observed length, any options, any heap limit *)
Theorem C09_clean : forall s acc v0 k vt indel heap, shaped acc -> in_range acc v0 -> is_walk acc v0 s ->
  exists flag count visited,
    repair_dna s acc v0 k vt indel heap = Ok ((if check_okb vt s then [s] else []), (0, flag, count, visited)).
Proof. exact repair_clean. Qed.
Theorem C09_check_okb : forall vt s, check_okb vt s = true <-> check_ok vt s.
Proof. exact check_okb_spec. Qed.

(* whenever the repair returns, for ANY input: sorted, duplicate-free (strictly increasing in the lexicographic order of
   code points), and every candidate reproduces the supplied check *)
Theorem C09_output_shape : forall s acc v0 k vt indel heap cands st,
  repair_dna s acc v0 k vt indel heap = Ok (cands, st) ->
  StronglySorted lexlt cands /\ (forall c, In c cands -> check_okb vt c = true).
Proof. exact repair_output_shape. Qed.
(* lexlt is a strict total order, so StronglySorted lexlt means sorted and duplicate-free *)
Theorem C09_order : (forall a, ~ lexlt a a) /\ (forall a b c, lexlt a b -> lexlt b c -> lexlt a c)
                    /\ (forall a b, lexlt a b \/ a = b \/ lexlt b a).
Proof. exact (conj lexlt_irrefl (conj lexlt_trans lexlt_total)). Qed.

Print Assumptions C09_clean.
Print Assumptions C09_check_okb.
Print Assumptions C09_output_shape.
Print Assumptions C09_order.
