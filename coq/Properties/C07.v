(* C07 -- the path check is the documented VT function and sees every substitution. *)
From DSW Require Import Py Bignum Convert Kmer Graph Coder Spec GraphSpec CoderSpec.
From DSW.Proofs Require Import KmerProofs VTProofs.

(* for every strand (code points) whose characters are A,C,G,T and every check length n >= 1: the check has
   exactly n nucleotides, the first encodes the nucleotide sum mod 4, the remaining n-1 are the big-endian
   base-4 digits (the (n-1)-mer of that index) of the ascent-position sum mod 4^(n-1) *)
Theorem C07_formula : forall s vs n, nuc_values s = Ok vs -> 1 <= n ->
  exists ds, is_kmer (Z.to_nat (n - 1)) ds /\ kmer_index ds = asc_sum vs mod 4 ^ (n - 1)
             /\ set_vt s n = Ok (nuc_char (sumZ vs mod 4) :: map nuc_char ds).
Proof. exact set_vt_formula. Qed.
Theorem C07_values : forall s, acgt s -> exists vs, nuc_values s = Ok vs /\ Forall nuc vs /\ length vs = length s
                                                     /\ s = map nuc_char vs.
Proof. exact nuc_values_acgt. Qed.
Theorem C07_length : forall s n chk, 1 <= n -> set_vt s n = Ok chk -> Z.of_nat (length chk) = n /\ acgt chk.
Proof. exact set_vt_length. Qed.
Theorem C07_total : forall s n, acgt s -> 1 <= n -> exists chk, set_vt s n = Ok chk.
Proof. exact set_vt_total. Qed.
(* it is defined for the empty strand *)
Theorem C07_empty : forall n, 1 <= n -> set_vt [] n = Ok (repeat chA (Z.to_nat n)).
Proof. exact set_vt_empty. Qed.
Theorem C07_foreign : forall s n, ~ acgt s -> set_vt s n = Raise ValueError.
Proof. exact set_vt_foreign. Qed.

(* any single substitution changes the check *)
Theorem C07_substitution : forall s i c n, acgt s -> (i < length s)%nat -> is_acgt c = true -> c <> nth i s 0 -> 1 <= n ->
  set_vt (firstn i s ++ c :: skipn (S i) s) n <> set_vt s n.
Proof. exact vt_substitution. Qed.
(* any single insertion of C, G or T changes the check; a deletion of C, G or T is the same statement
   read from the shorter strand *)
Theorem C07_indel : forall s i c n, acgt s -> (i <= length s)%nat -> (c = chC \/ c = chG \/ c = chT) -> 1 <= n ->
  set_vt (firstn i s ++ c :: skipn i s) n <> set_vt s n.
Proof. exact vt_indel. Qed.
(* so decoding with the original check rejects the edited strand, in both modes *)
Theorem C07_decode_rejects : forall s s' chk L acc v faster sh,
  set_vt s (Z.of_nat (length chk)) = Ok chk -> set_vt s' (Z.of_nat (length chk)) <> set_vt s (Z.of_nat (length chk)) ->
  decode s' L acc v faster (Some chk) sh = Raise ValueError.
Proof. exact decode_rejects_changed_check. Qed.

(* non-vacuity: the doctest strand TCTCTCT with n = 5 gives TAAGC *)
Example C07_nonvacuous : acgt [84;67;84;67;84;67;84] /\ set_vt [84;67;84;67;84;67;84] 5 = Ok [84;65;65;71;67]
  /\ set_vt [] 3 = Ok [65;65;65] /\ set_vt [84;67;84;67;84;67;84] 40 <> set_vt [84;67;84;71;84;67;84] 40.
Proof.
  split. { repeat constructor. }
  split. { vm_compute; reflexivity. }
  split. { vm_compute; reflexivity. }
  vm_compute. discriminate.
Qed.

Print Assumptions C07_formula.
Print Assumptions C07_values.
Print Assumptions C07_length.
Print Assumptions C07_total.
Print Assumptions C07_empty.
Print Assumptions C07_foreign.
Print Assumptions C07_substitution.
Print Assumptions C07_indel.
Print Assumptions C07_decode_rejects.
