(* C10 -- repair always returns. *)
From DSW Require Import Py Bignum Convert Kmer Graph Coder Repair Spec GraphSpec CoderSpec RepairSpec.
From DSW.Proofs Require Import RepairProofs.

(* every strand over A,C,G,T at least one window long, every graph of order k (4^k rows of four in-range entries), every
   start vertex, every option and heap limit: the scan loop (fuel = strand length + 1) never runs out of fuel, nothing
   raises, and the look-up counter is polynomial in the strand length - wherever the errors are *)
Theorem C10_total : forall s acc v0 (k : nat) vt indel heap, (1 <= k)%nat -> shaped acc -> nrows acc = pow4 k ->
  in_range acc v0 -> acgt s -> (k <= length s)%nat ->
  exists cands st, repair_dna s acc v0 (Z.of_nat k) vt indel heap = Ok (cands, st)
                   /\ 0 <= lookups st <= Z.of_nat (length s) * (1 + 16 * Z.of_nat k * Z.of_nat k)
                   /\ 0 <= detected st <= Z.of_nat (length s).
Proof. exact repair_total. Qed.

(* non-vacuity: the strand on which the pinned tree looped forever (first nucleotide not an arc of the start vertex) *)
Definition gc_acc : accessor :=
  [[-1;-1;-1;-1]; [4;-1;-1;7]; [8;-1;-1;11]; [-1;-1;-1;-1]; [-1;1;2;-1]; [-1;-1;-1;-1]; [-1;-1;-1;-1]; [-1;13;14;-1];
   [-1;1;2;-1]; [-1;-1;-1;-1]; [-1;-1;-1;-1]; [-1;13;14;-1]; [-1;-1;-1;-1]; [4;-1;-1;7]; [8;-1;-1;11]; [-1;-1;-1;-1]].
Example C10_nonvacuous :
  repair_dna [67;67;84;67;84;67;84;67] gc_acc 1 2 None false 1000 = Ok ([[67;67;84;67;84;67;84;67]], (0, false, 0, 5))
  /\ fst (match repair_dna [84;67;84;67;84;65;84;67;84;67;84;67] gc_acc 1 2 None true 1000 with Ok r => r | _ => ([], (0, false, 0, 0)) end)
     = [[84;67;84;67;84;67;84;67;84;67;84;67]; [84;67;84;67;84;71;84;67;84;67;84;67]].
Proof. split; vm_compute; reflexivity. Qed.

Print Assumptions C10_total.
