(* C19 -- arc removal keeps both graph views in step over any call sequence. *)
From DSW Require Import Py Bignum Convert Kmer Graph Score Spec GraphSpec.
From DSW.Proofs Require Import ScoreProofs.

(* intersection scores have the accessor's shape, are non-negative and are positive only on existing arcs *)
Theorem C19_scores : forall k acc ins del, (1 <= k)%nat -> legal k acc ->
  exists sc, calculate_intersection_score (accessor_to_latter_map acc) k ins del = Ok sc
             /\ length sc = Z.to_nat (pow4 k) /\ Forall (fun r => length r = 4%nat) sc
             /\ (forall u j, 0 <= u < pow4 k -> 0 <= j < 4 -> 0 <= score_at sc u j)
             /\ (forall u j, 0 <= u < pow4 k -> 0 <= j < 4 -> 0 < score_at sc u j -> 0 <= entry acc u j).
Proof. exact score_spec. Qed.

(* each call that returns removes exactly one arc that existed, that arc has the maximum intersection score of the graph
   before the call, no other entry changes, and the accessor and latter map handed back describe the same (legal) graph *)
Theorem C19_step : forall k acc ins del acc' m' u v scs, (1 <= k)%nat -> legal k acc ->
  remove_nasty_arc acc (accessor_to_latter_map acc) ins del = Ok (acc', m', (u, v), scs) ->
  legal k acc' /\ m' = accessor_to_latter_map acc'
  /\ exists j sc, 0 <= j < 4 /\ 0 <= u < pow4 k /\ entry acc u j = v /\ 0 <= v
       /\ calculate_intersection_score (accessor_to_latter_map acc) k ins del = Ok sc
       /\ (forall u' j', 0 <= u' < pow4 k -> 0 <= j' < 4 -> score_at sc u' j' <= score_at sc u j)
       /\ entry acc' u j = -1
       /\ (forall u' j', 0 <= u' < pow4 k -> 0 <= j' < 4 -> (u', j') <> (u, j) -> entry acc' u' j' = entry acc u' j')
       /\ scs = filter (fun x => 0 <? x) (concat sc)
       /\ arc_count acc' = arc_count acc - 1.
Proof. exact remove_step. Qed.

(* any sequence of calls (any flags), up to the first call that raises: every state reached is a consistent pair of views
   of a legal graph, and the (i+1)-th returning call has removed exactly i+1 arcs in total *)
Theorem C19_history : forall flags k acc, (1 <= k)%nat -> legal k acc ->
  forall i acc' m' arc, nth_error (run_removals flags acc (accessor_to_latter_map acc)) i = Some (acc', m', arc) ->
  legal k acc' /\ m' = accessor_to_latter_map acc' /\ arc_count acc' = arc_count acc - Z.of_nat (S i).
Proof. exact remove_history. Qed.

Definition gc_acc : accessor :=
  [[-1;-1;-1;-1]; [4;-1;-1;7]; [8;-1;-1;11]; [-1;-1;-1;-1]; [-1;1;2;-1]; [-1;-1;-1;-1]; [-1;-1;-1;-1]; [-1;13;14;-1];
   [-1;1;2;-1]; [-1;-1;-1;-1]; [-1;-1;-1;-1]; [-1;13;14;-1]; [-1;-1;-1;-1]; [4;-1;-1;7]; [8;-1;-1;11]; [-1;-1;-1;-1]].
Example C19_nonvacuous :
  match remove_nasty_arc gc_acc (accessor_to_latter_map gc_acc) true true with
  | Ok (_, m', arc, sc) => arc = (1, 4) /\ lookup m' 1 = Some [7] /\ sc = repeat 16 16
  | _ => False
  end.
Proof. vm_compute. repeat split. Qed.

Print Assumptions C19_scores.
Print Assumptions C19_step.
Print Assumptions C19_history.
