(* C18 -- shuffle tables are per-vertex permutations and the induced digit <-> live-arc map is a bijection.
   NumPy's legacy generator is modelled by MT19937.v (init_genrand seeding, tempering, random_interval, in-place shuffle); that
   NumPy's RandomState IS this generator is an assumption the correspondence harness checks on every run by comparing every sampled
   table with the model's, entry for entry.  Under the model the table is a FUNCTION of (observed length, seed) -- the same seed
   always gives the same table -- and every row is a permutation whatever the 32-bit draws are. *)
From Coq Require Import Permutation Sorting.Sorted.
From DSW Require Import Py Bignum Convert Kmer Graph Coder Spec GraphSpec CoderSpec Shuffle MT19937.
From DSW.Proofs Require Import ShuffleProofs ShuffleMTProofs.

(* argsort returns a permutation of the positions whatever the keys: the digit -> arc map is injective and
   onto the live arcs even for malformed rows *)
Theorem C18_argsort_perm : forall keys, Permutation (argsort keys) (zrange (length keys)).
Proof. exact argsort_perm. Qed.
(* encode's digit -> position and decode's position -> digit are inverse bijections, for any table row *)
Theorem C18_digit_roundtrip : forall sh v used rem, 0 <= rem < Z.of_nat (length used) ->
  forall p, shuffle_digit sh v used rem = Ok p ->
  0 <= p < Z.of_nat (length used) /\ unshuffle_digit sh v used p = Ok rem.
Proof. exact shuffle_unshuffle. Qed.
Theorem C18_position_roundtrip : forall sh v used p, 0 <= p < Z.of_nat (length used) ->
  forall rem, unshuffle_digit sh v used p = Ok rem ->
  0 <= rem < Z.of_nat (length used) /\ shuffle_digit sh v used rem = Ok p.
Proof. exact unshuffle_shuffle. Qed.
Theorem C18_digit_total : forall sh v used rem, 0 <= rem < Z.of_nat (length used) ->
  (match sh with None => True | Some t => 0 <= v < Z.of_nat (length t) end) ->
  exists p, shuffle_digit sh v used rem = Ok p /\ 0 <= p < Z.of_nat (length used).
Proof. exact shuffle_digit_total. Qed.
(* for rows that are permutations: digit d selects the live arc whose table entry is d-th smallest, and this
   is a bijection between the digits 0..deg-1 and the live arcs *)
Theorem C18_bijection : forall srow used, NoDup (map (key_of srow) used) ->
  (forall d, 0 <= d < Z.of_nat (length used) -> exists u, select_arc srow used d = Some u /\ In u used /\ rank_in srow used u = d) /\
  (forall u, In u used -> 0 <= rank_in srow used u < Z.of_nat (length used) /\ select_arc srow used (rank_in srow used u) = Some u).
Proof. exact select_rank_bijection. Qed.
Theorem C18_code_is_rank_selection : forall (srow : list Z) used d,
  NoDup (map (fun u => nth (Z.to_nat u) srow (-1)) used) -> 0 <= d < Z.of_nat (length used) ->
  Forall (fun u => 0 <= u < Z.of_nat (length srow)) used ->
  exists p, nth_error (argsort (pick srow used)) (Z.to_nat d) = Some p /\
            select_arc (Some srow) used d = Some (nth (Z.to_nat p) used 0).
Proof. exact code_select_is_spec. Qed.
(* the finite space the property names, exhaustively: all 24 permutations x all 15 non-empty live-arc patterns *)
Theorem C18_finite_sweep : length all_perms4 = 24%nat /\ length all_patterns = 15%nat /\
  forall row pattern, In row all_perms4 -> In pattern all_patterns -> check_pair row pattern = true.
Proof. exact finite_sweep. Qed.
(* "shuffling never changes which strands are walks": the acceptance theorems of C06 (Properties/C06.v) are
   stated for every table, and the notion of walk does not mention the table. *)

(* the table: one row per vertex, each row a permutation of 0..3 - for ANY row-shuffling oracle that returns a permutation of
   its input (the only property of numpy.random.shuffle that is used; the stream itself is not modelled) *)
Theorem C18_table : forall (shuffle : nat -> list Z -> list Z), (forall i l, Permutation (shuffle i l) l) ->
  forall k, length (create_random_shuffles k shuffle) = Z.to_nat (pow4 k)
            /\ Forall (fun r => Permutation r [0; 1; 2; 3]) (create_random_shuffles k shuffle).
Proof.
  intros shuffle Hperm k. unfold create_random_shuffles. split.
  - rewrite map_length, seq_length. reflexivity.
  - apply Forall_forall. intros r Hr. apply in_map_iff in Hr. destruct Hr as (i & <- & _). apply Hperm.
Qed.
(* ... and such a table is a perm_table, the hypothesis of C01 / C05 *)
Theorem C18_table_is_perm_table : forall (shuffle : nat -> list Z -> list Z), (forall i l, Permutation (shuffle i l) l) ->
  forall k, perm_table (Some (create_random_shuffles k shuffle)) (pow4 k).
Proof.
  intros shuffle Hperm k. destruct (C18_table shuffle Hperm k) as [Hl Hf]. split; [|exact Hf].
  rewrite Hl. apply Z2Nat.id. unfold pow4. apply Z.pow_nonneg. discriminate.
Qed.

(* the table NumPy's generator yields after numpy.random.seed(seed): one row per vertex, each a permutation of 0..3 (whatever the
   draws), it is the model of create_random_shuffles under "row i of the generator's output", and a perm_table *)
Theorem C18_numpy_table : forall k seed rows, mt_rows (Z.to_nat (pow4 k)) seed = Some rows ->
  length rows = Z.to_nat (pow4 k) /\ Forall (fun r => Permutation r [0; 1; 2; 3]) rows
  /\ rows = create_random_shuffles k (fun i _ => nth i rows []).
Proof.
  intros k seed rows H. destruct (mt_rows_spec _ _ _ H) as [Hl [Hp _]].
  split; [exact Hl|]. split; [exact Hp|]. apply (numpy_table_is_model k seed rows H).
Qed.
(* the documented table (seed 2021, observed length 2) *)
Example C18_doctest : mt_rows 16 2021 = Some
  [[3;2;1;0];[2;3;1;0];[3;1;0;2];[0;3;1;2];[3;2;0;1];[1;0;3;2];[0;3;1;2];[2;0;1;3];[2;3;0;1];[1;0;3;2];[2;0;1;3];[0;1;3;2];
   [2;3;1;0];[2;0;3;1];[0;1;3;2];[0;3;2;1]].
Proof. exact mt_doctest_2021. Qed.

Print Assumptions C18_argsort_perm.
Print Assumptions C18_digit_roundtrip.
Print Assumptions C18_position_roundtrip.
Print Assumptions C18_digit_total.
Print Assumptions C18_bijection.
Print Assumptions C18_code_is_rank_selection.
Print Assumptions C18_finite_sweep.
Print Assumptions C18_table.
Print Assumptions C18_table_is_perm_table.
Print Assumptions C18_numpy_table.
