(* C02 -- every emitted strand obeys the biochemical constraints it was generated for. *)
From DSW Require Import Py Bignum Convert Kmer Graph Coder Filter Spec GraphSpec CoderSpec FastSpec FilterSpec.
From DSW.Proofs Require Import FilterProofs GeneratedProofs LocalFilterProofs.

(* first sentence, for ANY filter f (user-defined window predicates included), any observed length k >= 1, any threshold:
   every window of the observed length of (start k-mer ++ strand) satisfies the filter, for any walk of the generated graph
   from a retained vertex ... *)
Theorem C02_windows : forall k (f : list Z -> bool) mask t V acc v0 s, (1 <= k)%nat -> 1 <= t ->
  find_vertices k f = Ok mask -> connect_coding_graph k mask t = Ok (V, acc) -> In v0 V -> is_walk acc v0 s ->
  forall i, (i <= length s)%nat -> f (window k i (kmer_string k v0 ++ s)) = true.
Proof. exact strand_windows_valid. Qed.
(* ... in particular for every strand the encoder emits, with and without digit shuffling, in both coding modes *)
Theorem C02_windows_encoded : forall k (f : list Z -> bool) mask t V acc v0 sh bits fuel s faster, (1 <= k)%nat -> 1 <= t ->
  find_vertices k f = Ok mask -> connect_coding_graph k mask t = Ok (V, acc) -> In v0 V ->
  perm_table sh (nrows acc) -> bits_ok bits ->
  (if faster : bool then encode_fast fuel bits acc v0 sh else encode_normal fuel (bit_to_number_str bits) acc v0 sh) = Ok s ->
  forall i, (i <= length s)%nat -> f (window k i (kmer_string k v0 ++ s)) = true.
Proof. exact encoded_windows_valid. Qed.

(* second sentence, for window-decidable local filters: the strand prefixed with the start k-mer passes the whole-sequence
   check; alone it passes when it is at least one window long, or at any length when the integer thresholds are coherent
   (at_max >= k - gc_min) *)
Theorem C02_local_filter : forall c (k : nat) mask t V acc v0 sh bits fuel s faster, Z.of_nat k = f_k c -> (1 <= k)%nat ->
  1 <= t -> window_decidable c ->
  find_vertices k (valid c true) = Ok mask -> connect_coding_graph k mask t = Ok (V, acc) -> In v0 V ->
  perm_table sh (nrows acc) -> bits_ok bits ->
  (if faster : bool then encode_fast fuel bits acc v0 sh else encode_normal fuel (bit_to_number_str bits) acc v0 sh) = Ok s ->
  valid c false (kmer_string k v0 ++ s) = true
  /\ (f_k c <= Z.of_nat (length s) \/ thresholds_coherent c -> valid c false s = true).
Proof. exact local_filter_encoded. Qed.
Theorem C02_local_filter_walks : forall c (k : nat) mask t V acc v0 s, Z.of_nat k = f_k c -> (1 <= k)%nat -> 1 <= t ->
  window_decidable c ->
  find_vertices k (valid c true) = Ok mask -> connect_coding_graph k mask t = Ok (V, acc) -> In v0 V -> is_walk acc v0 s ->
  valid c false (kmer_string k v0 ++ s) = true
  /\ (f_k c <= Z.of_nat (length s) -> valid c false s = true)
  /\ (thresholds_coherent c -> valid c false s = true).
Proof. exact local_filter_strand. Qed.

(* the full second sentence ("the whole strand, ALONE, also passes", at any length) is FALSE of the code: binary64 rounding
   makes the thresholds of gc_range = [0.8, 1.0], k = 5 incoherent (KNOWN FINDING F8) *)
Theorem C02_short_strand_refuted :
  let c := {| f_k := 5; f_run := None; f_motifs := None; f_gc := Some (4, 5, 0) |} in
  window_decidable c /\ ~ thresholds_coherent c /\
  exists mask V acc, find_vertices 5 (valid c true) = Ok mask /\ connect_coding_graph 5 mask 1 = Ok (V, acc)
    /\ In 85 V /\ is_walk acc 85 [84] /\ valid c false [84] = false /\ valid c false (kmer_string 5 85 ++ [84]) = true.
Proof. exact short_strand_refuted. Qed.

(* third sentence ("every configuration the constructor accepts is window-decidable") is FALSE of the code: the constructor
   accepts a maximum run equal to the window length (KNOWN FINDING F7) *)
Theorem C02_constructor_refuted : exists c, ctor_accepts c = true /\ ~ window_decidable c
  /\ exists s, f_k c <= Z.of_nat (length s) /\ valid c false s = false
               /\ forallb (valid c false) (windows (Z.to_nat (f_k c)) s) = true.
Proof. exact ctor_accepts_undecidable. Qed.

Print Assumptions C02_windows.
Print Assumptions C02_windows_encoded.
Print Assumptions C02_local_filter.
Print Assumptions C02_local_filter_walks.
Print Assumptions C02_short_strand_refuted.
Print Assumptions C02_constructor_refuted.
