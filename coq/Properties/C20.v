(* C20 -- library calls are stateless and never modify their arguments (PARTIAL: the logical half).
   What is proved is about the model of the API (Api.v over Dispatch.v): over any history of calls on shared arguments
   that contains no arc removal, the shared arguments are unchanged and every call returns exactly what it returns on
   the initial arguments (i.e. in a fresh world); a removal call changes only the two slots it is documented to update.
   What a functional model cannot exhibit - mutation of Python objects through aliasing, hidden interpreter or module
   state, the NumPy random state, the effect of verbose output - is observed at run time by the history correspondence
   of harness/props/c20.py, which also checks every call of every history against this model evaluated on the initial
   arguments. *)
From Coq Require Import Lia.
From DSW Require Import Py Dispatch Api.

Lemma run_no_removal : forall calls w, forallb (fun c => negb (is_removal c)) calls = true ->
  run calls w = (w, map (outcome w) calls).
Proof.
  induction calls as [|c rest IH]; intros w H; cbn [run map]; [reflexivity|].
  cbn [forallb] in H. apply andb_prop in H. destruct H as [Hc Hr].
  unfold api_step. destruct (is_removal c); [discriminate|].
  rewrite (IH w Hr). reflexivity.
Qed.

(* history independence: arguments unchanged, every result equals the result in a fresh world *)
Theorem C20_history : forall calls w, forallb (fun c => negb (is_removal c)) calls = true ->
  fst (run calls w) = w /\ snd (run calls w) = map (outcome w) calls.
Proof. intros calls w H. rewrite (run_no_removal calls w H). split; reflexivity. Qed.

(* a call's result depends on the world only through the slots it names *)
Theorem C20_frame : forall w1 w2 c, (forall a, In a (c_args c) -> resolve w1 a = resolve w2 a) -> outcome w1 c = outcome w2 c.
Proof.
  intros w1 w2 c H. unfold outcome. f_equal. f_equal. apply map_ext_in. exact H.
Qed.

(* arc removal (documented to work in place) touches at most the two slots it was given *)
Lemma nth_set_nth_other : forall (l : world) n x m, n <> m -> nth m (set_nth l n x) [] = nth m l [].
Proof.
  induction l as [|y l IH]; intros n x m Hn; [destruct n; reflexivity|].
  destruct n as [|n], m as [|m]; cbn [set_nth nth]; try reflexivity; try congruence.
  apply IH. congruence.
Qed.

Theorem C20_removal_frame : forall w c k, is_removal c = true ->
  (forall i j rest, c_args c = Slot i :: Slot j :: rest -> k <> i /\ k <> j) ->
  nth k (fst (api_step w c)) [] = nth k w [].
Proof.
  intros w c k Hr Hk. unfold api_step. rewrite Hr. cbn [fst]. unfold write_back.
  destruct (c_args c) as [|[i|l1] [|[j|l2] rest]] eqn:E; try reflexivity.
  destruct (Hk i j rest eq_refl) as [Hi Hj].
  destruct (outcome w c) as [|h t]; [reflexivity|].
  destruct h as [|z [|z2 hs]]; try reflexivity.
  destruct z; try reflexivity.
  destruct t as [|acc' [|m' t']]; try reflexivity.
  - rewrite nth_set_nth_other by congruence. rewrite nth_set_nth_other by congruence. reflexivity.
  - destruct z; reflexivity.
Qed.

Print Assumptions C20_history.
Print Assumptions C20_frame.
Print Assumptions C20_removal_frame.
