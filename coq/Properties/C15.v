(* C15 -- string big-number arithmetic equals integer arithmetic.
   For every canonical decimal string n (any length) and every digit operand b, the four
   digit-serial helpers return the canonical decimal string of the exact result. *)
From DSW Require Import Py Bignum Spec.
From DSW.Proofs Require Import BignumProofs.

Theorem C15_add : forall n b, canonical n -> digit b ->
  canonical (calculus_addition n b) /\ dval (calculus_addition n b) = dval n + b.
Proof. exact add_correct. Qed.

Theorem C15_mul : forall n b, canonical n -> digit b ->
  canonical (calculus_multiplication n b) /\ dval (calculus_multiplication n b) = dval n * b.
Proof. exact mul_correct. Qed.

Theorem C15_div : forall n b, canonical n -> 1 <= b < 10 ->
  canonical (fst (calculus_division n b)) /\ dval (fst (calculus_division n b)) = dval n / b
  /\ snd (calculus_division n b) = dval n mod b.
Proof. exact div_correct. Qed.

Theorem C15_div0_documented : forall n, calculus_division n 0 = ([0], 0).
Proof. exact div_zero_documented. Qed.

Theorem C15_sub : forall n b, canonical n -> digit b -> b <= dval n ->
  canonical (calculus_subtraction n b) /\ dval (calculus_subtraction n b) = dval n - b.
Proof. exact sub_correct. Qed.

(* "the canonical decimal string of the result" is well defined: one string per value *)
Theorem C15_canonical_unique : forall a b, canonical a -> canonical b -> dval a = dval b -> a = b.
Proof. exact canonical_unique. Qed.

(* non-vacuity: the hypotheses are met by carry / borrow chains, and the model computes on them *)
Example C15_nonvacuous :
  canonical [9; 9; 9] /\ digit 2 /\ calculus_addition [9; 9; 9] 2 = [1; 0; 0; 1]
  /\ canonical [1; 0; 0; 0] /\ 2 <= dval [1; 0; 0; 0] /\ calculus_subtraction [1; 0; 0; 0] 2 = [9; 9; 8]
  /\ calculus_division [1; 0; 0; 1] 7 = ([1; 4; 3], 0) /\ calculus_multiplication [9; 9] 9 = [8; 9; 1].
Proof.
  repeat split; try (vm_compute; congruence); try (vm_compute; reflexivity);
    try (repeat constructor; vm_compute; congruence); try (intros t E; inversion E; reflexivity);
    try (intros t E; discriminate E).
Qed.

Print Assumptions C15_add.
Print Assumptions C15_mul.
Print Assumptions C15_div.
Print Assumptions C15_div0_documented.
Print Assumptions C15_sub.
Print Assumptions C15_canonical_unique.
