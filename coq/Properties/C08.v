(* C08 -- repair recovers the original strand for separated interior edits.
   generated k acc: acc is legal of order k >= 1 and vertex-induced (what graph generation returns, see C03);
   w is a walk of length n from v0; the edit position p lies in [k, n - 2k); indel handling on (for a substitution: on
   or off); heap limit unrestrictive (>= 8k suffices for one edit); the check is absent or is the check of w.
   PROVED: every SINGLE edit (every position, every kind, every replacement nucleotide): it is detected exactly when the
   corrupted strand is no longer a walk, then exactly once, and w is among the candidates;
   and every SET of edits whose positions lie in [k, n-2k) and are pairwise at least 3k+2 apart: at most one detection per
   edit, and whenever the number of detected errors equals the number of edits, w is among the candidates (for ANY heap
   limit: on the fallback path the reported detection count is 0). *)
From DSW Require Import Py Bignum Convert Kmer Graph Coder Repair Spec GraphSpec CoderSpec RepairSpec.
From DSW.Proofs Require Import Repair8Proofs Repair8MultiProofs.

Theorem C08_single_substitution : forall k acc v0 w p c vt indel heap, generated k acc -> 0 <= v0 < pow4 k ->
  is_walk acc v0 w -> (k <= p)%nat -> (p + 2 * k < length w)%nat -> is_acgt c = true -> c <> nth p w 0 ->
  check_of w vt -> 8 * Z.of_nat k <= heap ->
  exists cands st, repair_dna (edit_sub w p c) acc v0 (Z.of_nat k) vt indel heap = Ok (cands, st)
     /\ (detected st = 1 <-> ~ is_walk acc v0 (edit_sub w p c))
     /\ (is_walk acc v0 (edit_sub w p c) -> detected st = 0)
     /\ (~ is_walk acc v0 (edit_sub w p c) -> In w cands).
Proof. exact repair_single_sub. Qed.

Theorem C08_single_insertion : forall k acc v0 w p c vt heap, generated k acc -> 0 <= v0 < pow4 k ->
  is_walk acc v0 w -> (k <= p)%nat -> (p + 2 * k < length w)%nat -> is_acgt c = true ->
  check_of w vt -> 8 * Z.of_nat k <= heap ->
  exists cands st, repair_dna (edit_ins w p c) acc v0 (Z.of_nat k) vt true heap = Ok (cands, st)
     /\ (detected st = 1 <-> ~ is_walk acc v0 (edit_ins w p c))
     /\ (is_walk acc v0 (edit_ins w p c) -> detected st = 0)
     /\ (~ is_walk acc v0 (edit_ins w p c) -> In w cands).
Proof. exact repair_single_ins. Qed.

Theorem C08_single_deletion : forall k acc v0 w p vt heap, generated k acc -> 0 <= v0 < pow4 k ->
  is_walk acc v0 w -> (k <= p)%nat -> (p + 2 * k < length w)%nat ->
  check_of w vt -> 8 * Z.of_nat k <= heap ->
  exists cands st, repair_dna (edit_del w p) acc v0 (Z.of_nat k) vt true heap = Ok (cands, st)
     /\ (detected st = 1 <-> ~ is_walk acc v0 (edit_del w p))
     /\ (is_walk acc v0 (edit_del w p) -> detected st = 0)
     /\ (~ is_walk acc v0 (edit_del w p) -> In w cands).
Proof. exact repair_single_del. Qed.

(* several separated edits.  edits_ok k w k es: positions (in w) increasing, the first >= k, each + 2k < n, consecutive ones
   at least 3k+2 apart, substitutions by a different A/C/G/T, insertions of an A/C/G/T; apply_edits applies them to w. *)
Theorem C08_multi : forall k acc v0 w es vt heap, generated k acc -> 0 <= v0 < pow4 k -> is_walk acc v0 w ->
  edits_ok k w k es -> check_of w vt -> (8 * Z.of_nat k) ^ Z.of_nat (length es) <= heap ->
  exists cands st, repair_dna (apply_edits w es) acc v0 (Z.of_nat k) vt true heap = Ok (cands, st)
     /\ 0 <= detected st <= Z.of_nat (length es)
     /\ (detected st = Z.of_nat (length es) -> In w cands).
Proof. exact repair_multi. Qed.

(* non-vacuity: the doctest of repair_dna (order 2, GC-balanced graph = induced on its 8 vertices) *)
Definition gc_acc : accessor :=
  [[-1;-1;-1;-1]; [4;-1;-1;7]; [8;-1;-1;11]; [-1;-1;-1;-1]; [-1;1;2;-1]; [-1;-1;-1;-1]; [-1;-1;-1;-1]; [-1;13;14;-1];
   [-1;1;2;-1]; [-1;-1;-1;-1]; [-1;-1;-1;-1]; [-1;13;14;-1]; [-1;-1;-1;-1]; [4;-1;-1;7]; [8;-1;-1;11]; [-1;-1;-1;-1]].
Example C08_nonvacuous :
  gc_acc = induced_on 2 (fun v => memZ v [1;2;4;7;8;11;13;14])
  /\ edit_sub [84;67;84;67;84;67;84;67;84;67;84;67] 5 65 = [84;67;84;67;84;65;84;67;84;67;84;67]
  /\ match repair_dna [84;67;84;67;84;65;84;67;84;67;84;67] gc_acc 1 2 None true 1000 with
     | Ok (cands, st) => detected st = 1 /\ In [84;67;84;67;84;67;84;67;84;67;84;67] cands
     | _ => False end.
Proof. split; [vm_compute; reflexivity|]. split; [vm_compute; reflexivity|]. vm_compute. split; [reflexivity|]. left; reflexivity. Qed.

Print Assumptions C08_single_substitution.
Print Assumptions C08_single_insertion.
Print Assumptions C08_single_deletion.
Print Assumptions C08_multi.
