(* C13 -- vertex indices are k-mers and arcs are shift-append, for every k >= 1 and every vertex. *)
From DSW Require Import Py Bignum Convert Kmer Graph Score Spec GraphSpec.
From DSW.Proofs Require Import KmerProofs GraphProofs LegalProofs.

(* the index of a vertex is the base-4 value of a k-mer: index <-> k-mer is a bijection onto [0, 4^k) *)
Theorem C13_index_range : forall k km, is_kmer k km -> 0 <= kmer_index km < pow4 k.
Proof. exact kmer_index_range. Qed.
Theorem C13_index_inj : forall k a b, is_kmer k a -> is_kmer k b -> kmer_index a = kmer_index b -> a = b.
Proof. exact kmer_index_inj. Qed.
Theorem C13_index_surj : forall k v, 0 <= v < pow4 k ->
  exists km, is_kmer k km /\ kmer_index km = v /\ number_to_dna_int v (Z.of_nat k) = Ok (map nuc_char km).
Proof. exact kmer_index_surj. Qed.
Theorem C13_dna_to_number : forall k km, is_kmer k km -> dna_to_number_int (map nuc_char km) = Ok (kmer_index km).
Proof. exact dna_to_number_kmer. Qed.

(* successors: drop the first nucleotide, append one, in A,C,G,T order *)
Theorem C13_latters : forall k km, (1 <= k)%nat -> is_kmer k km ->
  obtain_latters (kmer_index km) k = map (fun c => kmer_index (tl km ++ [c])) [0; 1; 2; 3].
Proof. exact latters_spec. Qed.
(* predecessors: drop the last nucleotide, prepend one *)
Theorem C13_formers : forall k km, (1 <= k)%nat -> is_kmer k km ->
  obtain_formers (kmer_index km) k = map (fun c => kmer_index (c :: removelast km)) [0; 1; 2; 3].
Proof. exact formers_spec. Qed.
(* u is a predecessor of v exactly when v is a successor of u *)
Theorem C13_pred_succ : forall k u v, (1 <= k)%nat -> 0 <= u < pow4 k -> 0 <= v < pow4 k ->
  (In u (obtain_formers v k) <-> In v (obtain_latters u k)).
Proof. exact pred_succ. Qed.
(* the j-th successor sits in column j, and its last nucleotide is j *)
Theorem C13_column : forall k v j, (1 <= k)%nat -> 0 <= v < pow4 k -> 0 <= j < 4 ->
  nth (Z.to_nat j) (obtain_latters v k) (-1) = (4 * v + j) mod pow4 k /\ ((4 * v + j) mod pow4 k) mod 4 = j.
Proof. exact latter_column. Qed.
(* the complete graph holds the j-th successor of every vertex in column j *)
Theorem C13_complete : forall k v, 0 <= v < pow4 k ->
  length (get_complete_accessor k) = Z.to_nat (pow4 k) /\
  nth (Z.to_nat v) (get_complete_accessor k) [] = obtain_latters v k.
Proof. exact complete_spec. Qed.
Theorem C13_legal_complete : forall k, legal k (get_complete_accessor k).
Proof. exact complete_legal. Qed.
(* every graph built from a mask holds in column j either -1 or the j-th successor *)
Theorem C13_legal_induced : forall k mask, legal k (induced k mask).
Proof. exact induced_legal. Qed.
Theorem C13_legal_valid_graph : forall k mask, Forall (fun x => 0 <= x) mask -> length mask = Z.to_nat (pow4 k) ->
  match connect_valid_graph k mask with
  | Ok acc => acc = induced k mask /\ legal k acc /\ (exists v, 0 <= v < pow4 k /\ maskb mask v = true)
  | Raise ValueError => forall v, 0 <= v < pow4 k -> maskb mask v = false
  | _ => False
  end.
Proof. exact connect_valid_graph_spec. Qed.

(* ... and so does every graph the library generates or converts *)
Theorem C13_legal_coding_graph : forall k t mask V acc, (1 <= k)%nat -> length mask = Z.to_nat (pow4 k) -> Forall bit mask ->
  1 <= t -> connect_coding_graph k mask t = Ok (V, acc) -> legal k acc.
Proof. exact coding_graph_legal. Qed.
Theorem C13_legal_from_matrix : forall k M acc, (1 <= k)%nat -> length M = Z.to_nat (pow4 k) ->
  adjacency_matrix_to_accessor M = Ok acc -> legal k acc.
Proof. exact matrix_to_accessor_legal. Qed.
Theorem C13_legal_from_latter_map : forall k m acc, (1 <= k)%nat -> de_bruijn_lmap k m ->
  latter_map_to_accessor m k None = Ok acc -> legal k acc.
Proof. exact latter_map_to_accessor_legal. Qed.
Theorem C13_legal_after_arc_removal : forall k acc ins del acc' m' arc scs, (1 <= k)%nat -> legal k acc ->
  remove_nasty_arc acc (accessor_to_latter_map acc) ins del = Ok (acc', m', arc, scs) -> legal k acc'.
Proof. exact arc_removal_legal. Qed.

Example C13_nonvacuous : is_kmer 3 [2; 0; 3] /\ kmer_index [2; 0; 3] = 35 /\ obtain_latters 35 3 = [12; 13; 14; 15]
  /\ obtain_formers 35 3 = [8; 24; 40; 56].
Proof. split; [split; [reflexivity|repeat constructor; vm_compute; congruence]|]. repeat split; vm_compute; reflexivity. Qed.

Print Assumptions C13_index_range.
Print Assumptions C13_index_inj.
Print Assumptions C13_index_surj.
Print Assumptions C13_dna_to_number.
Print Assumptions C13_latters.
Print Assumptions C13_formers.
Print Assumptions C13_pred_succ.
Print Assumptions C13_column.
Print Assumptions C13_complete.
Print Assumptions C13_legal_complete.
Print Assumptions C13_legal_induced.
Print Assumptions C13_legal_valid_graph.
Print Assumptions C13_legal_coding_graph.
Print Assumptions C13_legal_from_matrix.
Print Assumptions C13_legal_from_latter_map.
Print Assumptions C13_legal_after_arc_removal.
