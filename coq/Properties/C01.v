(* C01 -- encode then decode returns the original message.
   wf_from acc v0: every vertex reachable from v0 is a row, has an outgoing arc and can reach a branching vertex;
   shaped acc: rows of four entries, each -1 or a row index (any arc subset: out-degrees 1..4 mixed);
   perm_table: one row per vertex, each a permutation of 0..3 (or no table);
   the fuel is the step bound of C04: (message length) x (vertex count). *)
From DSW Require Import Py Bignum Convert Kmer Graph Coder Spec GraphSpec CoderSpec FastSpec.
From DSW.Proofs Require Import CoderProofs ComposeProofs CorollaryProofs.

(* arbitrary-precision mode: any mixture of out-degrees 1-4, the empty and the all-zero message, with and without a
   check of any length (chk = None exactly when vt_len <= 0) *)
Theorem C01_normal : forall acc v0 sh bits vt_len, shaped acc -> wf_from acc v0 -> perm_table sh (nrows acc) -> bits_ok bits ->
  exists s chk, encode bits acc v0 false vt_len sh (Z.to_nat (Z.of_nat (length bits) * nrows acc)) = Ok (s, chk)
                /\ (chk = None <-> vt_len <= 0)
                /\ decode s (Z.of_nat (length bits)) acc v0 false chk sh = Ok bits.
Proof. exact C01_normal_wf. Qed.

(* fast mode: graphs without out-degree 3 (odd message lengths included) *)
Theorem C01_fast : forall acc v0 sh bits vt_len, shaped acc -> wf_from acc v0 -> perm_table sh (nrows acc) -> bits_ok bits ->
  no_outdeg3 acc ->
  exists s chk, encode bits acc v0 true vt_len sh (Z.to_nat (Z.of_nat (length bits) * nrows acc)) = Ok (s, chk)
                /\ (chk = None <-> vt_len <= 0)
                /\ is_walk acc v0 s
                /\ (bits_carried acc v0 s = Z.of_nat (length bits) \/ bits_carried acc v0 s = Z.of_nat (length bits) + 1)
                /\ decode s (Z.of_nat (length bits)) acc v0 true chk sh = Ok bits.
Proof. exact C01_fast_wf. Qed.

(* whatever the fuel and whatever the graph: IF encode returns, decode gives the message back *)
Theorem C01_roundtrip_normal_any_fuel : forall fuel bits acc v0 sh vt_len s chk, shaped acc -> in_range acc v0 ->
  perm_table sh (nrows acc) -> bits_ok bits ->
  encode bits acc v0 false vt_len sh fuel = Ok (s, chk) ->
  decode s (Z.of_nat (length bits)) acc v0 false chk sh = Ok bits.
Proof. exact roundtrip_normal. Qed.
Theorem C01_roundtrip_fast_any_fuel : forall fuel bits acc v0 sh vt_len s chk, shaped acc -> in_range acc v0 ->
  shape_table sh (nrows acc) -> bits_ok bits ->
  encode bits acc v0 true vt_len sh fuel = Ok (s, chk) ->
  decode s (Z.of_nat (length bits)) acc v0 true chk sh = Ok bits.
Proof. exact roundtrip_fast. Qed.

(* in particular on every graph returned by graph generation, from every retained start vertex *)
Theorem C01_on_generated_graphs : forall k t mask V acc v0 sh bits vt_len, (1 <= k)%nat -> 1 <= t ->
  length mask = Z.to_nat (pow4 k) -> Forall bit mask -> connect_coding_graph k mask t = Ok (V, acc) -> In v0 V ->
  perm_table sh (nrows acc) -> bits_ok bits ->
  exists s chk, encode bits acc v0 false vt_len sh (Z.to_nat (Z.of_nat (length bits) * nrows acc)) = Ok (s, chk)
                /\ decode s (Z.of_nat (length bits)) acc v0 false chk sh = Ok bits.
Proof. exact roundtrip_on_generated_graph. Qed.

(* non-vacuity: the doctest graph and message, with a table and a check *)
Definition gc_acc : accessor :=
  [[-1;-1;-1;-1]; [4;-1;-1;7]; [8;-1;-1;11]; [-1;-1;-1;-1]; [-1;1;2;-1]; [-1;-1;-1;-1]; [-1;-1;-1;-1]; [-1;13;14;-1];
   [-1;1;2;-1]; [-1;-1;-1;-1]; [-1;-1;-1;-1]; [-1;13;14;-1]; [-1;-1;-1;-1]; [4;-1;-1;7]; [8;-1;-1;11]; [-1;-1;-1;-1]].
Example C01_nonvacuous :
  encode [0;1;0;1;0;1;0;1] gc_acc 1 false 5 None 200 = Ok ([84;67;84;67;84;67;84], Some [84;65;65;71;67])
  /\ decode [84;67;84;67;84;67;84] 8 gc_acc 1 false (Some [84;65;65;71;67]) None = Ok [0;1;0;1;0;1;0;1]
  /\ encode [1;0;1] [[0;0;0;0]] 0 true 0 None 10 = Ok ([71;71], None)
  /\ decode [71;71] 3 [[0;0;0;0]] 0 true None None = Ok [1;0;1].
Proof. repeat split; vm_compute; reflexivity. Qed.

Print Assumptions C01_normal.
Print Assumptions C01_fast.
Print Assumptions C01_roundtrip_normal_any_fuel.
Print Assumptions C01_roundtrip_fast_any_fuel.
Print Assumptions C01_on_generated_graphs.
