(* C17 -- reported capacity is the log2 spectral radius of the graph (PARTIAL: see below).
   PROVED, on the binary64 model of approximate_capacity (Capacity.v, Coq primitive floats):
     - every eigenvalue estimate (per-iteration values and reported values, median fallback included) is <= 4, so the
       capacity never exceeds 2 bits per nucleotide;
     - the arc-less graph gives 0 without iterating;
     - in the deterministic single-start mode a graph in which every live vertex has exactly d live successors gives
       estimates exactly d and stops after two iterations (capacity exactly log2 d);
   PROVED, in integer arithmetic: a positive vector x with q (A x)_v <= p x_v brackets the number of n-step walks from above
   by (p/q)^n for every n, and one with p x_v <= q (A_S x)_v on a sub-graph brackets it from below (Collatz-Wielandt):
   the per-graph certificates the harness finds are checked against these two theorems by the kernel.
   NOT PROVED: that the random-start iteration with this stopping rule lands within 1e-4 of log2 rho on EVERY graph with a
   0.9 spectral gap (needs Perron-Frobenius convergence rates over binary64; see DESIGN.md section 7): decided per sampled
   graph against the certified brackets. *)
From Coq Require Import ZArith List PrimFloat.
From DSW Require Import Py Kmer Graph Spec GraphSpec CapacitySpec.
From DSW Require Capacity.
From DSW.Proofs Require Import CapacityProofs CapacityFloatProofs CapacityTermProofs CapacityRefuted.
Import ListNotations.
Open Scope Z_scope.

Theorem C17_le_four : forall acc tol maxit starts res recs,
  Forall (fun r => (length r <= 4)%nat) acc -> Forall (Forall unit_float) starts ->
  Capacity.approximate_capacity acc tol maxit starts = Some (Some (res, recs)) ->
  Forall (fun lam => PrimFloat.leb lam 4 = true) res /\ Forall (Forall (fun lam => PrimFloat.leb lam 4 = true)) recs.
Proof. exact capacity_le_four. Qed.

Theorem C17_arcless : forall acc tol maxit starts, Capacity.all_minus_one acc = true ->
  Capacity.approximate_capacity acc tol maxit starts = Some None.
Proof. exact capacity_arcless. Qed.

Theorem C17_regular : forall acc d tol maxit, shaped acc -> 1 <= d <= 4 -> (1 <= maxit)%nat -> (0 <? tol)%float = true ->
  (exists v, in_range acc v /\ live_row acc v = true) ->
  (forall v, in_range acc v -> live_row acc v = true -> live_succ_count acc v = d) ->
  Capacity.approximate_capacity acc tol maxit [Capacity.ones (length acc)] = Some (Some ([fz d], [[fz d; fz d]])).
Proof. exact capacity_regular. Qed.

Theorem C17_upper_certificate : forall acc x p q m, shaped acc -> cert_upper acc x p q = true -> 0 < m ->
  (forall v, in_range acc v -> m <= xat x v) ->
  forall n v, in_range acc v -> walks acc n v * m * q ^ Z.of_nat n <= p ^ Z.of_nat n * xat x v.
Proof. exact cert_upper_sound. Qed.
Theorem C17_lower_certificate : forall acc S x p q M, cert_lower acc S x p q = true ->
  (forall v, In v S -> xat x v <= M) ->
  forall n v, In v S -> p ^ Z.of_nat n * xat x v <= walks acc n v * M * q ^ Z.of_nat n.
Proof. exact cert_lower_sound. Qed.

(* the iteration always stops: at most maximum_iteration + 2 matrix-vector products per repeat, for every graph, tolerance and
   start vector (the model's fuel is never exhausted), and one or two reported estimates per repeat *)
Theorem C17_terminates : forall acc tol maxit starts,
  exists r, Capacity.approximate_capacity acc tol maxit starts = Some r.
Proof. exact approximate_capacity_terminates. Qed.
Theorem C17_result_counts : forall acc tol maxit starts res recs,
  Capacity.approximate_capacity acc tol maxit starts = Some (Some (res, recs)) ->
  length recs = length starts /\ (length starts <= length res <= 2 * length starts)%nat.
Proof. exact approximate_capacity_results. Qed.

(* REFUTED for the random start (finding F12): on f12_acc -- one aperiodic strongly connected cyclic part, spectral gap 0.81 -- with
   the three start vectors NumPy draws after seed 1472, two of the three repeats report the estimate 1.0 (so the median capacity
   is log2 1 = 0) while the kernel-checked lower certificate (C17_lower_certificate) bounds the growth rate below by p/q > 1.29 *)
Theorem C17_random_start_refuted :
  shaped f12_acc /\ Forall (Forall unit_float) f12_starts /\
  (exists r3 recs, Capacity.approximate_capacity f12_acc f12_tol 500 f12_starts = Some (Some ([1; 1; r3]%float, recs))
                   /\ PrimFloat.ltb 1 r3 = true) /\
  cert_lower f12_acc f12_S f12_x f12_p f12_q = true /\ 129 * f12_q < 100 * f12_p.
Proof. exact capacity_random_start_refuted. Qed.

Print Assumptions C17_le_four.
Print Assumptions C17_arcless.
Print Assumptions C17_regular.
Print Assumptions C17_upper_certificate.
Print Assumptions C17_lower_certificate.
Print Assumptions C17_terminates.
Print Assumptions C17_result_counts.
Print Assumptions C17_random_start_refuted.
