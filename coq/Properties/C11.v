(* C11 -- vertex discovery and the valid graph mirror the filter exactly.
   The filter is an arbitrary function on strings: the theorems hold for every user-defined filter. *)
From DSW Require Import Py Bignum Convert Kmer Graph Spec GraphSpec.
From DSW.Proofs Require Import KmerProofs GraphProofs.

(* the string handed to the filter for index v is the v-th k-mer *)
Theorem C11_kmer_string : forall k v, 0 <= v < pow4 k ->
  exists km, is_kmer k km /\ kmer_index km = v /\ kmer_string k v = map nuc_char km.
Proof. exact kmer_string_spec. Qed.

(* index i is marked exactly when the filter accepts the i-th k-mer; ValueError exactly when it accepts none *)
Theorem C11_find : forall k (f : list Z -> bool),
  match find_vertices k f with
  | Ok mask => length mask = Z.to_nat (pow4 k)
               /\ (forall v, 0 <= v < pow4 k -> nth (Z.to_nat v) mask 0 = if f (kmer_string k v) then 1 else 0)
               /\ (exists v, 0 <= v < pow4 k /\ f (kmer_string k v) = true)
  | Raise ValueError => forall v, 0 <= v < pow4 k -> f (kmer_string k v) = false
  | _ => False
  end.
Proof. exact find_vertices_spec. Qed.

(* the valid graph has an arc u -> v exactly when both are marked and v is a shift successor of u, stored in
   the column of v's last nucleotide; ValueError for an empty mask *)
Theorem C11_valid_graph : forall k mask, Forall (fun x => 0 <= x) mask -> length mask = Z.to_nat (pow4 k) ->
  match connect_valid_graph k mask with
  | Ok acc => acc = induced k mask /\ legal k acc /\ (exists v, 0 <= v < pow4 k /\ maskb mask v = true)
  | Raise ValueError => forall v, 0 <= v < pow4 k -> maskb mask v = false
  | _ => False
  end.
Proof. exact connect_valid_graph_spec. Qed.
Theorem C11_induced_entry : forall k mask v j, 0 <= v < pow4 k -> 0 <= j < 4 ->
  entry (induced k mask) v j =
    if maskb mask v && maskb mask ((4 * v + j) mod pow4 k) then (4 * v + j) mod pow4 k else -1.
Proof. exact induced_entry. Qed.
(* ... and column j holds the successor whose last nucleotide is j (C13_column): ((4v+j) mod 4^k) mod 4 = j *)
Theorem C11_column_is_last_nucleotide : forall k v j, (1 <= k)%nat -> 0 <= v < pow4 k -> 0 <= j < 4 ->
  nth (Z.to_nat j) (obtain_latters v k) (-1) = (4 * v + j) mod pow4 k /\ ((4 * v + j) mod pow4 k) mod 4 = j.
Proof. exact latter_column. Qed.

Example C11_nonvacuous :
  find_vertices 1 (fun s => match s with [c] => negb (c =? 84) | _ => false end) = Ok [1; 1; 1; 0]
  /\ connect_valid_graph 1 [1; 1; 1; 0] = Ok [[0; 1; 2; -1]; [0; 1; 2; -1]; [0; 1; 2; -1]; [-1; -1; -1; -1]]
  /\ find_vertices 2 (fun _ => false) = Raise ValueError /\ connect_valid_graph 1 [0; 0; 0; 0] = Raise ValueError.
Proof. repeat split; vm_compute; reflexivity. Qed.

Print Assumptions C11_kmer_string.
Print Assumptions C11_find.
Print Assumptions C11_valid_graph.
Print Assumptions C11_induced_entry.
Print Assumptions C11_column_is_last_nucleotide.
