(* C12 -- the local filter implements its documented window predicate.
   Strings are lists of arbitrary code points.  A configuration carries the window length, the optional run limit, the
   optional motif list and the optional INTEGER thresholds (gc_min, gc_max, at_max) that the three float comparisons of
   the Python reduce to for integer counts (see Filter.v); the theorems hold for all integer thresholds, hence for
   whatever the floats produce.  The threshold computation itself is compared bit-for-bit by the harness. *)
From Coq Require Import ZArith PrimFloat.
From DSW Require Import Py Filter Spec FilterSpec Thresholds FilterFloat.
From DSW.Proofs Require Import FilterProofs ThresholdProofs FilterFloatProofs.

Theorem C12_whole : forall c s, 1 <= f_k c -> (valid c false s = true <-> window_pred c s).
Proof. exact valid_whole. Qed.
Theorem C12_last : forall c s, valid c true s = valid c false (py_slice_from s (- f_k c)).
Proof. exact valid_last. Qed.
(* ... and that slice is the final window (the last k characters; the whole string when it is shorter) *)
Theorem C12_last_is_final_window : forall (s : list Z) k, 1 <= k ->
  py_slice_from s (- k) = skipn (length s - Z.to_nat k) s.
Proof. exact last_window_is_suffix_partial. Qed.
Theorem C12_local_global : forall c s, 1 <= f_k c -> window_decidable c -> f_k c <= Z.of_nat (length s) ->
  valid c false s = forallb (valid c false) (windows (Z.to_nat (f_k c)) s).
Proof. exact valid_local_global. Qed.
Theorem C12_revcomp : forall c s, 1 <= f_k c -> Forall (fun ch => is_acgt ch = true) s -> motifs_acgt c ->
  valid c false (reverse_complement s) = valid c false s.
Proof. exact valid_revcomp. Qed.
Theorem C12_substring_test : forall m s, infixZ m s = true <-> occurs m s.
Proof. exact infixZ_occurs. Qed.
Theorem C12_constructor : forall c, ctor_accepts c = true <->
  ((forall r, f_run c = Some r -> r <= f_k c) /\
   (forall ms, f_motifs c = Some ms -> Forall (fun m => Z.of_nat (length m) <= f_k c) ms)).
Proof. exact ctor_spec. Qed.

(* the float -> integer threshold step (uses the standard library's specification axioms of primitive floats and of Uint63,
   and Flocq): for integer counts 0 <= g, a <= 2^52 and finite non-negative products, the comparisons the Python performs in
   binary64 are exactly the comparisons with the integer thresholds computed by Thresholds.thresholds, for the window rule and
   for the short-string rule *)
Theorem C12_float_window_rule : forall lo hi k g, fin_nonneg (lo * fz k)%float -> fin_nonneg (hi * fz k)%float ->
  (0 <= g <= 2 ^ 52)%Z ->
  window_ok_float lo hi k g =
    (let '(gmin, gmax, amax) := thresholds lo hi k in negb (gmax <? g)%Z && negb (g <? gmin)%Z).
Proof. exact window_rule_thresholds. Qed.
Theorem C12_float_short_rule : forall lo hi k g a, fin_nonneg (hi * fz k)%float -> fin_nonneg ((1 - lo) * fz k)%float ->
  (0 <= g <= 2 ^ 52)%Z -> (0 <= a <= 2 ^ 52)%Z ->
  short_ok_float lo hi k g a =
    (let '(gmin, gmax, amax) := thresholds lo hi k in negb (gmax <? g)%Z && negb (amax <? a)%Z).
Proof. exact short_rule_thresholds. Qed.

(* ... hence the filter with its GC comparisons in binary64, exactly as written in the Python (FilterFloat.valid_float), IS the
   filter with integer thresholds that all the theorems above are about, for every string shorter than 2^52 symbols *)
Theorem C12_float_filter_is_integer_filter : forall c only_last s, products_ok c -> (Z.of_nat (length s) <= 2 ^ 52)%Z ->
  valid_float c only_last s = valid (to_cfg c) only_last s.
Proof. exact valid_float_is_valid. Qed.

(* the doctest configuration: k = 8, run 2, GC 0.4..0.6 (thresholds 4, 4, 4 = ceil 3.2, floor 4.8, floor 4.8), motif GC *)
Example C12_nonvacuous :
  let c := {| f_k := 8; f_run := Some 2; f_motifs := Some [[71; 67]]; f_gc := Some (4, 4, 4) |} in
  valid c true [65;67;71;84;65;67;71;84] = true /\ valid c true [71;67;65;84;71;67;65;84] = false
  /\ valid c true [65;65;65;67;67;71;71;65] = false /\ ctor_accepts c = true.
Proof. repeat split; vm_compute; reflexivity. Qed.

Print Assumptions C12_whole.
Print Assumptions C12_last.
Print Assumptions C12_last_is_final_window.
Print Assumptions C12_local_global.
Print Assumptions C12_revcomp.
Print Assumptions C12_substring_test.
Print Assumptions C12_constructor.
Print Assumptions C12_float_window_rule.
Print Assumptions C12_float_short_rule.
Print Assumptions C12_float_filter_is_integer_filter.
