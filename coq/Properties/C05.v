(* C05 -- the strand is the documented mixed-radix walk, independent of implementation.
   ref_encode / ref_encode_fast / walk_value / select_arc / rank_in (CoderSpec.v, FastSpec.v) are written from the
   published scheme alone: integers, no decimal strings, no argsort. *)
From Coq Require Import Sorting.Sorted.
From DSW Require Import Py Bignum Convert Kmer Graph Coder Spec GraphSpec CoderSpec FastSpec.
From DSW.Proofs Require Import ShuffleProofs CoderProofs.

(* the code (decimal-string division, argsort) computes the reference coder, error cases included *)
Theorem C05_encode_is_reference : forall fuel d acc v sh, shaped acc -> in_range acc v -> perm_table sh (nrows acc) ->
  canonical d -> encode_normal fuel d acc v sh = ref_encode fuel (dval d) acc v sh.
Proof. exact encode_normal_refines. Qed.
(* the reference coder writes the message value little-endian in the mixed radix of the out-degrees met:
   its output is a walk whose value (walk_value: digit + radix * rest, one-arc vertices contributing no digit) is the message *)
Theorem C05_reference_is_mixed_radix : forall fuel q acc v sh s, shaped acc -> in_range acc v -> perm_table sh (nrows acc) ->
  0 <= q -> ref_encode fuel q acc v sh = Ok s -> is_walk acc v s /\ walk_value acc v sh s = q.
Proof. exact ref_encode_sound. Qed.
(* digit d selects the d-th live arc in A<C<G<T order ... *)
Theorem C05_select_without_table : forall used d, StronglySorted Z.lt used -> 0 <= d < Z.of_nat (length used) ->
  select_arc None used d = Some (nth (Z.to_nat d) used 0) /\ rank_in None used (nth (Z.to_nat d) used 0) = d.
Proof. exact select_no_table. Qed.
(* ... with a table: the live arc whose table entry is d-th smallest (a bijection digits <-> live arcs) *)
Theorem C05_select_with_table : forall srow used, NoDup (map (key_of srow) used) ->
  (forall d, 0 <= d < Z.of_nat (length used) -> exists u, select_arc srow used d = Some u /\ In u used /\ rank_in srow used u = d) /\
  (forall u, In u used -> 0 <= rank_in srow used u < Z.of_nat (length used) /\ select_arc srow used (rank_in srow used u) = Some u).
Proof. exact select_rank_bijection. Qed.
(* fast mode: two bits most-significant first at 4-way vertices, one bit at 2-way vertices *)
Theorem C05_fast_is_reference : forall fuel bits acc v sh, shaped acc -> in_range acc v -> perm_table sh (nrows acc) ->
  bits_ok bits -> encode_fast fuel bits acc v sh = ref_encode_fast fuel bits acc v sh.
Proof. exact encode_fast_refines. Qed.

(* decoding ANY walk (not only encoder outputs) reads back its value ... *)
Theorem C05_decode_reads_value : forall s acc v sh, shaped acc -> in_range acc v -> perm_table sh (nrows acc) -> is_walk acc v s ->
  exists saved, decode_walk s acc v sh = Ok saved /\ canonical (horner_str saved)
                /\ dval (horner_str saved) = walk_value acc v sh s.
Proof. exact decode_walk_value. Qed.
(* ... and renders it big-endian at the requested width whenever it fits *)
Theorem C05_decode_any_walk : forall s L acc v0 sh, shaped acc -> in_range acc v0 -> perm_table sh (nrows acc) ->
  is_walk acc v0 s -> 0 <= L -> walk_value acc v0 sh s < 2 ^ L ->
  exists bits, decode s L acc v0 false None sh = Ok bits /\ Z.of_nat (length bits) = L /\ bits_ok bits
               /\ rval 2 bits = walk_value acc v0 sh s.
Proof. exact decode_any_walk. Qed.

Print Assumptions C05_encode_is_reference.
Print Assumptions C05_reference_is_mixed_radix.
Print Assumptions C05_select_without_table.
Print Assumptions C05_select_with_table.
Print Assumptions C05_fast_is_reference.
Print Assumptions C05_decode_reads_value.
Print Assumptions C05_decode_any_walk.
