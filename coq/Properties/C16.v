(* C16 -- bit, number and DNA conversions are exact inverses at any length. *)
From DSW Require Import Py Bignum Convert Spec.
From DSW.Proofs Require Import BignumProofs ConvertProofs.

(* converting to a number and back with the original length returns the original (both code paths) *)
Theorem C16_bits_roundtrip_str : forall l, bits_ok l ->
  number_to_bit_str (bit_to_number_str l) (Z.of_nat (length l)) = Ok l.
Proof. exact bits_roundtrip_str. Qed.
Theorem C16_bits_roundtrip_int : forall l, bits_ok l ->
  number_to_bit_int (bit_to_number_int l) (Z.of_nat (length l)) = Ok l.
Proof. exact bits_roundtrip_int. Qed.
Theorem C16_dna_roundtrip_str : forall s, acgt s ->
  exists d, dna_to_number_str s = Ok d /\ number_to_dna_str d (Z.of_nat (length s)) = Ok s.
Proof. exact dna_roundtrip_str. Qed.
Theorem C16_dna_roundtrip_int : forall s, acgt s ->
  exists n, dna_to_number_int s = Ok n /\ number_to_dna_int n (Z.of_nat (length s)) = Ok s.
Proof. exact dna_roundtrip_int. Qed.

(* the string-typed and integer-typed code paths give the same value *)
Theorem C16_bit_paths_agree : forall l, bits_ok l ->
  canonical (bit_to_number_str l) /\ dval (bit_to_number_str l) = bit_to_number_int l.
Proof. exact bit_paths_agree. Qed.
Theorem C16_bit_value : forall l, bit_to_number_int l = rval 2 l.
Proof. exact bit_to_number_int_spec. Qed.
Theorem C16_dna_paths_agree : forall s, acgt s ->
  exists d n, dna_to_number_str s = Ok d /\ dna_to_number_int s = Ok n /\ canonical d /\ dval d = n
              /\ 0 <= n < 4 ^ Z.of_nat (length s).
Proof. exact dna_paths_agree. Qed.
Theorem C16_number_to_bit_paths_agree : forall d L, canonical d ->
  number_to_bit_str d L = number_to_bit_int (dval d) L.
Proof. exact number_to_bit_paths_agree. Qed.
Theorem C16_number_to_dna_paths_agree : forall d L, canonical d ->
  number_to_dna_str d L = number_to_dna_int (dval d) L.
Proof. exact number_to_dna_paths_agree. Qed.

(* every number below 2^L (4^L): the L-symbol rendering converts back to it and is left-padded with 0 (A) *)
Theorem C16_render_bits : forall n L, 0 <= L -> 0 <= n < 2 ^ L ->
  exists l, number_to_bit_int n L = Ok l /\ Z.of_nat (length l) = L /\ bits_ok l /\ rval 2 l = n
            /\ (forall i, (i < Z.to_nat L - Z.to_nat (Z.log2_up (n + 1)))%nat -> nth i l 1 = 0).
Proof. exact number_to_bit_int_render. Qed.
Theorem C16_render_bits_str : forall d L, canonical d -> 0 <= L -> dval d < 2 ^ L ->
  exists l, number_to_bit_str d L = Ok l /\ Z.of_nat (length l) = L /\ bits_ok l /\ rval 2 l = dval d
            /\ (forall i, (i < Z.to_nat L - Z.to_nat (Z.log2_up (dval d + 1)))%nat -> nth i l 1 = 0).
Proof. exact number_to_bit_str_render. Qed.
Theorem C16_render_dna : forall n L, 0 <= L -> 0 <= n < 4 ^ L ->
  exists s, number_to_dna_int n L = Ok s /\ Z.of_nat (length s) = L /\ acgt s /\ dna_to_number_int s = Ok n
            /\ (forall i, (2 * i + 1 < 2 * Z.to_nat L - Z.to_nat (Z.log2_up (n + 1)))%nat -> nth i s 0 = chA).
Proof. exact number_to_dna_int_render. Qed.

(* a foreign character is reported as ValueError by both paths *)
Theorem C16_dna_foreign : forall s, ~ acgt s ->
  dna_to_number_int s = Raise ValueError /\ dna_to_number_str s = Raise ValueError.
Proof. exact dna_foreign. Qed.

Example C16_nonvacuous :
  bits_ok [0; 0; 1; 0; 1] /\ bit_to_number_str [0; 0; 1; 0; 1] = [5]
  /\ number_to_bit_str [5] 5 = Ok [0; 0; 1; 0; 1] /\ number_to_bit_str (bit_to_number_str []) 0 = Ok []
  /\ acgt [65; 67; 71; 84] /\ dna_to_number_int [65; 67; 71; 84] = Ok 27 /\ number_to_dna_int 27 4 = Ok [65; 67; 71; 84].
Proof.
  split. { repeat constructor; (left; reflexivity) || (right; reflexivity). }
  split. { vm_compute; reflexivity. }
  split. { vm_compute; reflexivity. }
  split. { vm_compute; reflexivity. }
  split. { repeat constructor. }
  split; vm_compute; reflexivity.
Qed.

Print Assumptions C16_bits_roundtrip_str.
Print Assumptions C16_bits_roundtrip_int.
Print Assumptions C16_dna_roundtrip_str.
Print Assumptions C16_dna_roundtrip_int.
Print Assumptions C16_bit_paths_agree.
Print Assumptions C16_bit_value.
Print Assumptions C16_dna_paths_agree.
Print Assumptions C16_number_to_bit_paths_agree.
Print Assumptions C16_number_to_dna_paths_agree.
Print Assumptions C16_render_bits.
Print Assumptions C16_render_bits_str.
Print Assumptions C16_render_dna.
Print Assumptions C16_dna_foreign.
