(* C03 -- the coding graph is the largest closed sub-graph, or a ValueError.
   closed k t X: every member of X has at least t shift successors in X and, for t = 1, reaches inside X a member with
   two or more successors in X; largest_closed k t M X: X is closed, inside M, and contains every closed subset of M. *)
From DSW Require Import Py Bignum Convert Kmer Graph Spec GraphSpec.
From DSW.Proofs Require Import GenerateProofs TrimMapProofs CorollaryProofs.

Theorem C03_thresholds_2_to_4 : forall k t mask, (1 <= k)%nat -> length mask = Z.to_nat (pow4 k) -> Forall bit mask -> 2 <= t ->
  match connect_coding_graph k mask t with
  | Ok (V, acc) => largest_closed k t (maskb mask) (live_set acc)
                   /\ acc = induced_on k (live_set acc) /\ legal k acc
                   /\ (forall v, In v V <-> vin k (live_set acc) v)
                   /\ (exists v, vin k (live_set acc) v)
  | Raise ValueError => forall Y, closed k t Y -> vsub k Y (maskb mask) -> vempty k Y
  | _ => False
  end.
Proof. exact coding_graph_t2. Qed.

Theorem C03_threshold_1 : forall k mask, (1 <= k)%nat -> length mask = Z.to_nat (pow4 k) -> Forall bit mask ->
  match connect_coding_graph k mask 1 with
  | Ok (V, acc) => largest_closed k 1 (maskb mask) (live_set acc)
                   /\ acc = induced_on k (live_set acc) /\ legal k acc
                   /\ (forall v, In v V <-> vin k (live_set acc) v)
                   /\ (exists v, vin k (live_set acc) v)
  | Raise ValueError => forall Y, closed k 1 Y -> vsub k Y (maskb mask) -> vempty k Y
  | _ => False
  end.
Proof. exact coding_graph_t1. Qed.

(* the trimming loop alone (all thresholds): greatest fixed point within length mask + 1 rounds *)
Theorem C03_trimming : forall k t mask, (1 <= k)%nat -> length mask = Z.to_nat (pow4 k) -> Forall bit mask -> 1 <= t ->
  match trim_fuel (S (length mask)) k t mask with
  | Ok m => Forall bit m /\ length m = Z.to_nat (pow4 k)
            /\ closed_deg k t (maskb m) /\ vsub k (maskb m) (maskb mask)
            /\ (forall Y, closed_deg k t Y -> vsub k Y (maskb mask) -> vsub k Y (maskb m))
            /\ (exists v, vin k (maskb m) v)
  | Raise ValueError => forall Y, closed_deg k t Y -> vsub k Y (maskb mask) -> vempty k Y
  | _ => False
  end.
Proof. exact trim_spec. Qed.

(* a smaller mask never yields a larger graph; the largest closed sub-graph is unique *)
Theorem C03_monotone : forall k t M1 M2 X1 X2,
  largest_closed k t M1 X1 -> largest_closed k t M2 X2 -> vsub k M1 M2 -> vsub k X1 X2.
Proof. exact largest_closed_monotone. Qed.
Theorem C03_unique : forall k t M X1 X2,
  largest_closed k t M X1 -> largest_closed k t M X2 -> forall v, vin k X1 v <-> vin k X2 v.
Proof. exact largest_closed_unique. Qed.

(* trimming a latter map to the same threshold (remove_useless through latter_map_to_accessor) gives the same graph for
   t >= 2; when nothing is left the mask version raises ValueError and the latter-map version returns the arc-less accessor *)
Theorem C03_latter_map_trimming : forall k t mask, (1 <= k)%nat -> length mask = Z.to_nat (pow4 k) -> Forall bit mask ->
  2 <= t ->
  match connect_coding_graph k mask t with
  | Ok (V, acc) => latter_map_to_accessor (accessor_to_latter_map (induced k mask)) k (Some t) = Ok acc
  | Raise ValueError => latter_map_to_accessor (accessor_to_latter_map (induced k mask)) k (Some t) = Ok (blank_accessor k)
  | _ => False
  end.
Proof. exact latter_map_trimming_agrees. Qed.
(* what remove_useless computes, for every threshold >= 1: the latter map of the induced graph on the largest subset in which
   every member has at least t successors (for t = 1 this is NOT yet the coding graph: the reachability clause is missing) *)
Theorem C03_remove_useless : forall k t mask, (1 <= k)%nat -> length mask = Z.to_nat (pow4 k) -> Forall bit mask -> 1 <= t ->
  exists X : vset,
    closed_deg k t X /\ vsub k X (maskb mask)
    /\ (forall Y, closed_deg k t Y -> vsub k Y (maskb mask) -> vsub k Y X)
    /\ remove_useless (accessor_to_latter_map (induced k mask)) t = Ok (accessor_to_latter_map (induced_on k X)).
Proof. exact remove_useless_spec. Qed.

(* "a smaller mask never yields a larger graph", stated on the function itself: vertices and arcs of the smaller graph are in
   the larger graph; if the larger mask raises ValueError so does the smaller one *)
Theorem C03_monotone_function : forall k t m1 m2, (1 <= k)%nat -> 1 <= t ->
  length m1 = Z.to_nat (pow4 k) -> length m2 = Z.to_nat (pow4 k) -> Forall bit m1 -> Forall bit m2 -> mask_le k m1 m2 ->
  match connect_coding_graph k m1 t, connect_coding_graph k m2 t with
  | Ok (V1, acc1), Ok (V2, acc2) =>
      (forall v, In v V1 -> In v V2) /\
      (forall v j, 0 <= v < pow4 k -> 0 <= j < 4 -> 0 <= entry acc1 v j -> entry acc2 v j = entry acc1 v j)
  | Raise ValueError, _ => True
  | Ok _, Raise ValueError => False
  | _, _ => False
  end.
Proof. exact coding_graph_monotone. Qed.
(* no dead end and no information-free trap in the returned graph *)
Theorem C03_no_dead_end : forall k t mask V acc, (1 <= k)%nat -> 1 <= t ->
  length mask = Z.to_nat (pow4 k) -> Forall bit mask -> connect_coding_graph k mask t = Ok (V, acc) ->
  forall v, In v V ->
    (exists j, 0 <= j < 4 /\ 0 <= entry acc v j) /\
    (forall j, 0 <= j < 4 -> 0 <= entry acc v j -> In (entry acc v j) V) /\
    (exists w, reach acc v w /\ branching acc w).
Proof. exact coding_graph_no_dead_end. Qed.

(* non-vacuity, incl. the two order-2 masks on which the pinned tree failed before the repair *)
Example C03_nonvacuous :
  connect_coding_graph 2 [1;1;0;0;1;1;0;0;0;0;0;0;0;0;0;1] 1 =
     Ok ([0;1;4;5], [[0;1;-1;-1];[4;5;-1;-1];[-1;-1;-1;-1];[-1;-1;-1;-1];[0;1;-1;-1];[4;5;-1;-1];[-1;-1;-1;-1];[-1;-1;-1;-1];
                     [-1;-1;-1;-1];[-1;-1;-1;-1];[-1;-1;-1;-1];[-1;-1;-1;-1];[-1;-1;-1;-1];[-1;-1;-1;-1];[-1;-1;-1;-1];[-1;-1;-1;-1]])
  /\ connect_coding_graph 2 [1;1;1;0;0;1;0;0;0;0;0;0;1;0;0;0] 1 = Raise ValueError
  /\ fst (match connect_coding_graph 2 [0;1;1;0;1;0;0;1;1;0;0;1;0;1;1;0] 2 with Ok r => r | _ => ([], []) end)
     = [1;2;4;7;8;11;13;14].
Proof. repeat split; vm_compute; reflexivity. Qed.

Print Assumptions C03_thresholds_2_to_4.
Print Assumptions C03_threshold_1.
Print Assumptions C03_trimming.
Print Assumptions C03_monotone.
Print Assumptions C03_unique.
Print Assumptions C03_latter_map_trimming.
Print Assumptions C03_remove_useless.
Print Assumptions C03_monotone_function.
Print Assumptions C03_no_dead_end.
