(* C04 -- encoding is total, dead-end free and tight on generated graphs. *)
From DSW Require Import Py Bignum Convert Kmer Graph Coder Spec GraphSpec CoderSpec FastSpec.
From DSW.Proofs Require Import TerminationProofs ComposeProofs GeneratedProofs.

(* every graph returned by graph generation is well formed from every retained vertex: all reachable vertices are
   retained, have an arc and reach a branching vertex (for threshold >= 2 each of them has out-degree >= t) *)
Theorem C04_generated_is_wellformed : forall k t mask V acc v0, (1 <= k)%nat -> length mask = Z.to_nat (pow4 k) ->
  Forall bit mask -> 1 <= t -> connect_coding_graph k mask t = Ok (V, acc) -> In v0 V ->
  legal k acc /\ shaped acc /\ nrows acc = pow4 k /\ wf_from acc v0
  /\ (exists X, closed k t X /\ vsub k X (maskb mask) /\ acc = induced_on k X /\ vin k X v0)
  /\ (2 <= t -> forall v, reach acc v0 v -> t <= radix acc v).
Proof. exact generated_wf. Qed.

(* encoding any message from any retained vertex returns (Ok: neither out of fuel nor a missing out-degree) within
   message length x vertex count steps, and the strand is a walk of the graph *)
Theorem C04_total : forall k t mask V acc v0 sh bits, (1 <= k)%nat -> length mask = Z.to_nat (pow4 k) ->
  Forall bit mask -> 1 <= t -> connect_coding_graph k mask t = Ok (V, acc) -> In v0 V ->
  perm_table sh (nrows acc) -> bits_ok bits ->
  exists s, encode_normal (Z.to_nat (Z.of_nat (length bits) * nrows acc)) (bit_to_number_str bits) acc v0 sh = Ok s
            /\ Z.of_nat (length s) <= Z.of_nat (length bits) * nrows acc /\ is_walk acc v0 s.
Proof. exact encode_total_generated. Qed.
(* the same on ANY graph that is well formed from the start vertex (arc subsets included) *)
Theorem C04_total_wf : forall acc v0 sh bits, shaped acc -> wf_from acc v0 -> perm_table sh (nrows acc) -> bits_ok bits ->
  exists s, encode_normal (Z.to_nat (Z.of_nat (length bits) * nrows acc)) (bit_to_number_str bits) acc v0 sh = Ok s
            /\ Z.of_nat (length s) <= Z.of_nat (length bits) * nrows acc
            /\ is_walk acc v0 s /\ walk_value acc v0 sh s = rval 2 bits.
Proof. exact encode_normal_total. Qed.
(* the pigeonhole fact behind the bound: a run of out-degree-1 vertices is shorter than the vertex count *)
Theorem C04_deg1_runs_bounded : forall acc v, shaped acc -> wf_from acc v ->
  exists n, Z.of_nat n < nrows acc /\ 2 <= radix acc (iter1 acc n v)
            /\ forall m, (m < n)%nat -> radix acc (iter1 acc m v) = 1.
Proof. exact deg1_run_bounded. Qed.

(* tightness, normal mode: the last nucleotide is an information-carrying one and the product of the out-degrees met
   before the last step never exceeds the message value *)
Theorem C04_tight : forall fuel acc v0 sh bits s, shaped acc -> in_range acc v0 -> perm_table sh (nrows acc) ->
  bits_ok bits -> 0 < rval 2 bits ->
  encode_normal fuel (bit_to_number_str bits) acc v0 sh = Ok s ->
  s <> [] /\ radix_product acc v0 (removelast s) <= rval 2 bits /\ 2 <= radix acc (walk_end acc v0 (removelast s)).
Proof. exact encode_normal_tight. Qed.
Theorem C04_zero_message : forall fuel acc v0 sh bits, bits_ok bits -> rval 2 bits = 0 ->
  encode_normal fuel (bit_to_number_str bits) acc v0 sh = Ok [].
Proof. exact encode_normal_zero. Qed.
(* so an L-bit message needs at most L nucleotides on a threshold >= 2 graph and ceil(L/2) on the complete graph *)
Theorem C04_length_t2 : forall k t mask V acc v0 sh bits fuel s, (1 <= k)%nat ->
  length mask = Z.to_nat (pow4 k) -> Forall bit mask -> 2 <= t -> connect_coding_graph k mask t = Ok (V, acc) -> In v0 V ->
  perm_table sh (nrows acc) -> bits_ok bits ->
  encode_normal fuel (bit_to_number_str bits) acc v0 sh = Ok s -> (length s <= length bits)%nat.
Proof. exact strand_length_generated_t2. Qed.
Theorem C04_length_complete : forall k mask V acc v0 sh bits fuel s, (1 <= k)%nat ->
  length mask = Z.to_nat (pow4 k) -> Forall bit mask -> connect_coding_graph k mask 4 = Ok (V, acc) -> In v0 V ->
  perm_table sh (nrows acc) -> bits_ok bits ->
  encode_normal fuel (bit_to_number_str bits) acc v0 sh = Ok s -> (2 * length s <= length bits + 1)%nat.
Proof. exact strand_length_generated_t4. Qed.
(* fast mode: the bits carried by the steps total L or L+1 *)
Theorem C04_fast : forall k t mask V acc v0 sh bits, (1 <= k)%nat -> length mask = Z.to_nat (pow4 k) ->
  Forall bit mask -> 1 <= t -> connect_coding_graph k mask t = Ok (V, acc) -> In v0 V ->
  perm_table sh (nrows acc) -> bits_ok bits -> no_outdeg3 acc ->
  exists s, encode_fast (Z.to_nat (Z.of_nat (length bits) * nrows acc)) bits acc v0 sh = Ok s /\ is_walk acc v0 s
            /\ (bits_carried acc v0 s = Z.of_nat (length bits) \/ bits_carried acc v0 s = Z.of_nat (length bits) + 1).
Proof. exact encode_fast_generated. Qed.

Print Assumptions C04_generated_is_wellformed.
Print Assumptions C04_total.
Print Assumptions C04_total_wf.
Print Assumptions C04_deg1_runs_bounded.
Print Assumptions C04_tight.
Print Assumptions C04_zero_message.
Print Assumptions C04_length_t2.
Print Assumptions C04_length_complete.
Print Assumptions C04_fast.
