(* Graph.v -- layer 0: graph representations and graph generation.
   dsw/graphized.py: accessor_to_adjacency_matrix, adjacency_matrix_to_accessor,
     accessor_to_latter_map, latter_map_to_accessor, remove_useless, obtain_vertices,
     obtain_leaf_vertices;
   dsw/spiderweb.py: find_vertices, connect_valid_graph, connect_coding_graph.
   An accessor is a list of rows of four Z (-1 = no arc); a vertex mask is a list of Z
   (0 = excluded); a latter map is an association list in insertion order. *)
From DSW Require Import Py Kmer Convert.

Definition accessor := list (list Z).
Definition lmap := list (Z * list Z).

Definition empty_row : list Z := [-1; -1; -1; -1].
Definition live_entries (row : list Z) : list Z := filter (fun x => 0 <=? x) row.
Definition out_degree (row : list Z) : Z := Z.of_nat (length (live_entries row)).
(* (row + 1).astype(bool).any() : some entry differs from -1 *)
Definition row_listed (row : list Z) : bool := existsb (fun x => negb (x =? -1)) row.

Definition get_row (acc : accessor) (v : Z) : list Z := nth (Z.to_nat v) acc empty_row.
Definition maskb (mask : list Z) (v : Z) : bool := negb (nth (Z.to_nat v) mask 0 =? 0).

(* ---- obtain_vertices (graphized.py 466-487) -------------------------------------------- *)
Fixpoint listed_from (acc : accessor) (v : Z) : list Z :=
  match acc with
  | [] => []
  | row :: t => if row_listed row then v :: listed_from t (v + 1) else listed_from t (v + 1)
  end.
Definition obtain_vertices (acc : accessor) : list Z := listed_from acc 0.

(* ---- accessor_to_latter_map (192-233) --------------------------------------------------- *)
Fixpoint lmap_from (acc : accessor) (v : Z) : lmap :=
  match acc with
  | [] => []
  | row :: t => if row_listed row then (v, live_entries row) :: lmap_from t (v + 1) else lmap_from t (v + 1)
  end.
Definition accessor_to_latter_map (acc : accessor) : lmap := lmap_from acc 0.

(* ---- remove_useless (307-377) ------------------------------------------------------------- *)
Definition keys (m : lmap) : list Z := map fst m.
(* one round: returns the new map and remove_flag *)
Definition useless_round (m : lmap) (t : Z) : lmap * bool :=
  let removed := keys (filter (fun kv => Z.of_nat (length (snd kv)) <? t) m) in
  let saved := keys (filter (fun kv => negb (Z.of_nat (length (snd kv)) <? t)) m) in
  let kept := filter (fun kv => negb (memZ (fst kv) removed)) m in
  let ok (l : Z) := negb (memZ l removed) && memZ l saved in
  (map (fun kv => (fst kv, filter ok (snd kv))) kept,
   existsb (fun kv => existsb (fun l => negb (ok l)) (snd kv)) kept).

Fixpoint remove_useless_fuel (fuel : nat) (m : lmap) (t : Z) : result lmap :=
  match fuel with
  | O => OutOfFuel
  | S f => let '(m', flag) := useless_round m t in
           if flag then remove_useless_fuel f m' t else Ok m'
  end.
(* every round with remove_flag deletes at least one listed successor: fuel = total number of
   successor entries + 1 *)
Definition lmap_size (m : lmap) : nat := fold_left (fun a kv => (a + length (snd kv))%nat) m 0%nat.
Definition remove_useless (m : lmap) (t : Z) : result lmap := remove_useless_fuel (S (lmap_size m)) m t.

(* ---- latter_map_to_accessor (236-304) --------------------------------------------------- *)
Definition blank_accessor (k : nat) : accessor := repeat empty_row (Z.to_nat (pow4 k)).
Definition set_entry (acc : accessor) (v : Z) (col : Z) (x : Z) : accessor :=
  set_nth acc (Z.to_nat v) (set_nth (get_row acc v) (Z.to_nat col) x).
(* accessor[former, latter % 4] = latter ; NumPy index rules on the row index *)
Definition put_arc (acc : accessor) (former latter : Z) : result accessor :=
  let n := Z.of_nat (length acc) in
  let v := if former <? 0 then former + n else former in
  if (v <? 0) || (n <=? v) then Raise IndexError else Ok (set_entry acc v (latter mod 4) latter).
Fixpoint put_arcs (acc : accessor) (former : Z) (ls : list Z) : result accessor :=
  match ls with [] => Ok acc | l :: t => a <- put_arc acc former l ;; put_arcs a former t end.
Fixpoint put_map (acc : accessor) (m : lmap) : result accessor :=
  match m with [] => Ok acc | (f, ls) :: t => a <- put_arcs acc f ls ;; put_map a t end.

Definition latter_map_to_accessor (m : lmap) (k : nat) (threshold : option Z) : result accessor :=
  m' <- (match threshold with None => Ok m | Some t => remove_useless m t end) ;;
  put_map (blank_accessor k) m'.

(* ---- accessor <-> adjacency matrix (56-189) --------------------------------------------- *)
Definition all_entries (acc : accessor) : list Z := concat acc.
Definition minZ (l : list Z) (d : Z) := fold_left Z.min l d.
Definition maxZ (l : list Z) (d : Z) := fold_left Z.max l d.

(* matrix[v][row[row >= 0]] = 1 *)
Definition matrix_row (n : nat) (row : list Z) : list Z :=
  map (fun c => if memZ c (live_entries row) then 1 else 0) (zrange n).

Definition accessor_to_adjacency_matrix (acc : accessor) (maximum_length : nat) : result (list (list Z)) :=
  let n := Z.of_nat (length acc) in
  if pow4 maximum_length <=? n then Raise OtherExn (* MemoryError *)
  else if negb (forallb (fun r => Nat.eqb (length r) 4) acc)
          || (minZ (all_entries acc) 0 <? -1) || (n - 1 <? maxZ (all_entries acc) (-1))
       then Raise ValueError
       else Ok (map (matrix_row (length acc)) acc).

(* where(vertex == 1)[0] *)
Fixpoint ones_from (row : list Z) (j : Z) : list Z :=
  match row with [] => [] | x :: t => if x =? 1 then j :: ones_from t (j + 1) else ones_from t (j + 1) end.

(* int(log(n) / log(4)) for n a power of four: the exponent *)
Fixpoint log4_fuel (fuel : nat) (n : Z) : nat :=
  match fuel with O => O | S f => if n <? 4 then O else S (log4_fuel f (n / 4)) end.
Definition log4 (n : Z) : nat := log4_fuel (Z.to_nat (Z.log2_up (n + 1))) n.

Fixpoint matrix_rows (rows : list (list Z)) (v : Z) (k : nat) : result accessor :=
  match rows with
  | [] => Ok []
  | r :: t =>
      let next := ones_from r 0 in
      let ref := obtain_latters v k in
      (* list(set(next) | set(ref)) != ref : raise unless every 1 sits on a shift successor *)
      if forallb (fun x => memZ x ref) next
      then rest <- matrix_rows t (v + 1) k ;; Ok (map (fun x => if memZ x next then x else -1) ref :: rest)
      else Raise ValueError
  end.
Definition adjacency_matrix_to_accessor (m : list (list Z)) : result accessor :=
  matrix_rows m 0 (log4 (Z.of_nat (length m))).

(* ---- obtain_leaf_vertices (490-558) ------------------------------------------------------ *)
(* accessor variant: accessor[former_index] with NumPy index rules *)
Fixpoint leaf_level_acc (acc : accessor) (branch : list Z) : result (list Z) :=
  match branch with
  | [] => Ok []
  | v :: t => r <- py_get acc v ;; rest <- leaf_level_acc acc t ;; Ok (live_entries r ++ rest)
  end.
Fixpoint leaves_acc (depth : nat) (acc : accessor) (branch : list Z) : result (list Z) :=
  match depth with O => Ok branch | S d => l <- leaf_level_acc acc branch ;; leaves_acc d acc l end.

Fixpoint lookup (m : lmap) (v : Z) : option (list Z) :=
  match m with [] => None | (k, ls) :: t => if k =? v then Some ls else lookup t v end.
Definition leaf_level_map (m : lmap) (branch : list Z) : list Z :=
  flat_map (fun v => match lookup m v with Some ls => ls | None => [] end) branch.
Fixpoint leaves_map (depth : nat) (m : lmap) (branch : list Z) : list Z :=
  match depth with O => branch | S d => leaves_map d m (leaf_level_map m branch) end.

(* ---- find_vertices (spiderweb.py 447-497) ----------------------------------------------- *)
(* the filter is any predicate on strings (code points): user-defined filters included *)
Definition kmer_string (k : nat) (v : Z) : list Z :=
  match number_to_dna_int v (Z.of_nat k) with Ok s => s | _ => [] end.
Definition find_vertices (k : nat) (f : list Z -> bool) : result (list Z) :=
  let mask := map (fun v => if f (kmer_string k v) then 1 else 0) (vertices_of k) in
  if forallb (fun x => x =? 0) mask then Raise ValueError else Ok mask.

(* ---- connect_valid_graph (500-571) -------------------------------------------------------- *)
Definition induced_row (k : nat) (mask : list Z) (v : Z) : list Z :=
  if maskb mask v
  then map (fun l => if maskb mask l then l else -1) (obtain_latters v k)
  else empty_row.
Definition induced (k : nat) (mask : list Z) : accessor := map (induced_row k mask) (vertices_of k).

Definition connect_valid_graph (k : nat) (mask : list Z) : result accessor :=
  if 0 <? sumZ mask then Ok (induced k mask) else Raise ValueError.

(* ---- connect_coding_graph (574-700, with the threshold-1 repair) ---------------------- *)
(* one trimming round: new_vertices[v] = (number of marked successors >= t) for marked v *)
Definition trim_round (k : nat) (t : Z) (mask : list Z) : list Z :=
  map (fun v => if maskb mask v
                then (if t <=? sumZ (map (fun l => nth (Z.to_nat l) mask 0) (obtain_latters v k)) then 1 else 0)
                else 0) (vertices_of k).

Fixpoint trim_fuel (fuel : nat) (k : nat) (t : Z) (mask : list Z) : result (list Z) :=
  match fuel with
  | O => OutOfFuel
  | S f =>
      let new := trim_round k t mask in
      if sumZ new <? 1 then Raise ValueError
      else if sumZ mask - sumZ new =? 0 then Ok mask
      else trim_fuel f k t new
  end.

(* threshold 1: vertices that can reach a vertex of out-degree > 1 *)
Definition useful_step (acc : accessor) (listed : list Z) (useful : list bool) : list bool :=
  let get v := nth (Z.to_nat v) useful false in
  fold_left (fun (reached : list bool) v =>
               set_nth reached (Z.to_nat v) (get v || existsb get (live_entries (get_row acc v))))
            listed useful.
Fixpoint list_bool_eqb (a b : list bool) : bool :=
  match a, b with
  | [], [] => true
  | x :: a', y :: b' => Bool.eqb x y && list_bool_eqb a' b'
  | _, _ => false
  end.
Fixpoint useful_fix (fuel : nat) (acc : accessor) (listed : list Z) (useful : list bool) : result (list bool) :=
  match fuel with
  | O => OutOfFuel
  | S f => let reached := useful_step acc listed useful in
           if list_bool_eqb reached useful then Ok useful else useful_fix f acc listed reached
  end.

(* the cascade of lines 686-697: clear the arc into a removed vertex; a vertex whose last arc
   disappears is propagated to its own predecessors *)
Definition cascade_pair (k : nat) (st : accessor * list (Z * Z)) (p : Z * Z) : accessor * list (Z * Z) :=
  let '(acc, new_pairs) := st in
  let '(former, latter) := p in
  let previous := out_degree (get_row acc former) in
  let acc' := set_entry acc former (latter mod 4) (-1) in
  let current := out_degree (get_row acc' former) in
  if (current <? previous) && (current =? 0)
  then (acc', new_pairs ++ map (fun i => (i, former)) (obtain_formers former k))
  else (acc', new_pairs).
Fixpoint cascade (fuel : nat) (k : nat) (acc : accessor) (pairs : list (Z * Z)) : result accessor :=
  match pairs with
  | [] => Ok acc
  | _ => match fuel with
         | O => OutOfFuel
         | S f => let '(acc', new_pairs) := fold_left (cascade_pair k) pairs (acc, []) in
                  cascade f k acc' new_pairs
         end
  end.
Definition remove_vertex (k : nat) (acc : accessor) (u : Z) : result accessor :=
  let acc1 := set_nth acc (Z.to_nat u) empty_row in
  cascade (S (length acc)) k acc1 (map (fun i => (i, u)) (obtain_formers u k)).
Fixpoint remove_vertices (k : nat) (acc : accessor) (us : list Z) : result accessor :=
  match us with [] => Ok acc | u :: t => a <- remove_vertex k acc u ;; remove_vertices k a t end.

Fixpoint threshold1_fuel (fuel : nat) (k : nat) (acc : accessor) : result (list Z * accessor) :=
  match fuel with
  | O => OutOfFuel
  | S f =>
      let listed := obtain_vertices acc in
      match listed with
      | [] => Raise ValueError
      | _ =>
          useful <- useful_fix (S (length acc)) acc listed (map (fun r => 1 <? out_degree r) acc) ;;
          let useless := filter (fun v => negb (nth (Z.to_nat v) useful false)) listed in
          match useless with
          | [] => Ok (listed, acc)
          | _ => acc' <- remove_vertices k acc useless ;; threshold1_fuel f k acc'
          end
      end
  end.

(* the vertex description: a 0/1 mask for t >= 2 (returned as the marked positions), the index
   array of obtain_vertices for t = 1; both are reported as the ascending list of vertices *)
Definition marked (mask : list Z) : list Z := filter (maskb mask) (zrange (length mask)).

Definition connect_coding_graph (k : nat) (mask : list Z) (t : Z) : result (list Z * accessor) :=
  m <- trim_fuel (S (length mask)) k t mask ;;
  if 0 <? sumZ m then
    let acc := induced k m in
    if t =? 1 then threshold1_fuel (S (length acc)) k acc else Ok (marked m, acc)
  else Raise ValueError.
