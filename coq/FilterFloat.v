(* FilterFloat.v -- layer 0: LocalBioFilter.valid with its GC comparisons performed in binary64 exactly as the Python performs
   them (gc_range given as two floats), next to Filter.valid which takes the equivalent integer thresholds.  The two are proved
   equal in Proofs/FilterFloatProofs.v; only Filter.valid is extracted. *)
From Coq Require Import ZArith List Bool PrimFloat.
From DSW Require Import Py Filter Thresholds.
Import ListNotations.
Open Scope Z_scope.

Record fcfg := { ff_k : Z; ff_run : option Z; ff_motifs : option (list (list Z)); ff_gc : option (float * float) }.

(* for index in range(len(obs) - k + 1): gc_count > hi * k -> False ; gc_count < lo * k -> False *)
Fixpoint windows_ok_float (fuel : nat) (k : nat) (lo hi : float) (kz : Z) (obs : list Z) : bool :=
  match fuel with
  | O => true
  | S f =>
      let g := gc_count (firstn k obs) in
      if PrimFloat.ltb (hi * fz kz)%float (fz g) then false
      else if PrimFloat.ltb (fz g) (lo * fz kz)%float then false
      else match obs with [] => true | _ :: t => windows_ok_float f k lo hi kz t end
  end.

Definition valid_float (c : fcfg) (only_last : bool) (s : list Z) : bool :=
  let obs := if only_last then py_slice_from s (- ff_k c) else s in
  forallb is_acgt obs &&
  (match ff_run c with
   | Some r => negb (existsb (fun n => infixZ (repeat n (Z.to_nat (1 + r))) obs) [chA; chC; chG; chT])
   | None => true end) &&
  (match ff_motifs c with
   | Some ms => negb (existsb (fun m => infixZ m obs || infixZ (reverse_complement m) obs) ms)
   | None => true end) &&
  (match ff_gc c with
   | Some (lo, hi) =>
       let n := Z.of_nat (length obs) in
       if ff_k c <=? n
       then windows_ok_float (Z.to_nat (n - ff_k c + 1)) (Z.to_nat (ff_k c)) lo hi (ff_k c) obs
       else negb (PrimFloat.ltb (hi * fz (ff_k c))%float (fz (gc_count obs)))
            && negb (PrimFloat.ltb ((1 - lo) * fz (ff_k c))%float (fz (at_count obs)))
   | None => true end).

(* the configuration with integer thresholds that Filter.valid takes *)
Definition to_cfg (c : fcfg) : cfg :=
  {| f_k := ff_k c; f_run := ff_run c; f_motifs := ff_motifs c;
     f_gc := match ff_gc c with Some (lo, hi) => Some (thresholds lo hi (ff_k c)) | None => None end |}.
