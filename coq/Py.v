(* Py.v -- the small "Python / NumPy semantics" library the layer-0 model is written in.
   Executable definitions only (no proofs), so that the model still builds and runs when a
   proof breaks.  Data integers are Z, lengths / positions / fuel are nat, characters are
   code points (Z). *)
From Coq Require Export ZArith List Bool.
Export ListNotations.
Open Scope Z_scope.

(* ---- results and exceptions ------------------------------------------------------- *)
Inductive exn := ValueError | IndexError | TypeError | OverflowError | KeyError | OtherExn.

Inductive result (A : Type) : Type :=
| Ok (a : A)
| Raise (e : exn)
| OutOfFuel.
Arguments Ok {A} a.
Arguments Raise {A} e.
Arguments OutOfFuel {A}.

Definition bind {A B} (r : result A) (f : A -> result B) : result B :=
  match r with Ok a => f a | Raise e => Raise e | OutOfFuel => OutOfFuel end.
Notation "x <- r ;; k" := (bind r (fun x => k)) (at level 61, r at next level, right associativity).

Definition exn_code (e : exn) : Z :=
  match e with ValueError => 1 | IndexError => 2 | TypeError => 3 | OverflowError => 4
             | KeyError => 5 | OtherExn => 6 end.

(* ---- characters ---------------------------------------------------------------------- *)
Definition chA : Z := 65.  Definition chC : Z := 67.
Definition chG : Z := 71.  Definition chT : Z := 84.

(* "ACGT".index(c) ; None = ValueError *)
Definition nuc_index (c : Z) : option Z :=
  if c =? 65 then Some 0 else if c =? 67 then Some 1 else
  if c =? 71 then Some 2 else if c =? 84 then Some 3 else None.

(* "ACGT"[j] for 0 <= j < 4 (callers only pass such j; any other j gives 'T', never used) *)
Definition nuc_char (j : Z) : Z :=
  if j =? 0 then 65 else if j =? 1 then 67 else if j =? 2 then 71 else 84.

Definition is_acgt (c : Z) : bool := match nuc_index c with Some _ => true | None => false end.

(* ---- list access ------------------------------------------------------------------ *)
Fixpoint nthZ {A} (l : list A) (i : nat) : option A :=
  match l, i with
  | [], _ => None
  | x :: _, O => Some x
  | _ :: t, S j => nthZ t j
  end.

(* l[i] with Python / NumPy index rules: negative indices wrap once, anything else outside
   raises IndexError *)
Definition py_get {A} (l : list A) (i : Z) : result A :=
  let n := Z.of_nat (length l) in
  let j := if i <? 0 then i + n else i in
  if (j <? 0) || (n <=? j) then Raise IndexError
  else match nthZ l (Z.to_nat j) with Some x => Ok x | None => Raise IndexError end.

(* l[lo:hi] with Python's clamping; lo, hi may be negative *)
Definition clampZ (n i : Z) : Z :=
  let j := if i <? 0 then i + n else i in
  if j <? 0 then 0 else if n <? j then n else j.
Definition py_slice {A} (l : list A) (lo hi : Z) : list A :=
  let n := Z.of_nat (length l) in
  let a := clampZ n lo in let b := clampZ n hi in
  if b <=? a then [] else firstn (Z.to_nat (b - a)) (skipn (Z.to_nat a) l).
Definition py_slice_from {A} (l : list A) (lo : Z) : list A := py_slice l lo (Z.of_nat (length l)).
Definition py_slice_to {A} (l : list A) (hi : Z) : list A := py_slice l 0 hi.

(* replace position i (a nat already known to be in range; no-op otherwise) *)
Fixpoint set_nth {A} (l : list A) (i : nat) (x : A) : list A :=
  match l, i with
  | [], _ => []
  | _ :: t, O => x :: t
  | y :: t, S j => y :: set_nth t j x
  end.

Definition eqb_listZ := list_eq_dec Z.eq_dec.
Fixpoint listZ_eqb (a b : list Z) : bool :=
  match a, b with
  | [], [] => true
  | x :: a', y :: b' => (x =? y) && listZ_eqb a' b'
  | _, _ => false
  end.

Fixpoint memZ (x : Z) (l : list Z) : bool :=
  match l with [] => false | y :: t => (x =? y) || memZ x t end.

(* l.index(x) as a position *)
Fixpoint indexZ (x : Z) (l : list Z) : option nat :=
  match l with
  | [] => None
  | y :: t => if x =? y then Some O else match indexZ x t with Some i => Some (S i) | None => None end
  end.

(* ---- NumPy rows ---------------------------------------------------------------------- *)
(* where(row >= 0)[0] : the live columns, ascending *)
Fixpoint used_from (row : list Z) (j : Z) : list Z :=
  match row with
  | [] => []
  | x :: t => if 0 <=? x then j :: used_from t (j + 1) else used_from t (j + 1)
  end.
Definition used_indices (row : list Z) : list Z := used_from row 0.

(* row[cols] (fancy indexing, all cols in range by construction) *)
Definition pick (row : list Z) (cols : list Z) : list Z :=
  map (fun j => nth (Z.to_nat j) row (-1)) cols.

(* argsort of at most a handful of keys: stable insertion sort on (key, position) *)
Fixpoint insert_kp (kp : Z * Z) (l : list (Z * Z)) : list (Z * Z) :=
  match l with
  | [] => [kp]
  | h :: t => if fst kp <? fst h then kp :: l else h :: insert_kp kp t
  end.
Fixpoint number_from {A} (l : list A) (i : Z) : list (A * Z) :=
  match l with [] => [] | x :: t => (x, i) :: number_from t (i + 1) end.
Definition argsort (keys : list Z) : list Z :=
  map snd (fold_left (fun acc kp => insert_kp kp acc) (number_from keys 0) []).

(* where(a == x)[0][0] *)
Fixpoint first_pos (x : Z) (l : list Z) (i : Z) : option Z :=
  match l with [] => None | y :: t => if x =? y then Some i else first_pos x t (i + 1) end.

(* ---- strings ------------------------------------------------------------------------- *)
(* needle in haystack (substring test) *)
Fixpoint prefixZ (p s : list Z) : bool :=
  match p, s with
  | [], _ => true
  | x :: p', y :: s' => (x =? y) && prefixZ p' s'
  | _ :: _, [] => false
  end.
Fixpoint infixZ (p s : list Z) : bool :=
  prefixZ p s || match s with [] => false | _ :: t => infixZ p t end.

Fixpoint countZ (x : Z) (l : list Z) : Z :=
  match l with [] => 0 | y :: t => (if x =? y then 1 else 0) + countZ x t end.

(* lexicographic order on strings of code points, sorted(set(...)) *)
Fixpoint lexltb (a b : list Z) : bool :=
  match a, b with
  | [], [] => false
  | [], _ :: _ => true
  | _ :: _, [] => false
  | x :: a', y :: b' => if x <? y then true else if y <? x then false else lexltb a' b'
  end.
Fixpoint insert_str (s : list Z) (l : list (list Z)) : list (list Z) :=
  match l with
  | [] => [s]
  | h :: t => if lexltb s h then s :: l else if listZ_eqb s h then l else h :: insert_str s t
  end.
Definition sort_dedup (l : list (list Z)) : list (list Z) := fold_left (fun acc s => insert_str s acc) l [].
Fixpoint mem_str (s : list Z) (l : list (list Z)) : bool :=
  match l with [] => false | h :: t => listZ_eqb s h || mem_str s t end.

(* sums *)
Definition sumZ (l : list Z) : Z := fold_left Z.add l 0.
Definition count_true (l : list bool) : Z := fold_left (fun a (b : bool) => if b then a + 1 else a) l 0.

(* 4^k for a nat k *)
Definition pow4 (k : nat) : Z := 4 ^ Z.of_nat k.
