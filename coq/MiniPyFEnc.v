(* MiniPyFEnc.v -- flat integer encoding of MiniPyF results for the semantics cross-check of harness/regen.py *)
From DSW Require Import MiniPyF.
Open Scope Z_scope.

(* only what the filter returns: a bool (or an exception); a procedure either completes or raises *)
Definition enc_res (r : res val) : list Z :=
  match r with
  | Ret (VBool b) => [0; 5; if b then 1 else 0]
  | Ret _ => [0; 99]
  | Exn e => [1; exn_code e]
  | Fuel => [2]
  | Stuck => [3]
  end.

Definition enc_proc (r : res env) : list Z :=
  match r with
  | Ret _ => [0]
  | Exn e => [1; exn_code e]
  | Fuel => [2]
  | Stuck => [3]
  end.
