(* MiniPyEnc.v -- flat integer encoding of MiniPy results, used by the semantics cross-check of harness/regen.py (the
   regenerated programs are run by the interpreter under vm_compute and by CPython on the same arguments). *)
From Coq Require Import PrimFloat Uint63.
From DSW Require Import MiniPyE.
Open Scope Z_scope.

Fixpoint enc_val (v : val) : list Z :=
  match v with
  | VInt z => [0; z]
  | VStr s => 1 :: Z.of_nat (length s) :: s
  | VList l => 2 :: Z.of_nat (length l) :: (fix go (l : list val) : list Z := match l with [] => [] | x :: t => enc_val x ++ go t end) l
  | VTuple l => 3 :: Z.of_nat (length l) :: (fix go (l : list val) : list Z := match l with [] => [] | x :: t => enc_val x ++ go t end) l
  | VNone => [4]
  | VBool b => [5; if b then 1 else 0]
  | VOpaque => [6]
  | VArr l => 7 :: Z.of_nat (length l) :: (fix go (l : list val) : list Z := match l with [] => [] | x :: t => enc_val x ++ go t end) l
  | VDict d => 8 :: Z.of_nat (length d) :: (fix go (d : list (val * val)) : list Z := match d with [] => [] | (k, v) :: t => enc_val k ++ enc_val v ++ go t end) d
  | VRatio a b => [9; a; b]
  | VSet l => 10 :: Z.of_nat (length l) :: (fix go (l : list val) : list Z := match l with [] => [] | x :: t => enc_val x ++ go t end) l
  | VFloat f => (* exact: sign, mantissa * 2^53, exponent (finite floats) *)
      if PrimFloat.eqb f 0%float then [11; 0; 0; 0] else
      let '(m, ex) := frshiftexp (PrimFloat.abs f) in
      [11; (if PrimFloat.ltb f 0%float then 1 else 0); Uint63.to_Z (normfr_mantissa m); (Uint63.to_Z ex - 2101)%Z]
  end.

Definition enc_res (r : res val) : list Z :=
  match r with
  | Ret v => 0 :: enc_val v
  | Exn e => [1; exn_code e]
  | Fuel => [2]
  | Stuck => [3]
  end.

(* an executable external environment for the cross-check: "__list_of_set__" lists a set of ints in ascending order (it meets
   MatrixRepr.set_order_ok; CPython's own order differs on sets that are not inside one aligned block, which the regenerated
   functions never observe -- that is what the theorems of the unit say, for EVERY environment meeting set_order_ok) *)
Definition ext_sorted (f : string) (args : list val) : res val :=
  if String.eqb f "__list_of_set__" then
    match args with
    | [VSet l] =>
        ks <~ map_res (fun x => match x with VInt z => Ret z | _ => Stuck end) l ;;
        Ret (VList (map VInt (fold_right insert_sortedZ [] ks)))
    | _ => Stuck
    end
  else Stuck.
