(* Score.v -- layer 0: calculate_intersection_score (dsw/graphized.py 780-852) and
   remove_nasty_arc (dsw/spiderweb.py 702-804). *)
From DSW Require Import Py Kmer Graph.

Fixpoint dedupZ (l : list Z) : list Z :=
  match l with [] => [] | x :: t => if memZ x t then dedupZ t else x :: dedupZ t end.
(* len(union1d(a, b)) *)
Definition union_len (a b : list Z) : Z := Z.of_nat (length (dedupZ (a ++ b))).

Definition scores_t := list (list Z).
(* scores[v, col] += x with NumPy index rules on v *)
Definition add_score (sc : scores_t) (v col x : Z) : result scores_t :=
  let n := Z.of_nat (length sc) in
  let w := if v <? 0 then v + n else v in
  if (w <? 0) || (n <=? w) then Raise IndexError
  else let row := nth (Z.to_nat w) sc [0; 0; 0; 0] in
       Ok (set_nth sc (Z.to_nat w) (set_nth row (Z.to_nat col) (nth (Z.to_nat col) row 0 + x))).

(* combinations(range(n), 2) in lexicographic order *)
Fixpoint pairs_of {A} (l : list A) : list (A * A) :=
  match l with [] => [] | x :: t => map (fun y => (x, y)) t ++ pairs_of t end.

Fixpoint add_all (sc : scores_t) (v : Z) (items : list (Z * Z)) : result scores_t :=
  match items with [] => Ok sc | (col, x) :: t => s <- add_score sc v col x ;; add_all s v t end.

Definition vertex_scores (m : lmap) (depth : nat) (ins del : bool) (cur : Z) (lats : list Z) : list (Z * Z) :=
  let branches := map (fun l => (l, leaves_map depth m [l])) lats in
  let subst := flat_map (fun p => let '((l1, b1), (l2, b2)) := p in
                                  let s := union_len b1 b2 in [(l1 mod 4, s); (l2 mod 4, s)]) (pairs_of branches) in
  let insert := if ins then
                  flat_map (fun lb => let '(l, b) := lb in
                              match lookup m l with
                              | Some ls => map (fun l2 => (l mod 4, union_len b (leaves_map depth m [l2]))) ls
                              | None => []
                              end) branches
                else [] in
  let delete := if del then let db := leaves_map depth m [cur] in
                            map (fun lb => (fst lb mod 4, union_len (snd lb) db)) branches
                else [] in
  subst ++ insert ++ delete.

Fixpoint score_keys (m : lmap) (todo : lmap) (depth : nat) (ins del : bool) (sc : scores_t) : result scores_t :=
  match todo with
  | [] => Ok sc
  | (cur, lats) :: t => s <- add_all sc cur (vertex_scores m depth ins del cur lats) ;; score_keys m t depth ins del s
  end.

Definition calculate_intersection_score (m : lmap) (k : nat) (ins del : bool) : result scores_t :=
  score_keys m m (k - 1) ins del (repeat [0; 0; 0; 0] (Z.to_nat (pow4 k))).

(* argmax: first position of the maximum *)
Definition argmaxZ (l : list Z) : Z :=
  match first_pos (maxZ l (hd 0 l)) l 0 with Some p => p | None => 0 end.

(* del latter_map[former][latter_map[former].index(latter)]; drop the key when the list is empty *)
Fixpoint remove_first (x : Z) (l : list Z) : list Z :=
  match l with [] => [] | y :: t => if x =? y then t else y :: remove_first x t end.
Fixpoint lmap_remove (m : lmap) (former latter : Z) : lmap :=
  match m with
  | [] => []
  | (k, ls) :: t => if k =? former
                    then match remove_first latter ls with [] => t | ls' => (k, ls') :: t end
                    else (k, ls) :: lmap_remove t former latter
  end.

(* returns accessor, latter map, removed arc, positive scores (row-major) *)
Definition remove_nasty_arc (acc : accessor) (m : lmap) (ins del : bool)
  : result (accessor * lmap * (Z * Z) * list Z) :=
  let k := log4 (Z.of_nat (length acc)) in
  sc <- calculate_intersection_score m k ins del ;;
  let flat := concat sc in
  let mx := maxZ flat (hd 0 flat) in
  let rows_with_max := filter (fun v => memZ mx (nth (Z.to_nat v) sc [])) (zrange (length sc)) in
  match filter (fun v => memZ v rows_with_max) (obtain_vertices acc) with
  | [] => Raise IndexError
  | former :: _ =>
      let col := argmaxZ (nth (Z.to_nat former) sc []) in
      let latter := (former * 4 + col) mod pow4 k in
      let acc' := set_entry acc former col (-1) in
      match lookup m former with
      | None => Raise KeyError
      | Some ls => if memZ latter ls
                   then match filter (fun x => 0 <? x) flat with
                        | [] => Raise IndexError   (* score_record[0] on an empty record: no positive score at all *)
                        | pos => Ok (acc', lmap_remove m former latter, (former, latter), pos)
                        end
                   else Raise ValueError
      end
  end.
