(* MiniPyE.v -- MiniPyD.v extended with what Monitor.__call__ (dsw/operation.py) needs: int / int as a binary64 quotient, negative
   ints as floats, int(float), divmod(float, int), "%04d:%02d:%02d" % (h, m, s), str(dict) of str -> int / str entries,
   str.replace, and SPrintOut: print(x, end="") appends x to the hidden variable "__out__" (so that the cross-check can compare the
   printed text).  datetime.now() and the elapsed time are EXTERNAL ("__now__", "__elapsed__").  A separate copy once more.
   MiniPyD.v -- MiniPyC.v extended with what create_random_shuffles (dsw/spiderweb.py) needs: a[:, j] = v on a 2-D integer array and
   SShuffleRow: the three statements  card = a[i]; random.shuffle(card); a[i] = card  (a row VIEW shuffled in place and written back)
   as one statement whose permutation is the next item of the hidden parameter "__rng__" (the state of NumPy's global generator,
   which the model does not describe: the theorems quantify over every stream of permutations).  random.seed(x) is the EXTERNAL
   function "__seed__" (it may raise for a seed NumPy rejects).  A separate copy once more.
   MiniPyC.v -- MiniPyM.v extended with what approximate_capacity (dsw/graphized.py) needs: binary64 floats (Coq's primitive
   floats, as in MiniPyF.v) and arrays of them, all(), abs(), ones(.., dtype=float), zeros_like, median, max of a float array,
   a[positions] = x and a[positions] += values on float arrays, an index that is the 1-tuple numpy.where returns,
   x[i].append(e), and the NEXT array of numpy.random.random read from the hidden parameter "__rng__" (the state of NumPy's
   global generator, which the model does not describe: the theorems quantify over every stream).  log2 and 10 ** negative
   are EXTERNAL functions ("__log2__", "__pow__": libm).  A separate copy once more.
   MiniPyM.v -- MiniPyS.v extended with what accessor_to_adjacency_matrix / adjacency_matrix_to_accessor (dsw/graphized.py)
   need: a.shape[1], numpy.min, set(list), set | set, a row of a 2-D array stored from a list, row[positions] = scalar, and
   EXTERNAL functions: call_in_ext resolves a name that is not in the module with a given environment.  The translator turns
   list(<a set>) into a call of the external "__list_of_set__": the iteration order of a CPython set is not modelled; the
   theorems about this unit quantify over every external function meeting set_order_ok (MatrixRepr.v).  A separate copy.
   MiniPyS.v -- MiniPyR.v extended with what calculate_intersection_score (dsw/graphized.py) and remove_nasty_arc
   (dsw/spiderweb.py) need: combinations(x, 2), union1d, unique, intersect1d, argmax, max, where on a 2-D array, reshape(-1),
   Counter(..).items(), transposition, column selection a[:, idx], a[i, j] op= v, del of a name / a dict key / a list item inside
   a dict, int(log(a) / log(b)) for an exact power.  A separate copy once more.
   MiniPyR.v -- MiniPyH.v extended with what path_matching (dsw/graphized.py) and repair_dna (dsw/spiderweb.py) need: sets
   (as duplicate-free lists in first-insertion order), del x[i], zip, itertools.product, sorted.  A separate copy once more.
   NOTE on sets: list(s) of a set lists the elements in first-insertion order; CPython's order is unspecified (hash order).
   The only place dsw uses it (repair_dna) immediately re-collects the candidates into a set and sorts them, so its result
   does not depend on that order; the cross-check of harness/regen.py runs CPython under several hash seeds.
   MiniPyH.v -- MiniPyG.v extended with what connect_coding_graph (dsw/spiderweb.py) needs: comparison of a 2-D array with an
   integer and of two arrays element by element, indexing an array with a list / array of positions, any() / all() / copy(),
   filling a row with a scalar, comprehensions with a condition.  A separate copy once more, so that the proofs about the
   graph unit (which quote pieces of MiniPyG.v) stay untouched.  Everything below is MiniPyG.v's text plus those additions.
   MiniPyG.v -- MiniPy.v extended with what the graph functions of dsw/graphized.py and dsw/spiderweb.py need: dicts, break,
   2-D array stores, boolean masks, astype, axis sums, ones / zeros of two dimensions, true division as a sign-only ratio.
   A separate copy, so that the proofs about dsw/operation.py and the coder (which quote pieces of MiniPy.v) stay untouched. *)
(* MiniPy.v -- a deep embedding of the fragment of Python that dsw/operation.py is written in, with an executable
   big-step interpreter.  harness/translate.py turns the CURRENT source text of a function into a term of type
   [fundef] by a purely syntactic walk over Python's ast (one constructor per ast node, nothing is interpreted by
   the translator); the meaning of the term is what [run_fun] computes.  coq/Generated/*Proofs.v prove, for all
   inputs, that running the regenerated term gives the result of the hand-written model (Bignum.v, Convert.v) the
   property theorems are about.  So for these functions the model is regenerated from the code on every run.

   Values are immutable (a Python list is a Coq list); this is sound because the translator refuses any function in
   which a list that is mutated in place could be reached through a second name (see translate.py, "aliasing").
   [Stuck] is returned for anything outside the modelled semantics (never for a Python exception), so that no theorem
   can be true through an unmodelled corner.  Executable definitions only, no proofs. *)
From Coq Require Export String.
From Coq Require Import PrimFloat Uint63 Floats.FloatOps Floats.SpecFloat.
From DSW Require Export Py.
From DSW Require Import Thresholds.
Open Scope Z_scope.

(* ---- values -------------------------------------------------------------------------------------------------- *)
Inductive val :=
| VInt (z : Z)
| VBool (b : bool)
| VStr (s : list Z)            (* code points *)
| VList (l : list val)
| VTuple (l : list val)
| VNone
| VOpaque                      (* an object the model does not look into: Monitor() *)
| VArr (l : list val)          (* a NumPy integer / boolean array: its elements (1-D) or its rows (2-D, each a VArr);
                                  element values are unbounded integers: int64 wrap-around is NOT modelled *)
| VDict (d : list (val * val)) (* a dict in insertion order; keys are ints or strs *)
| VSet (l : list val)          (* a set of strs / ints: duplicate-free, in first-insertion order *)
| VRatio (a b : Z)            (* the float a / b of two ints with 0 < b, of which only the sign is ever looked at
                                  (a / b > 0, == 0 ...): exact in binary64 for |a|, b < 2^1000 (no underflow to 0) *)
| VFloat (f : float).          (* binary64; an array of floats is a VArr of VFloat *)

Inductive res (A : Type) :=
| Ret (a : A)                  (* normal result *)
| Exn (e : exn)                (* a Python exception *)
| Fuel                         (* a while loop used up its iteration budget *)
| Stuck.                       (* outside the modelled fragment *)
Arguments Ret {A} a.  Arguments Exn {A} e.  Arguments Fuel {A}.  Arguments Stuck {A}.

Definition rbind {A B} (r : res A) (f : A -> res B) : res B :=
  match r with Ret a => f a | Exn e => Exn e | Fuel => Fuel | Stuck => Stuck end.
Notation "x <~ r ;; k" := (rbind r (fun x => k)) (at level 61, r at next level, right associativity).

(* ---- syntax -------------------------------------------------------------------------------------------------- *)
Inductive binop := Add | Sub | Mul | FloorDiv | Mod | Pow | TrueDiv.
Inductive cmpop := CEq | CNe | CLt | CLe | CGt | CGe
                 | CIn | CNotIn.   (* x in s / x not in s: substring of a str, element of a list *)
Inductive ty := TStr | TInt | TList.
Inductive builtin1 :=
| BLen | BInt | BStr | BList | BRange | BEnumerate
| BRev                         (* x[::-1] *)
| BMapStr | BMapInt            (* list(map(str, x)), list(map(int, x)); map objects are only ever consumed once *)
| BIsNone                      (* x is None *)
| BNpWhere                     (* numpy.where(b) of a 1-D boolean array: a 1-tuple holding the array of positions *)
| BNpArgsort                   (* numpy.argsort(a) of a 1-D integer array with DISTINCT entries (ties are unspecified) *)
| BNpSum                       (* numpy.sum(a) of a 1-D integer array *)
| BNpArray                     (* numpy.array(x, dtype=int) of a list of ints / list of lists of ints *)
| BNpZeros                     (* numpy.zeros(shape=(n,), dtype=int) *)
| BNpZerosBool                 (* numpy.zeros(shape=(n,), dtype=bool) *)
| BAstypeBool | BAstypeInt     (* a.astype(bool), a.astype(int), any depth *)
| BNpSumAxis1                  (* numpy.sum(a, axis=1) of a 2-D array: the row sums (True counts 1) *)
| BTolist                      (* a.tolist() of a 1-D array *)
| BItems | BKeys               (* d.items(), d.keys() as lists (only ever iterated / measured / listed at once) *)
| BAny | BAll                  (* a.any(), a.all() of a 1-D boolean array *)
| BCopy                        (* a.copy(): values are immutable here, so the value itself *)
| BProduct                     (* itertools.product over the lists of a list x, as the list of tuples, rightmost varying fastest *)
| BSorted                      (* sorted(x) of a list of strs *)
| BNpOnes1                     (* numpy.ones(shape=(n,), dtype=int) *)
| BCombinations2               (* itertools.combinations(x, 2) as the list of pairs, in lexicographic order of positions *)
| BNpMax                       (* numpy.max(a) of an integer array of any depth (ValueError when empty) *)
| BMaxList                     (* max(x) of a non-empty list of ints *)
| BNpUnique                    (* numpy.unique(a): sorted, duplicate-free *)
| BNpArgmax                    (* numpy.argmax(a) of a 1-D integer array: first position of the maximum *)
| BReshapeFlat                 (* a.reshape(-1) *)
| BCounterItems                (* Counter(x).items() of a list of ints, as a list of (value, count) in first-occurrence order *)
| BTranspose                   (* a.T of a 2-D array (a 1-D array, e.g. the empty one, is its own transpose) *)
| BShape1                      (* a.shape[1] of a 2-D array with at least one row (an array without rows: not modelled) *)
| BNpMin                       (* numpy.min(a) of an integer array of any depth (ValueError when empty) *)
| BSetOf                       (* set(x) of a list of ints / strs *)
| BNpAllAny                    (* numpy.all(a) of a boolean array of any depth *)
| BAbs                         (* numpy.abs of a float or of a float array *)
| BNpOnesF                     (* numpy.ones(shape=(n,), dtype=float) *)
| BZerosLike                   (* numpy.zeros_like(a) of a 1-D float or integer array *)
| BMedian                      (* numpy.median of a non-empty list / array of floats without NaN *)
| BFmtFloat                    (* "%.5f" % x for a float x: the text is not modelled (it is only ever printed) *)
| BFmtHMS.                     (* "%04d:%02d:%02d" % (h, m, s) for ints or floats (a float is truncated, like %d does) *)
Inductive builtin2 :=
| BDivmod
| BZfill                       (* a.zfill(b) *)
| BJoin                        (* a.join(b) *)
| BMapIndex                    (* map(a.index, b) *)
| BIndexOf                     (* a.index(b) on a list or a str *)
| BNpOnes2 | BNpZeros2         (* numpy.ones / zeros(shape=(a, b), dtype=int) *)
| BZip                         (* zip(a, b) as a list of pairs *)
| BUnion1d                     (* numpy.union1d(a, b): sorted union; b may be a list holding one array (NumPy flattens it) *)
| BIntersect1d                 (* numpy.intersect1d(a, b): sorted common elements *)
| BIntLogRatio                 (* int(log(a) / log(b)) for a an exact power of b >= 2: the exponent.  The binary64 quotient is
                                  ASSUMED to truncate to the exact exponent (it does for 4^k, k <= 30, checked by the harness);
                                  Stuck when a is not a power of b *)
| BSetUnion                    (* a | b of two sets: the elements of a, then those of b not in a (the order is never observed
                                  except through the external "__list_of_set__") *)
| BColumns.                    (* a[:, idx] : the columns idx of a 2-D array (of every row); idx an integer array *)

Inductive expr :=
| EInt (z : Z) | EStr (s : list Z) | ENone | EBoolLit (b : bool) | EOpaque
| EVar (x : string)
| EBin (o : binop) (a b : expr)
| ECmp (o : cmpop) (a b : expr)
| ENot (a : expr) | EAnd (a b : expr) | EOr (a b : expr)
| EIf (c a b : expr)                               (* a if c else b *)
| EB1 (f : builtin1) (a : expr)
| EB2 (f : builtin2) (a b : expr)
| ERange3 (a b c : expr)
| EIndex (a i : expr)
| ESlice (a : expr) (lo hi : option expr)          (* a[lo:hi] *)
| EList (l : list expr) | ETuple (l : list expr)
| EComp (body : expr) (x : string) (iter : expr)   (* [body for x in iter] *)
| ETypeIs (a : expr) (t : ty)                      (* type(a) == t *)
| ECall (f : string) (args : list expr)            (* another function of the same module, positional *)
| EDict (l : list (expr * expr))                   (* {k: v, ...} *)
| ECompIf (body : expr) (x : string) (iter cond : expr)    (* [body for x in iter if cond] *)
| ESetNew                                          (* set() *)
| EFloat (f : float)                               (* a float literal *)
| EReplace (a b c : expr).                         (* a.replace(b, c) on strs, b not empty *)

Inductive target :=
| TVar (x : string)
| TTuple (xs : list string)                         (* a, b = ... *)
| TIndex (x : string) (i : expr)                    (* x[i] = ... *)
| TPair (x : string) (ys : list string)             (* x, (y1, y2, ..) = ...   (one nested tuple in second place) *)
| TIndex2 (x : string) (i j : expr)                 (* x[i][j] = ...  and  x[i, j] = ...  on a 2-D array *)
| TColumn (x : string) (j : expr).                  (* x[:, j] = ... : an integer stored in column j of every row *)

Inductive stmt :=
| SSkip
| SSeq (a b : stmt)
| SAssign (t : target) (e : expr)
| SAug (t : target) (o : binop) (e : expr)          (* t op= e ; t is TVar or TIndex *)
| SExpr (e : expr)                                  (* evaluated, result dropped *)
| SAppend (x : string) (e : expr)                   (* x.append(e) *)
| SInsert (x : string) (i e : expr)                 (* x.insert(i, e) *)
| SIf (c : expr) (a b : stmt)
| SFor (t : target) (iter : expr) (body : stmt)
| SWhile (c : expr) (body : stmt)
| SReturn (e : expr)
| SRaise (e : exn)
| SSetAdd (x : string) (e : expr)                   (* x.add(e) on a set *)
| SSetAdd2 (x : string) (i e : expr)                (* x[i].add(e) : a set inside a list *)
| SDel (x : string) (i : expr)                      (* del x[i] on a list, or of a dict key *)
| SDel2 (x : string) (i j : expr)                   (* del x[i][j] : a list item inside a dict / list *)
| SDelVar (x : string)                              (* del x *)
| SBreak                                            (* only inside SForB / SWhileB *)
| SForB (t : target) (iter : expr) (body : stmt)    (* a for loop whose body contains a break *)
| SWhileB (c : expr) (body : stmt)
| SNextRandom (x : string) (n : expr)               (* x = numpy.random.random(size=(n,)): the next array of the stream "__rng__" *)
| SAppendAt (x : string) (i e : expr)               (* x[i].append(e) : a list inside a list *)
| SPrintOut (e : expr)                              (* print(e, end="", flush=True): the str e is appended to "__out__" *)
| SShuffleRow (x : string) (i : expr).              (* card = x[i]; random.shuffle(card); x[i] = card : row i of the 2-D array x is
                                                       permuted by the next permutation of the stream "__rng__" *)                 (* a while loop whose body contains a break *)

Record fundef := { params : list string; body : stmt }.

(* ---- environments --------------------------------------------------------------------------------------------- *)
Definition env := list (string * val).

Fixpoint lookup (x : string) (en : env) : res val :=
  match en with
  | [] => Stuck                                     (* NameError / UnboundLocalError: not modelled *)
  | (y, v) :: t => if String.eqb x y then Ret v else lookup x t
  end.

(* update in place if bound, else append: the order of an environment never depends on values *)
Fixpoint update (x : string) (v : val) (en : env) : env :=
  match en with
  | [] => [(x, v)]
  | (y, w) :: t => if String.eqb x y then (y, v) :: t else (y, w) :: update x v t
  end.

(* ---- primitive operations ----------------------------------------------------------------------------------- *)
Fixpoint val_eqb (a b : val) : bool :=
  match a, b with
  | VInt x, VInt y => x =? y
  | VBool x, VBool y => Bool.eqb x y
  | VStr x, VStr y => listZ_eqb x y
  | VList x, VList y | VTuple x, VTuple y =>
      (fix go (p q : list val) : bool :=
         match p, q with
         | [], [] => true
         | u :: p', w :: q' => val_eqb u w && go p' q'
         | _, _ => false
         end) x y
  | VNone, VNone => true
  | _, _ => false
  end.

(* ints and bools compare numerically in Python (True == 1); the fragment never needs it, so it is Stuck *)
Definition mixes_bool (a b : val) : bool :=
  match a, b with VInt _, VBool _ | VBool _, VInt _ => true | _, _ => false end.

Definition is_arr (v : val) : bool := match v with VArr _ => true | _ => false end.

Definition truthy (v : val) : res bool :=
  match v with
  | VBool b => Ret b
  | VInt z => Ret (negb (z =? 0))
  | VStr s => Ret (negb (Nat.eqb (length s) 0))
  | VList l | VTuple l => Ret (negb (Nat.eqb (length l) 0))
  | VNone => Ret false
  | VOpaque => Stuck
  | VArr _ => Stuck                                 (* the truth value of an array is ambiguous / an error *)
  | VDict d => Ret (negb (Nat.eqb (length d) 0))
  | VSet l => Ret (negb (Nat.eqb (length l) 0))
  | VRatio _ _ => Stuck
  | VFloat _ => Stuck
  end.

Definition lexleb (a b : list Z) : bool := negb (lexltb b a).

Fixpoint map_res {A B} (f : A -> res B) (l : list A) : res (list B) :=
  match l with
  | [] => Ret []
  | x :: t => y <~ f x ;; ys <~ map_res f t ;; Ret (y :: ys)
  end.

Fixpoint zip_res {A} (f : val -> val -> res A) (l1 l2 : list val) : res (list A) :=
  match l1, l2 with
  | [], [] => Ret []
  | x :: t1, y :: t2 => z <~ f x y ;; zs <~ zip_res f t1 t2 ;; Ret (z :: zs)
  | _, _ => Exn ValueError                          (* shapes cannot be broadcast *)
  end.

Fixpoint mem_val (x : val) (l : list val) : bool :=
  match l with [] => false | y :: t => val_eqb x y || mem_val x t end.

Fixpoint dict_get (k : val) (d : list (val * val)) : option val :=
  match d with [] => None | (k', v) :: t => if val_eqb k k' then Some v else dict_get k t end.
Definition key_ok (k : val) : bool := match k with VInt _ | VStr _ => true | _ => false end.

Definition ratio_ok (a b : Z) : bool := (0 <? b) && (b <? 2 ^ 1000) && (- 2 ^ 1000 <? a) && (a <? 2 ^ 1000).

Definition has_float (a b : val) : bool :=
  match a, b with VFloat _, _ | _, VFloat _ => true | _, _ => false end.
(* an int as a float: exact below 2^53 (Python compares an int with a float exactly; below 2^53 the two coincide) *)
Definition float_of_int (z : Z) : res float :=
  if (0 <=? z) && (z <? 2 ^ 53) then Ret (fz z)
  else if (z <? 0) && (- 2 ^ 53 <? z) then Ret (- fz (- z))%float else Stuck.
(* int(x) / "%d" % x for a float x: truncation towards zero; ValueError for NaN, OverflowError for an infinity *)
Definition Z_trunc (f : float) : res Z :=
  match Prim2SF f with
  | S754_zero _ => Ret 0
  | S754_nan => Exn ValueError
  | S754_infinity _ => Exn OverflowError
  | S754_finite sg m e =>
      let v := if 0 <=? e then Zpos m * 2 ^ e else Zpos m / 2 ^ (- e) in Ret (if sg then - v else v)
  end.
(* divmod(x, y) for a finite float x and an int 0 < y < 2^53, as CPython's float_divmod computes it:
     mod = fmod(x, y) (exact; the sign of x);  div = (x - mod) / y;
     if mod != 0 and mod < 0 (y is positive): mod += y, div -= 1;  if mod == 0: mod = +0.0;
     floordiv = floor(div), + 1 when div - floordiv > 0.5;  when div == 0: floordiv = 0.0 with the sign of x / y.
   NaN / infinite x: not modelled *)
Definition fmod_exact (x : float) (y : Z) : res float :=
  match Prim2SF x with
  | S754_zero _ => Ret x
  | S754_finite sg m e =>
      let r := if 0 <=? e then fz ((Zpos m * 2 ^ e) mod y) else Z.ldexp (fz (Zpos m mod (y * 2 ^ (- e)))) e in
      Ret (if sg then (- r)%float else r)
  | _ => Stuck
  end.
Definition ffloor (d : float) : res float :=
  match Prim2SF d with
  | S754_zero _ => Ret d
  | S754_finite sg m e =>
      if 0 <=? e then Ret d
      else let q := Zpos m / 2 ^ (- e) in
           let exact := Zpos m mod 2 ^ (- e) =? 0 in
           float_of_int (if sg then (if exact then - q else - q - 1) else q)
  | _ => Stuck
  end.
Definition fdivmod (x : float) (y : Z) : res (float * float) :=
  if negb ((0 <? y) && (y <? 2 ^ 53)) then Stuck else
  let fy := fz y in
  md <~ fmod_exact x y ;;
  let dv := ((x - md) / fy)%float in
  let '(md, dv) := if PrimFloat.ltb md 0%float then ((md + fy)%float, (dv - 1)%float) else (md, dv) in
  let md := if PrimFloat.eqb md 0%float then 0%float else md in
  if PrimFloat.eqb dv 0%float then
    Ret ((match Prim2SF (x / fy)%float with S754_zero true | S754_finite true _ _ => (- 0)%float | _ => 0%float end), md)
  else
    fl <~ ffloor dv ;;
    Ret ((if PrimFloat.ltb 0.5%float (dv - fl)%float then (fl + 1)%float else fl), md).
Definition as_float (v : val) : res float :=
  match v with VFloat f => Ret f | VInt z => float_of_int z | _ => Stuck end.

Definition cmp_scalar (o : cmpop) (a b : val) : res val :=
  if has_float a b then
    (* ordering of floats (NaN compares false with everything, like PrimFloat.ltb / leb); == / != are not modelled *)
    x <~ as_float a ;; y <~ as_float b ;;
    match o with
    | CLt => Ret (VBool (PrimFloat.ltb x y)) | CLe => Ret (VBool (PrimFloat.leb x y))
    | CGt => Ret (VBool (PrimFloat.ltb y x)) | CGe => Ret (VBool (PrimFloat.leb y x))
    | _ => Stuck
    end
  else
  match a, b with
  | VRatio x y, VInt z =>
      (* sign tests of a true quotient against the integer 0 *)
      if ratio_ok x y && (z =? 0) then
        match o with
        | CEq => Ret (VBool (x =? 0)) | CNe => Ret (VBool (negb (x =? 0)))
        | CLt => Ret (VBool (x <? 0)) | CLe => Ret (VBool (x <=? 0))
        | CGt => Ret (VBool (0 <? x)) | CGe => Ret (VBool (0 <=? x))
        | _ => Stuck
        end
      else Stuck
  | VRatio _ _, _ | _, VRatio _ _ => Stuck
  | _, VDict d =>
      match o with
      | CIn => if key_ok a then Ret (VBool (match dict_get a d with Some _ => true | None => false end)) else Stuck
      | CNotIn => if key_ok a then Ret (VBool (match dict_get a d with Some _ => false | None => true end)) else Stuck
      | _ => Stuck
      end
  | VDict _, _ => Stuck
  | _, VSet l =>
      match o with
      | CIn => if key_ok a then Ret (VBool (mem_val a l)) else Stuck
      | CNotIn => if key_ok a then Ret (VBool (negb (mem_val a l))) else Stuck
      | _ => Stuck
      end
  | VSet _, _ => Stuck
  | _, _ =>
  if mixes_bool a b then Stuck else
  if is_arr a || is_arr b then Stuck else
  match o with
  | CEq => Ret (VBool (val_eqb a b))
  | CNe => Ret (VBool (negb (val_eqb a b)))
  | CIn | CNotIn =>
      let neg := match o with CNotIn => true | _ => false end in
      match a, b with
      | VStr x, VStr y => Ret (VBool (xorb neg (infixZ x y)))
      | (VInt _ | VStr _), VList l =>
          (* list membership compares with ==; only ints / strs against lists of ints / strs are modelled *)
          if forallb (fun y => match y with VInt _ | VStr _ => true | _ => false end) l
          then Ret (VBool (xorb neg (mem_val a l))) else Stuck
      | _, _ => Stuck
      end
  | _ =>
    match a, b with
    | VInt x, VInt y =>
        Ret (VBool (match o with CLt => x <? y | CLe => x <=? y | CGt => y <? x | _ => y <=? x end))
    | VStr x, VStr y =>
        Ret (VBool (match o with CLt => lexltb x y | CLe => lexleb x y | CGt => lexltb y x | _ => lexleb y x end))
    | _, _ => Stuck
    end
  end
  end.

(* NumPy broadcasting of a comparison: array against an integer scalar, element by element (a boolean element counts as
   0 / 1, as in NumPy) *)
Definition cmp_vals (o : cmpop) (a b : val) : res val :=
  match a, b with
  | VArr l, VInt _ =>
      match o with
      | CIn | CNotIn => Stuck
      | _ => r <~ map_res (fun x => match x with
                                    | VInt _ => cmp_scalar o x b
                                    | VBool t => cmp_scalar o (VInt (if t then 1 else 0)) b
                                    | _ => Stuck end) l ;; Ret (VArr r)
      end
  | VArr l1, VArr l2 =>
      (* two 1-D arrays of equal length, element by element (booleans against booleans, integers against integers) *)
      match o with
      | CEq | CNe =>
          r <~ zip_res (fun x y => match x, y with
                                   | VInt _, VInt _ | VBool _, VBool _ => cmp_scalar o x y
                                   | _, _ => Stuck end) l1 l2 ;; Ret (VArr r)
      | _ => Stuck
      end
  | _, _ => cmp_scalar o a b
  end.

(* a 2-D array against an integer: row by row *)
Definition cmp_top (o : cmpop) (a b : val) : res val :=
  match a, b with
  | VArr ((VArr _ :: _) as rows), VInt _ =>
      r <~ map_res (fun row => match row with VArr _ => cmp_vals o row b | _ => Stuck end) rows ;; Ret (VArr r)
  | _, _ => cmp_vals o a b
  end.

Fixpoint repeat_list {A} (n : nat) (l : list A) : list A :=
  match n with O => [] | S m => l ++ repeat_list m l end.

Definition binop_scalar (o : binop) (a b : val) : res val :=
  if has_float a b then
    x <~ as_float a ;; y <~ as_float b ;;
    match o with
    | Add => Ret (VFloat (x + y)%float) | Sub => Ret (VFloat (x - y)%float) | Mul => Ret (VFloat (x * y)%float)
    | TrueDiv => if PrimFloat.eqb y 0%float then Stuck (* ZeroDivisionError / inf with a warning: not modelled *)
                 else Ret (VFloat (x / y)%float)
    | _ => Stuck
    end
  else
  match o, a, b with
  | Add, VInt x, VInt y => Ret (VInt (x + y))
  | Add, VStr x, VStr y => Ret (VStr (x ++ y))
  | Add, VList x, VList y => Ret (VList (x ++ y))
  | Add, VStr _, (VInt _ | VList _) | Add, VInt _, (VStr _ | VList _) | Add, VList _, (VInt _ | VStr _) => Exn TypeError
  | Sub, VInt x, VInt y => Ret (VInt (x - y))
  | Mul, VInt x, VInt y => Ret (VInt (x * y))
  | Mul, VStr x, VInt n => Ret (VStr (repeat_list (Z.to_nat n) x))
  | Mul, VList x, VInt n => Ret (VList (repeat_list (Z.to_nat n) x))
  | FloorDiv, VInt x, VInt y => if y =? 0 then Exn OtherExn (* ZeroDivisionError *) else Ret (VInt (x / y))
  | Mod, VInt x, VInt y => if y =? 0 then Exn OtherExn else Ret (VInt (x mod y))
  | Pow, VInt x, VInt y => if y <? 0 then Stuck (* a float *) else Ret (VInt (x ^ y))
  | TrueDiv, VInt x, VInt y => if y =? 0 then Exn OtherExn (* ZeroDivisionError *)
                               else fx <~ float_of_int x ;; fy <~ float_of_int y ;; Ret (VFloat (fx / fy)%float)
  | _, _, _ => Stuck
  end.

(* array (any depth) combined with an integer scalar, NumPy broadcasting; [left] tells on which side the array stands *)
Fixpoint broadcast_int (o : binop) (left : bool) (a : val) (z : Z) {struct a} : res val :=
  match a with
  | VInt x => match o with
              | Add | Sub | Mul => if left then binop_scalar o (VInt x) (VInt z) else binop_scalar o (VInt z) (VInt x)
              | _ => Stuck
              end
  | VArr l => r <~ (fix go (l : list val) : res (list val) :=
                      match l with [] => Ret [] | x :: t => y <~ broadcast_int o left x z ;; ys <~ go t ;; Ret (y :: ys) end) l ;;
              Ret (VArr r)
  | _ => Stuck
  end.

(* NumPy: integer arrays of equal length combine element by element *)
Definition binop_vals (o : binop) (a b : val) : res val :=
  match a, b with
  | VArr l1, VArr l2 =>
      match o with
      | Add | Sub | Mul =>
          r <~ zip_res (fun x y => match x, y with
                                   | VInt _, VInt _ | VFloat _, VFloat _ => binop_scalar o x y
                                   | _, _ => Stuck end) l1 l2 ;;
          Ret (VArr r)
      | _ => Stuck
      end
  | VArr l, VFloat _ =>
      (* a 1-D float array combined with a float scalar, element by element *)
      match o with
      | Mul | TrueDiv | Add | Sub =>
          r <~ map_res (fun x => match x with VFloat _ => binop_scalar o x b | _ => Stuck end) l ;; Ret (VArr r)
      | _ => Stuck
      end
  | VArr _, VInt z => broadcast_int o true a z
  | VInt z, VArr _ => broadcast_int o false b z
  | VArr _, _ | _, VArr _ => Stuck
  | _, _ => binop_scalar o a b
  end.

(* str(n) for an integer: decimal digits as code points *)
Fixpoint dec_digits (fuel : nat) (n : Z) (acc : list Z) : list Z :=
  match fuel with
  | O => acc
  | S f => if n <? 10 then (48 + n) :: acc else dec_digits f (n / 10) ((48 + n mod 10) :: acc)
  end.
Definition str_of_Z (n : Z) : list Z :=
  if n <? 0 then 45 :: dec_digits (S (Z.to_nat (Z.log2 (- n)))) (- n) []
  else dec_digits (S (Z.to_nat (Z.log2 n))) n [].

(* int(s) for a non-empty string of ASCII digits; anything else (sign, blanks, underscores, other scripts, "")
   is outside the fragment *)
Definition is_digit (c : Z) : bool := (48 <=? c) && (c <=? 57).
Definition Z_of_str (s : list Z) : res Z :=
  match s with
  | [] => Stuck
  | _ => if forallb is_digit s then Ret (fold_left (fun a c => a * 10 + (c - 48)) s 0) else Stuck
  end.

Fixpoint nodupb (l : list Z) : bool :=
  match l with [] => true | x :: t => negb (memZ x t) && nodupb t end.

Definition chars (s : list Z) : list val := map (fun c => VStr [c]) s.

(* the items a for loop / comprehension / list() / enumerate() sees *)
Definition items (v : val) : res (list val) :=
  match v with
  | VStr s => Ret (chars s)
  | VList l | VTuple l | VArr l => Ret l
  | VDict d => Ret (map fst d)
  | VSet l => Ret l                                  (* first-insertion order: see the note at the top *)
  | _ => Exn TypeError
  end.

Fixpoint zrange_up (n : nat) (a step : Z) : list val :=
  match n with O => [] | S m => VInt a :: zrange_up m (a + step) step end.

(* range(a, b, c) as the list of its elements *)
Definition range3 (a b c : Z) : res (list val) :=
  if c =? 0 then Exn ValueError
  else if 0 <? c then Ret (zrange_up (Z.to_nat ((b - a + c - 1) / c)) a c)
  else Ret (zrange_up (Z.to_nat ((a - b + (- c) - 1) / (- c))) a c).

Fixpoint enumerate_from (i : Z) (l : list val) : list val :=
  match l with [] => [] | x :: t => VTuple [VInt i; x] :: enumerate_from (i + 1) t end.

Definition to_str (v : val) : res val :=
  match v with
  | VInt z => Ret (VStr (str_of_Z z))
  | VStr s => Ret (VStr s)
  | VDict d =>
      (* str(dict) with str keys and int / str values (no quote or backslash inside): {'k': 1, 'n': 'x'} *)
      let plain (s : list Z) := forallb (fun c => negb ((c =? 39) || (c =? 92)) && (32 <=? c) && (c <? 127)) s in
      parts <~ map_res (fun kv => match kv with
                                  | (VStr k, VInt z) => if plain k then Ret ([39] ++ k ++ [39; 58; 32] ++ str_of_Z z) else Stuck
                                  | (VStr k, VStr w) => if plain k && plain w then Ret ([39] ++ k ++ [39; 58; 32; 39] ++ w ++ [39]) else Stuck
                                  | _ => Stuck end) d ;;
      Ret (VStr ([123] ++ (fix join (l : list (list Z)) : list Z :=
                             match l with [] => [] | [x] => x | x :: t => x ++ [44; 32] ++ join t end) parts ++ [125]))
  | _ => Stuck
  end.
(* s.replace(a, b): every non-overlapping occurrence of the non-empty a, from the left *)
Fixpoint prefixZ (a s : list Z) : bool :=
  match a, s with [] , _ => true | x :: a', y :: s' => (x =? y) && prefixZ a' s' | _ :: _, [] => false end.
Fixpoint replaceZ (fuel : nat) (s a b : list Z) : list Z :=
  match fuel with
  | O => s
  | S f => match s with
           | [] => []
           | c :: t => if prefixZ a s then b ++ replaceZ f (skipn (length a) s) a b else c :: replaceZ f t a b
           end
  end.
(* "%0<w>d" % z *)
Definition pad_int (w : nat) (z : Z) : list Z :=
  let d := str_of_Z (Z.abs z) in
  let body := repeat 48 (w - length d - (if z <? 0 then 1 else 0)) ++ d in
  if z <? 0 then 45 :: body else body.
Definition to_int (v : val) : res val :=
  match v with
  | VInt z => Ret (VInt z)
  | VBool b => Ret (VInt (if b then 1 else 0))
  | VStr s => z <~ Z_of_str s ;; Ret (VInt z)
  | _ => Stuck
  end.

(* an integer element, or a boolean element counted as 0 / 1 *)
Definition as_count (x : val) : res Z :=
  match x with VInt z => Ret z | VBool b => Ret (if b then 1 else 0) | _ => Stuck end.

(* a.astype(bool) / a.astype(int), at any depth *)
Fixpoint astype (to_bool : bool) (a : val) {struct a} : res val :=
  match a with
  | VInt z => Ret (if to_bool then VBool (negb (z =? 0)) else VInt z)
  | VBool b => Ret (if to_bool then VBool b else VInt (if b then 1 else 0))
  | VArr l => r <~ (fix go (l : list val) : res (list val) :=
                      match l with [] => Ret [] | x :: t => y <~ astype to_bool x ;; ys <~ go t ;; Ret (y :: ys) end) l ;;
              Ret (VArr r)
  | _ => Stuck
  end.

(* integers of an array (any depth), row-major *)
Fixpoint flat_ints (a : val) {struct a} : res (list Z) :=
  match a with
  | VInt z => Ret [z]
  | VArr l => (fix go (l : list val) : res (list Z) :=
                 match l with [] => Ret [] | x :: t => y <~ flat_ints x ;; ys <~ go t ;; Ret (y ++ ys) end) l
  | _ => Stuck
  end.
Fixpoint insert_sortedZ (x : Z) (l : list Z) : list Z :=
  match l with [] => [x] | h :: t => if x <? h then x :: l else if x =? h then l else h :: insert_sortedZ x t end.
Definition sort_uniqZ (l : list Z) : list Z := fold_right insert_sortedZ [] l.
Fixpoint pairs_pos {A} (l : list A) : list (A * A) :=
  match l with [] => [] | x :: t => map (fun y => (x, y)) t ++ pairs_pos t end.
Fixpoint count_occ_first (l : list Z) (seen : list Z) : list (Z * Z) :=
  match l with
  | [] => []
  | x :: t => if memZ x seen then count_occ_first t seen else (x, countZ x l) :: count_occ_first t (x :: seen)
  end.
Fixpoint log_exact (fuel : nat) (a b : Z) : option Z :=
  match fuel with
  | O => None
  | S f => if a =? 1 then Some 0 else if (a mod b =? 0) then match log_exact f (a / b) b with Some e => Some (e + 1) | None => None end else None
  end.

(* every element of a boolean array (any depth) is True *)
Fixpoint all_true (a : val) {struct a} : res bool :=
  match a with
  | VBool b => Ret b
  | VArr l => (fix go (l : list val) : res bool :=
                 match l with [] => Ret true | x :: t => b <~ all_true x ;; bs <~ go t ;; Ret (b && bs) end) l
  | _ => Stuck
  end.
Definition floats_of (l : list val) : res (list float) :=
  map_res (fun x => match x with VFloat f => Ret f | _ => Stuck end) l.
(* numpy.max of non-NaN floats *)
Definition fmaxf (a b : float) : float := if PrimFloat.ltb a b then b else a.
(* insertion sort and numpy.median (mean of the two middle values for an even count) *)
Fixpoint finsertf (x : float) (l : list float) : list float :=
  match l with [] => [x] | h :: t => if PrimFloat.leb x h then x :: l else h :: finsertf x t end.
Definition fsortf (l : list float) : list float := fold_left (fun acc x => finsertf x acc) l [].
Definition fmedianf (l : list float) : float :=
  let s := fsortf l in
  let n := length s in
  if Nat.even n then ((nth (n / 2 - 1) s 0 + nth (n / 2) s 0) / 2)%float
  else nth (n / 2) s 0%float.

Definition builtin1_val (f : builtin1) (a : val) : res val :=
  match f with
  | BLen => match a with
            | VStr s => Ret (VInt (Z.of_nat (length s)))
            | VList l | VTuple l | VArr l => Ret (VInt (Z.of_nat (length l)))
            | VDict d => Ret (VInt (Z.of_nat (length d)))
            | VSet l => Ret (VInt (Z.of_nat (length l)))
            | _ => Exn TypeError
            end
  | BInt => match a with VFloat f => z <~ Z_trunc f ;; Ret (VInt z) | _ => to_int a end
  | BStr => to_str a
  | BList => l <~ items a ;; Ret (VList l)
  | BRange => match a with VInt n => l <~ range3 0 n 1 ;; Ret (VList l) | _ => Stuck end
  | BEnumerate => l <~ items a ;; Ret (VList (enumerate_from 0 l))
  | BRev => match a with
            | VStr s => Ret (VStr (rev s))
            | VList l => Ret (VList (rev l))
            | VTuple l => Ret (VTuple (rev l))
            | VArr l => Ret (VArr (rev l))
            | _ => Exn TypeError
            end
  | BMapStr => l <~ items a ;; r <~ map_res to_str l ;; Ret (VList r)
  | BMapInt => l <~ items a ;; r <~ map_res to_int l ;; Ret (VList r)
  | BIsNone => match a with VNone => Ret (VBool true) | VOpaque => Stuck | _ => Ret (VBool false) end
  | BNpWhere =>
      match a with
      | VArr ((VArr _ :: _) as rows) =>
          (* a 2-D boolean array: the row indices and the column indices of the True entries, row-major *)
          rs <~ map_res (fun r => match r with
                                  | VArr l => map_res (fun x => match x with VBool b => Ret b | _ => Stuck end) l
                                  | _ => Stuck end) rows ;;
          let hits := concat (map (fun ir => map (fun j => (fst ir, j))
                                              (used_indices (map (fun b : bool => if b then 0 else -1) (snd ir))))
                                  (combine (map Z.of_nat (seq 0 (length rs))) rs)) in
          Ret (VTuple [VArr (map (fun p => VInt (fst p)) hits); VArr (map (fun p => VInt (snd p)) hits)])
      | VArr l =>
          bs <~ map_res (fun x => match x with VBool b => Ret b | _ => Stuck end) l ;;
          Ret (VTuple [VArr (map VInt (used_indices (map (fun b : bool => if b then 0 else -1) bs)))])
      | _ => Stuck
      end
  | BNpArgsort =>
      match a with
      | VArr l =>
          ks <~ map_res (fun x => match x with VInt z => Ret z | _ => Stuck end) l ;;
          if nodupb ks then Ret (VArr (map VInt (argsort ks))) else Stuck
      | _ => Stuck
      end
  | BNpSum =>
      match a with
      | VArr l => ks <~ map_res as_count l ;; Ret (VInt (sumZ ks))
      | _ => Stuck
      end
  | BNpArray =>
      match a with
      | VList l =>
          if forallb (fun x => match x with VInt _ => true | _ => false end) l then Ret (VArr l)
          else r <~ map_res (fun x => match x with
                                      | VList row | VTuple row => if forallb (fun y => match y with VInt _ => true | _ => false end) row
                                                     then Ret (VArr row) else Stuck
                                      | _ => Stuck end) l ;; Ret (VArr r)
      | _ => Stuck
      end
  | BNpZeros => match a with VInt n => Ret (VArr (repeat (VInt 0) (Z.to_nat n))) | _ => Stuck end
  | BNpZerosBool => match a with VInt n => Ret (VArr (repeat (VBool false) (Z.to_nat n))) | _ => Stuck end
  | BAstypeBool => astype true a
  | BAstypeInt => astype false a
  | BNpSumAxis1 =>
      match a with
      | VArr rows =>
          r <~ map_res (fun row => match row with
                                   | VArr l => ks <~ map_res as_count l ;; Ret (VInt (sumZ ks))
                                   | _ => Stuck end) rows ;;
          Ret (VArr r)
      | _ => Stuck
      end
  | BTolist =>
      match a with
      | VArr l => if forallb (fun x => match x with VInt _ => true | _ => false end) l then Ret (VList l) else Stuck
      | _ => Stuck
      end
  | BItems => match a with VDict d => Ret (VList (map (fun kv => VTuple [fst kv; snd kv]) d)) | _ => Stuck end
  | BKeys => match a with VDict d => Ret (VList (map fst d)) | _ => Stuck end
  | BAny => match a with
            | VArr l => bs <~ map_res (fun x => match x with VBool b => Ret b | _ => Stuck end) l ;; Ret (VBool (existsb (fun b => b) bs))
            | _ => Stuck end
  | BAll => match a with
            | VArr l => bs <~ map_res (fun x => match x with VBool b => Ret b | _ => Stuck end) l ;; Ret (VBool (forallb (fun b => b) bs))
            | _ => Stuck end
  | BCopy => match a with VArr _ => Ret a | _ => Stuck end
  | BProduct =>
      match a with
      | VList ls =>
          lists <~ map_res (fun x => match x with VList l => Ret l | _ => Stuck end) ls ;;
          Ret (VList (map VTuple (fold_right (fun l acc => flat_map (fun x => map (fun t => x :: t) acc) l) [[]] lists)))
      | _ => Stuck
      end
  | BNpOnes1 => match a with VInt n => Ret (VArr (repeat (VInt 1) (Z.to_nat n))) | _ => Stuck end
  | BCombinations2 => l <~ items a ;; Ret (VList (map (fun p => VTuple [fst p; snd p]) (pairs_pos l)))
  | BShape1 => match a with
               | VArr (VArr r0 :: rest) =>
                   if forallb (fun r => match r with VArr l => Nat.eqb (length l) (length r0) | _ => false end) rest
                   then Ret (VInt (Z.of_nat (length r0))) else Stuck
               | _ => Stuck end
  | BNpMin => match a with
              | VArr _ => ks <~ flat_ints a ;; match ks with [] => Exn ValueError | h :: t => Ret (VInt (fold_left Z.min t h)) end
              | _ => Stuck end
  | BSetOf => match a with
              | VList l => if forallb key_ok l
                           then Ret (VSet (fold_left (fun acc x => if mem_val x acc then acc else acc ++ [x]) l []))
                           else Stuck
              | _ => Stuck end
  | BNpAllAny => b <~ all_true a ;; Ret (VBool b)
  | BAbs => match a with
            | VFloat x => Ret (VFloat (PrimFloat.abs x))
            | VArr l => fs <~ floats_of l ;; Ret (VArr (map (fun x => VFloat (PrimFloat.abs x)) fs))
            | _ => Stuck end
  | BNpOnesF => match a with VInt n => Ret (VArr (repeat (VFloat 1%float) (Z.to_nat n))) | _ => Stuck end
  | BZerosLike => match a with
                  | VArr ((VFloat _ :: _) as l) => fs <~ floats_of l ;; Ret (VArr (map (fun _ => VFloat 0%float) fs))
                  | _ => Stuck end
  | BMedian => match a with
               | VList l | VArr l => fs <~ floats_of l ;;
                                     match fs with [] => Stuck | _ => Ret (VFloat (fmedianf fs)) end
               | _ => Stuck end
  | BFmtFloat => match a with VFloat _ => Ret VOpaque | _ => Stuck end
  | BFmtHMS =>
      match a with
      | VTuple [h; m; sx] =>
          let num (v : val) : res Z := match v with VInt z => Ret z | VFloat f => Z_trunc f | _ => Stuck end in
          zh <~ num h ;; zm <~ num m ;; zs <~ num sx ;;
          Ret (VStr (pad_int 4 zh ++ [58] ++ pad_int 2 zm ++ [58] ++ pad_int 2 zs))
      | _ => Stuck
      end
  | BNpMax => match a with
              | VArr ((VFloat _ :: _) as l) =>
                  fs <~ floats_of l ;; match fs with [] => Stuck | h :: t => Ret (VFloat (fold_left fmaxf t h)) end
              | VArr _ => ks <~ flat_ints a ;; match ks with [] => Exn ValueError | h :: t => Ret (VInt (fold_left Z.max t h)) end
              | VList l => ks <~ map_res (fun x => match x with VInt z => Ret z | _ => Stuck end) l ;;
                           match ks with [] => Exn ValueError | h :: t => Ret (VInt (fold_left Z.max t h)) end
              | _ => Stuck end
  | BMaxList => match a with
                | VList l => ks <~ map_res (fun x => match x with VInt z => Ret z | _ => Stuck end) l ;;
                             match ks with [] => Exn ValueError | h :: t => Ret (VInt (fold_left Z.max t h)) end
                | _ => Stuck end
  | BNpUnique => match a with VArr _ => ks <~ flat_ints a ;; Ret (VArr (map VInt (sort_uniqZ ks))) | _ => Stuck end
  | BNpArgmax => match a with
                 | VArr l => ks <~ map_res (fun x => match x with VInt z => Ret z | _ => Stuck end) l ;;
                             match ks with
                             | [] => Exn ValueError
                             | h :: t => match first_pos (fold_left Z.max t h) ks 0 with Some p => Ret (VInt p) | None => Stuck end
                             end
                 | _ => Stuck end
  | BReshapeFlat => match a with VArr _ => ks <~ flat_ints a ;; Ret (VArr (map VInt ks)) | _ => Stuck end
  | BCounterItems => match a with
                     | VList l => ks <~ map_res (fun x => match x with VInt z => Ret z | _ => Stuck end) l ;;
                                  Ret (VList (map (fun p => VTuple [VInt (fst p); VInt (snd p)]) (count_occ_first ks [])))
                     | _ => Stuck end
  | BTranspose =>
      match a with
      | VArr [] => Ret (VArr [])
      | VArr ((VArr r0 :: _) as rows) =>
          rs <~ map_res (fun r => match r with VArr l => Ret l | _ => Stuck end) rows ;;
          if forallb (fun r => Nat.eqb (length r) (length r0)) rs
          then Ret (VArr (map (fun j => VArr (map (fun r => nth j r VNone) rs)) (seq 0 (length r0))))
          else Stuck
      | VArr _ => Ret a
      | _ => Stuck
      end
  | BSorted =>
      match a with
      | VList l =>
          ss <~ map_res (fun x => match x with VStr s => Ret s | _ => Stuck end) l ;;
          Ret (VList (map VStr (fold_right (fun s acc => (fix ins (acc : list (list Z)) : list (list Z) :=
                                                            match acc with
                                                            | [] => [s]
                                                            | h :: t => if lexltb h s then h :: ins t else s :: acc
                                                            end) acc) [] ss)))
      | _ => Stuck
      end
  end.

(* s.index(c) for a one-character c *)
Definition str_index (s : list Z) (v : val) : res val :=
  match v with
  | VStr [c] => match indexZ c s with Some i => Ret (VInt (Z.of_nat i)) | None => Exn ValueError end
  | _ => Stuck
  end.

Fixpoint join_strs (sep : list Z) (l : list val) : res (list Z) :=
  match l with
  | [] => Ret []
  | [VStr s] => Ret s
  | VStr s :: t => r <~ join_strs sep t ;; Ret (s ++ sep ++ r)
  | _ => Exn TypeError
  end.

Fixpoint index_of_val (x : val) (l : list val) (i : Z) : option Z :=
  match l with [] => None | y :: t => if val_eqb x y then Some i else index_of_val x t (i + 1) end.

Definition builtin2_val (f : builtin2) (a b : val) : res val :=
  match f, a, b with
  | BDivmod, VInt x, VInt y => if y =? 0 then Exn OtherExn else Ret (VTuple [VInt (x / y); VInt (x mod y)])
  | BDivmod, VFloat x, VInt y => qr <~ fdivmod x y ;; Ret (VTuple [VFloat (fst qr); VFloat (snd qr)])
  | BZfill, VStr s, VInt n =>
      match s with
      | c :: _ => if (c =? 43) || (c =? 45) then Stuck     (* sign-aware padding: not modelled *)
                  else Ret (VStr (repeat 48 (Z.to_nat (n - Z.of_nat (length s))) ++ s))
      | [] => Ret (VStr (repeat 48 (Z.to_nat n)))
      end
  | BJoin, VStr sep, _ => l <~ items b ;; r <~ join_strs sep l ;; Ret (VStr r)
  | BMapIndex, VStr s, _ => l <~ items b ;; r <~ map_res (str_index s) l ;; Ret (VList r)
  | BSetUnion, VSet x, VSet y => Ret (VSet (fold_left (fun acc v => if mem_val v acc then acc else acc ++ [v]) y x))
  | BNpOnes2, VInt r, VInt c => Ret (VArr (repeat (VArr (repeat (VInt 1) (Z.to_nat c))) (Z.to_nat r)))
  | BNpZeros2, VInt r, VInt c => Ret (VArr (repeat (VArr (repeat (VInt 0) (Z.to_nat c))) (Z.to_nat r)))
  | BZip, _, _ => x <~ items a ;; y <~ items b ;; Ret (VList (map (fun p => VTuple [fst p; snd p]) (combine x y)))
  | BUnion1d, VArr _, VArr _ => x <~ flat_ints a ;; y <~ flat_ints b ;; Ret (VArr (map VInt (sort_uniqZ (x ++ y))))
  | BUnion1d, VArr _, VList [VArr l] => x <~ flat_ints a ;; y <~ flat_ints (VArr l) ;; Ret (VArr (map VInt (sort_uniqZ (x ++ y))))
  | BIntersect1d, VArr _, VArr _ =>
      x <~ flat_ints a ;; y <~ flat_ints b ;; Ret (VArr (map VInt (filter (fun z => memZ z y) (sort_uniqZ x))))
  | BIntLogRatio, VInt x, VInt y =>
      if (2 <=? y) && (1 <=? x) then
        match log_exact (S (Z.to_nat (Z.log2 x))) x y with Some e => Ret (VInt e) | None => Stuck end
      else Stuck
  | BColumns, VArr rows, VArr idx =>
      js <~ map_res (fun x => match x with VInt z => Ret z | _ => Stuck end) idx ;;
      r <~ map_res (fun row => match row with
                               | VArr l => c <~ map_res (fun j => match py_get l j with Ok v => Ret v | _ => Exn IndexError end) js ;;
                                           Ret (VArr c)
                               | _ => Exn IndexError end) rows ;;
      Ret (VArr r)
  | BIndexOf, VStr s, _ => str_index s b
  | BIndexOf, VList l, (VInt _ | VStr _) =>
      if forallb (fun y => match y with VInt _ | VStr _ => true | _ => false end) l
      then match index_of_val b l 0 with Some i => Ret (VInt i) | None => Exn ValueError end
      else Stuck
  | _, _, _ => Stuck
  end.

Definition index_val (a i : val) : res val :=
  (* a[(idx,)] on an array is a[idx]: numpy.where returns a 1-tuple *)
  let i := match a, i with VArr _, VTuple [(VArr _) as idx] => idx | _, _ => i end in
  match a with
  | VDict d => if key_ok i then match dict_get i d with Some v => Ret v | None => Exn KeyError end else Stuck
  | _ =>
  match i with
  | VInt j =>
      match a with
      | VStr s => match py_get s j with Ok c => Ret (VStr [c]) | _ => Exn IndexError end
      | VList l | VTuple l | VArr l => match py_get l j with Ok v => Ret v | _ => Exn IndexError end
      | _ => Exn TypeError
      end
  | VList pos =>
      (* a[[p1, p2, ..]]: the elements at the listed positions (NumPy fancy indexing with a list of ints) *)
      match a with
      | VArr l =>
          x <~ map_res (fun c => match c with
                                 | VInt j => match py_get l j with Ok v => Ret v | _ => Exn IndexError end
                                 | _ => Stuck end) pos ;;
          Ret (VArr x)
      | _ => Stuck
      end
  | VArr ((VInt _ :: _) as pos) =>
      (* a[positions] with an integer array of positions *)
      match a with
      | VArr l =>
          x <~ map_res (fun c => match c with
                                 | VInt j => match py_get l j with Ok v => Ret v | _ => Exn IndexError end
                                 | _ => Stuck end) pos ;;
          Ret (VArr x)
      | _ => Stuck
      end
  | VArr mask =>
      (* a[mask] with a boolean array of the same length: the elements where the mask is True
         (an EMPTY index array selects nothing, whatever its element type) *)
      match a with
      | VArr l =>
          if Nat.eqb (length mask) 0 then Ret (VArr []) else
          if negb (Nat.eqb (length mask) (length l)) then Exn IndexError else
          bs <~ map_res (fun x => match x with VBool b => Ret b | _ => Stuck end) mask ;;
          Ret (VArr (map snd (filter fst (combine bs l))))
      | _ => Stuck
      end
  | VTuple [VInt r; VArr cols] =>
      (* a[r, cols] on a 2-D array: row r, then the entries at the positions cols (fancy indexing) *)
      match a with
      | VArr rows =>
          match py_get rows r with
          | Ok (VArr row) =>
              x <~ map_res (fun c => match c with
                                     | VInt j => match py_get row j with Ok v => Ret v | _ => Exn IndexError end
                                     | _ => Stuck end) cols ;;
              Ret (VArr x)
          | Ok _ => Stuck
          | _ => Exn IndexError
          end
      | _ => Stuck
      end
  | _ => Stuck
  end
  end.

Definition opt_int (v : option val) (default : Z) : res Z :=
  match v with None => Ret default | Some (VInt z) => Ret z | Some VNone => Ret default | Some _ => Stuck end.

Definition slice_val (a : val) (lo hi : option val) : res val :=
  match a with
  | VStr s => l <~ opt_int lo 0 ;; h <~ opt_int hi (Z.of_nat (length s)) ;; Ret (VStr (py_slice s l h))
  | VList s => l <~ opt_int lo 0 ;; h <~ opt_int hi (Z.of_nat (length s)) ;; Ret (VList (py_slice s l h))
  | VTuple s => l <~ opt_int lo 0 ;; h <~ opt_int hi (Z.of_nat (length s)) ;; Ret (VTuple (py_slice s l h))
  | VArr s => l <~ opt_int lo 0 ;; h <~ opt_int hi (Z.of_nat (length s)) ;; Ret (VArr (py_slice s l h))
  | _ => Exn TypeError
  end.

(* x[i] = v on a list *)
Definition store_val (a i v : val) : res val :=
  let i := match a, i with VArr _, VTuple [(VArr _) as idx] => idx | _, _ => i end in
  match a, i with
  | VList l, VInt j =>
      let n := Z.of_nat (length l) in
      let j' := if j <? 0 then j + n else j in
      if (j' <? 0) || (n <=? j') then Exn IndexError else Ret (VList (set_nth l (Z.to_nat j') v))
  | VList _, _ => Stuck
  | VArr l, VInt j =>
      (* an element of a 1-D integer array *)
      let n := Z.of_nat (length l) in
      let j' := if j <? 0 then j + n else j in
      (* NumPy casts the stored value to the array's element type (bool array: elements are VBool) *)
      let is_bool_arr := match l with VBool _ :: _ => true | _ => false end in
      match v with
      | VInt z => if (j' <? 0) || (n <=? j') then Exn IndexError
                  else match nthZ l (Z.to_nat j') with
                       | Some (VArr row) =>
                           (* a[j] = z on a 2-D integer array: the whole row is filled with z *)
                           if forallb (fun x => match x with VInt _ => true | _ => false end) row
                           then Ret (VArr (set_nth l (Z.to_nat j') (VArr (map (fun _ => VInt z) row)))) else Stuck
                       | _ => Ret (VArr (set_nth l (Z.to_nat j') (if is_bool_arr then VBool (negb (z =? 0)) else v)))
                       end
      | VBool t => if (j' <? 0) || (n <=? j') then Exn IndexError
                   else Ret (VArr (set_nth l (Z.to_nat j') (if is_bool_arr then v else VInt (if t then 1 else 0))))
      | VList vs =>
          (* a[j] = [v1, .., vn] on a 2-D integer array whose rows have n entries: the row is replaced (other lengths, which
             NumPy broadcasts or rejects, are not modelled) *)
          if (j' <? 0) || (n <=? j') then Exn IndexError
          else match nthZ l (Z.to_nat j') with
               | Some (VArr row) =>
                   if forallb (fun x => match x with VInt _ => true | _ => false end) row
                      && forallb (fun x => match x with VInt _ => true | _ => false end) vs
                      && Nat.eqb (length vs) (length row)
                   then Ret (VArr (set_nth l (Z.to_nat j') (VArr vs))) else Stuck
               | _ => Stuck
               end
      | _ => Stuck
      end
  | VArr l, VArr pos =>
      (* a[positions] = z on a 1-D integer array, positions an integer array (possibly empty): every listed element is set *)
      match v with
      | VFloat _ =>
          (* the same on a 1-D float array *)
          if forallb (fun x => match x with VFloat _ => true | _ => false end) l then
            (fix go (pos : list val) (l : list val) : res val :=
               match pos with
               | [] => Ret (VArr l)
               | VInt j :: rest =>
                   let n := Z.of_nat (length l) in
                   let j' := if j <? 0 then j + n else j in
                   if (j' <? 0) || (n <=? j') then Exn IndexError else go rest (set_nth l (Z.to_nat j') v)
               | _ => Stuck
               end) pos l
          else Stuck
      | VArr vals =>
          (* a[positions] = values on a 1-D float array: one value per position; the positions are DISTINCT (they come from
             numpy.where), otherwise NumPy's buffered assignment is not this and the result is Stuck *)
          if forallb (fun x => match x with VFloat _ => true | _ => false end) l
             && forallb (fun x => match x with VFloat _ => true | _ => false end) vals
             && Nat.eqb (length pos) (length vals) then
            ps <~ map_res (fun x => match x with VInt j => Ret j | _ => Stuck end) pos ;;
            if nodupb ps then
              (fix go (pos : list Z) (vals : list val) (l : list val) : res val :=
                 match pos, vals with
                 | j :: rest, w :: ws =>
                     let n := Z.of_nat (length l) in
                     if (j <? 0) || (n <=? j) then Stuck else go rest ws (set_nth l (Z.to_nat j) w)
                 | _, _ => Ret (VArr l)
                 end) ps vals l
            else Stuck
          else Stuck
      | VInt z =>
          if forallb (fun x => match x with VInt _ => true | _ => false end) l then
            (fix go (pos : list val) (l : list val) : res val :=
               match pos with
               | [] => Ret (VArr l)
               | VInt j :: rest =>
                   let n := Z.of_nat (length l) in
                   let j' := if j <? 0 then j + n else j in
                   if (j' <? 0) || (n <=? j') then Exn IndexError else go rest (set_nth l (Z.to_nat j') (VInt z))
               | _ => Stuck
               end) pos l
          else Stuck
      | _ => Stuck
      end
  | VArr _, _ => Stuck
  | VDict d, _ =>
      if key_ok i then
        Ret (VDict ((fix put (d : list (val * val)) : list (val * val) :=
                       match d with
                       | [] => [(i, v)]
                       | (k, w) :: t => if val_eqb i k then (k, v) :: t else (k, w) :: put t
                       end) d))
      else Stuck
  | _, _ => Exn TypeError
  end.

(* x[i][j] = v / x[i, j] = v on a 2-D integer array *)
Definition store2_val (a i j v : val) : res val :=
  match a, i with
  | VArr rows, VInt r =>
      let n := Z.of_nat (length rows) in
      let r' := if r <? 0 then r + n else r in
      if (r' <? 0) || (n <=? r') then Exn IndexError else
      match py_get rows r' with
      | Ok row => row' <~ store_val row j v ;; Ret (VArr (set_nth rows (Z.to_nat r') row'))
      | _ => Exn IndexError
      end
  | _, _ => Stuck
  end.

(* x.insert(i, v): the position is clamped like a slice bound *)
Definition insert_val (a i v : val) : res val :=
  match a, i with
  | VList l, VInt j =>
      let p := Z.to_nat (clampZ (Z.of_nat (length l)) j) in Ret (VList (firstn p l ++ v :: skipn p l))
  | _, _ => Stuck
  end.

Definition type_is (v : val) (t : ty) : res val :=
  match v, t with
  | VStr _, TStr | VInt _, TInt | VList _, TList => Ret (VBool true)
  | VOpaque, _ => Stuck
  | VArr _, _ | VDict _, _ | VRatio _ _, _ | VSet _, _ => Stuck
  | _, _ => Ret (VBool false)
  end.

(* x[:, j] = z on a 2-D integer array whose rows all have more than j entries *)
Definition store_column (a j v : val) : res val :=
  match a, j, v with
  | VArr rows, VInt c, VInt z =>
      r <~ map_res (fun row => match row with
                               | VArr l =>
                                   let n := Z.of_nat (length l) in
                                   let c' := if c <? 0 then c + n else c in
                                   if (c' <? 0) || (n <=? c') then Exn IndexError
                                   else if forallb (fun x => match x with VInt _ => true | _ => false end) l
                                        then Ret (VArr (set_nth l (Z.to_nat c') (VInt z))) else Stuck
                               | _ => Stuck end) rows ;;
      Ret (VArr r)
  | _, _, _ => Stuck
  end.
(* the row l permuted by p: position k of the result holds l[p_k]; p must be a permutation of 0 .. len l - 1 *)
Definition permute_row (l : list val) (p : list val) : res (list val) :=
  ps <~ map_res (fun x => match x with VInt j => Ret j | _ => Stuck end) p ;;
  if Nat.eqb (length ps) (length l) && nodupb ps && forallb (fun j => (0 <=? j) && (j <? Z.of_nat (length l))) ps
  then Ret (map (fun j => nth (Z.to_nat j) l VNone) ps) else Stuck.

(* ---- expressions ---------------------------------------------------------------------------------------------- *)
Section Interp.
  (* the other functions of the module: name -> arguments -> result (instantiated bottom-up, no recursion in dsw) *)
  Variable callenv : string -> list val -> res val.

  Fixpoint eval (en : env) (e : expr) {struct e} : res val :=
    match e with
    | EInt z => Ret (VInt z)
    | EStr s => Ret (VStr s)
    | ENone => Ret VNone
    | EBoolLit b => Ret (VBool b)
    | EOpaque => Ret VOpaque
    | EVar x => lookup x en
    | EBin o a b => x <~ eval en a ;; y <~ eval en b ;; binop_vals o x y
    | ECmp o a b => x <~ eval en a ;; y <~ eval en b ;; cmp_top o x y
    | ENot a => x <~ eval en a ;; t <~ truthy x ;; Ret (VBool (negb t))
    | EAnd a b => x <~ eval en a ;; t <~ truthy x ;; if t then eval en b else Ret x
    | EOr a b => x <~ eval en a ;; t <~ truthy x ;; if t then Ret x else eval en b
    | EIf c a b => x <~ eval en c ;; t <~ truthy x ;; if t then eval en a else eval en b
    | EB1 f a => x <~ eval en a ;; builtin1_val f x
    | EB2 f a b => x <~ eval en a ;; y <~ eval en b ;; builtin2_val f x y
    | ERange3 a b c =>
        x <~ eval en a ;; y <~ eval en b ;; z <~ eval en c ;;
        match x, y, z with VInt x, VInt y, VInt z => l <~ range3 x y z ;; Ret (VList l) | _, _, _ => Stuck end
    | EIndex a i => x <~ eval en a ;; j <~ eval en i ;; index_val x j
    | ESlice a lo hi =>
        x <~ eval en a ;;
        l <~ match lo with None => Ret None | Some e' => v <~ eval en e' ;; Ret (Some v) end ;;
        h <~ match hi with None => Ret None | Some e' => v <~ eval en e' ;; Ret (Some v) end ;;
        slice_val x l h
    | EList l =>
        vs <~ (fix go (l : list expr) : res (list val) :=
                 match l with [] => Ret [] | e' :: t => v <~ eval en e' ;; vs <~ go t ;; Ret (v :: vs) end) l ;;
        Ret (VList vs)
    | ETuple l =>
        vs <~ (fix go (l : list expr) : res (list val) :=
                 match l with [] => Ret [] | e' :: t => v <~ eval en e' ;; vs <~ go t ;; Ret (v :: vs) end) l ;;
        Ret (VTuple vs)
    | EComp bd x it =>
        src <~ eval en it ;; l <~ items src ;;
        (* Python 3: the comprehension variable lives in its own scope *)
        vs <~ map_res (fun v => eval (update x v en) bd) l ;; Ret (VList vs)
    | ETypeIs a t => x <~ eval en a ;; type_is x t
    | ECall f l =>
        vs <~ (fix go (l : list expr) : res (list val) :=
                 match l with [] => Ret [] | e' :: t => v <~ eval en e' ;; vs <~ go t ;; Ret (v :: vs) end) l ;;
        callenv f vs
    | ECompIf bd x it cd =>
        src <~ eval en it ;; l <~ items src ;;
        vs <~ (fix go (l : list val) : res (list val) :=
                 match l with
                 | [] => Ret []
                 | v :: t => c <~ eval (update x v en) cd ;; b <~ truthy c ;;
                             if b then w <~ eval (update x v en) bd ;; r <~ go t ;; Ret (w :: r) else go t
                 end) l ;;
        Ret (VList vs)
    | ESetNew => Ret (VSet [])
    | EFloat f => Ret (VFloat f)
    | EReplace a b c =>
        x <~ eval en a ;; y <~ eval en b ;; z <~ eval en c ;;
        match x, y, z with
        | VStr s, VStr (p :: pt), VStr r => Ret (VStr (replaceZ (S (length s)) s (p :: pt) r))
        | _, _, _ => Stuck
        end
    | EDict l =>
        kvs <~ (fix go (l : list (expr * expr)) : res (list (val * val)) :=
                  match l with
                  | [] => Ret []
                  | (ke, ve) :: t => k <~ eval en ke ;; v <~ eval en ve ;; r <~ go t ;; Ret ((k, v) :: r)
                  end) l ;;
        if forallb (fun kv => key_ok (fst kv)) kvs then Ret (VDict kvs) else Stuck
    end.

  (* ---- statements ---------------------------------------------------------------------------------------------- *)
  Inductive outcome :=
  | ONormal (en : env)
  | OReturn (v : val)
  | OBreak (en : env)                                (* a break on its way to the enclosing SForB / SWhileB *)
  | OExn (e : exn)
  | OFuel
  | OStuck.

  Definition lift {A} (r : res A) (k : A -> outcome) : outcome :=
    match r with Ret a => k a | Exn e => OExn e | Fuel => OFuel | Stuck => OStuck end.

  Fixpoint bind_tuple (xs : list string) (vs : list val) (en : env) : option env :=
    match xs, vs with
    | [], [] => Some en
    | x :: xs', v :: vs' => bind_tuple xs' vs' (update x v en)
    | _, _ => None
    end.

  Definition assign (t : target) (v : val) (en : env) : outcome :=
    match t with
    | TVar x => ONormal (update x v en)
    | TTuple xs =>
        lift (items v) (fun vs =>
          match bind_tuple xs vs en with Some en' => ONormal en' | None => OExn ValueError end)
    | TIndex x i =>
        lift (eval en i) (fun j => lift (lookup x en) (fun a => lift (store_val a j v) (fun a' =>
          ONormal (update x a' en))))
    | TIndex2 x i j =>
        lift (eval en i) (fun iv => lift (eval en j) (fun jv => lift (lookup x en) (fun a =>
          lift (store2_val a iv jv v) (fun a' => ONormal (update x a' en)))))
    | TColumn x j =>
        lift (eval en j) (fun jv => lift (lookup x en) (fun a => lift (store_column a jv v) (fun a' => ONormal (update x a' en))))
    | TPair x ys =>
        lift (items v) (fun vs =>
          match vs with
          | [v1; v2] => lift (items v2) (fun ws =>
                          match bind_tuple ys ws (update x v1 en) with Some en' => ONormal en' | None => OExn ValueError end)
          | _ => OExn ValueError
          end)
    end.

  Definition seq (o : outcome) (k : env -> outcome) : outcome :=
    match o with ONormal en => k en | _ => o end.
  (* after one iteration of a loop that may break *)
  Definition loop_seq (o : outcome) (k : env -> outcome) : outcome :=
    match o with ONormal en => k en | OBreak en => ONormal en | _ => o end.

  Fixpoint exec (fuel : nat) (s : stmt) (en : env) {struct s} : outcome :=
    match s with
    | SSkip => ONormal en
    | SSeq a b => seq (exec fuel a en) (exec fuel b)
    | SAssign t e => lift (eval en e) (fun v => assign t v en)
    | SAug t o e =>
        match t with
        | TVar x => lift (lookup x en) (fun a => lift (eval en e) (fun b => lift (binop_vals o a b) (fun v =>
                      ONormal (update x v en))))
        | TIndex x i =>
            lift (lookup x en) (fun a => lift (eval en i) (fun j => lift (index_val a j) (fun old =>
            lift (eval en e) (fun b => lift (binop_vals o old b) (fun v => lift (store_val a j v) (fun a' =>
              ONormal (update x a' en)))))))
        | TIndex2 x i j =>
            lift (lookup x en) (fun a => lift (eval en i) (fun iv => lift (eval en j) (fun jv =>
            lift (index_val a iv) (fun row => lift (index_val row jv) (fun old =>
            lift (eval en e) (fun b => lift (binop_vals o old b) (fun v => lift (store2_val a iv jv v) (fun a' =>
              ONormal (update x a' en)))))))))
        | TTuple _ | TPair _ _ | TColumn _ _ => OStuck
        end
    | SExpr e => lift (eval en e) (fun _ => ONormal en)
    | SAppend x e =>
        lift (lookup x en) (fun a => lift (eval en e) (fun v =>
          match a with VList l => ONormal (update x (VList (l ++ [v])) en) | _ => OStuck end))
    | SInsert x i e =>
        lift (lookup x en) (fun a => lift (eval en i) (fun j => lift (eval en e) (fun v =>
          lift (insert_val a j v) (fun a' => ONormal (update x a' en)))))
    | SIf c a b => lift (eval en c) (fun v => lift (truthy v) (fun t => if t then exec fuel a en else exec fuel b en))
    | SFor t it bd =>
        lift (eval en it) (fun src => lift (items src) (fun l =>
          (fix loop (l : list val) (en : env) : outcome :=
             match l with
             | [] => ONormal en
             | v :: rest => seq (seq (assign t v en) (exec fuel bd)) (loop rest)
             end) l en))
    | SWhile c bd =>
        (fix loop (n : nat) (en : env) : outcome :=
           match n with
           | O => OFuel
           | S m => lift (eval en c) (fun v => lift (truthy v) (fun t =>
                      if t then seq (exec fuel bd en) (loop m) else ONormal en))
           end) fuel en
    | SReturn e => lift (eval en e) OReturn
    | SRaise e => OExn e
    | SNextRandom x n =>
        lift (eval en n) (fun nv => lift (lookup "__rng__" en) (fun st =>
          match nv, st with
          | VInt k, VList (VArr arr :: rest) =>
              if forallb (fun y => match y with VFloat _ => true | _ => false end) arr && (Z.of_nat (length arr) =? k)
              then ONormal (update x (VArr arr) (update "__rng__" (VList rest) en)) else OStuck
          | _, _ => OStuck
          end))
    | SPrintOut e =>
        lift (eval en e) (fun v => lift (lookup "__out__" en) (fun o =>
          match v, o with
          | VStr s, VList l => ONormal (update "__out__" (VList (l ++ [VStr s])) en)
          | _, _ => OStuck
          end))
    | SShuffleRow x i =>
        lift (eval en i) (fun iv => lift (lookup x en) (fun a => lift (index_val a iv) (fun row => lift (lookup "__rng__" en) (fun st =>
          match a, iv, row, st with
          | VArr _, VInt _, VArr l, VList ((VList p | VArr p) :: rest) =>
              lift (permute_row l p) (fun l' => lift (store_val a iv (VList l')) (fun a' =>
                ONormal (update x a' (update "__rng__" (VList rest) en))))
          | _, _, _, _ => OStuck
          end))))
    | SAppendAt x i e =>
        lift (lookup x en) (fun a => lift (eval en i) (fun j => lift (index_val a j) (fun inner => lift (eval en e) (fun v =>
          match a, inner with
          | VList _, VList l => lift (store_val a j (VList (l ++ [v]))) (fun a' => ONormal (update x a' en))
          | _, _ => OStuck
          end))))
    | SSetAdd x e =>
        lift (lookup x en) (fun a => lift (eval en e) (fun v =>
          match a with
          | VSet l => if key_ok v then ONormal (update x (VSet (if mem_val v l then l else l ++ [v])) en) else OStuck
          | _ => OStuck
          end))
    | SSetAdd2 x i e =>
        lift (lookup x en) (fun a => lift (eval en i) (fun j => lift (index_val a j) (fun st => lift (eval en e) (fun v =>
          match st with
          | VSet l =>
              if key_ok v then lift (store_val a j (VSet (if mem_val v l then l else l ++ [v]))) (fun a' => ONormal (update x a' en))
              else OStuck
          | _ => OStuck
          end))))
    | SDel x i =>
        lift (lookup x en) (fun a => lift (eval en i) (fun j =>
          match a, j with
          | VList l, VInt z =>
              let n := Z.of_nat (length l) in
              let z' := if z <? 0 then z + n else z in
              if (z' <? 0) || (n <=? z') then OExn IndexError
              else ONormal (update x (VList (firstn (Z.to_nat z') l ++ skipn (S (Z.to_nat z')) l)) en)
          | VDict d, _ =>
              if key_ok j then
                match dict_get j d with
                | Some _ => ONormal (update x (VDict (filter (fun kv => negb (val_eqb j (fst kv))) d)) en)
                | None => OExn KeyError
                end
              else OStuck
          | _, _ => OStuck
          end))
    | SDel2 x i j =>
        lift (lookup x en) (fun a => lift (eval en i) (fun iv => lift (index_val a iv) (fun inner => lift (eval en j) (fun jv =>
          match inner, jv with
          | VList l, VInt z =>
              let n := Z.of_nat (length l) in
              let z' := if z <? 0 then z + n else z in
              if (z' <? 0) || (n <=? z') then OExn IndexError
              else lift (store_val a iv (VList (firstn (Z.to_nat z') l ++ skipn (S (Z.to_nat z')) l))) (fun a' =>
                     ONormal (update x a' en))
          | _, _ => OStuck
          end))))
    | SDelVar x =>
        lift (lookup x en) (fun _ => ONormal (filter (fun kv => negb (String.eqb x (fst kv))) en))
    | SBreak => OBreak en
    | SForB t it bd =>
        lift (eval en it) (fun src => lift (items src) (fun l =>
          (fix loop (l : list val) (en : env) : outcome :=
             match l with
             | [] => ONormal en
             | v :: rest => loop_seq (seq (assign t v en) (exec fuel bd)) (loop rest)
             end) l en))
    | SWhileB c bd =>
        (fix loop (n : nat) (en : env) : outcome :=
           match n with
           | O => OFuel
           | S m => lift (eval en c) (fun v => lift (truthy v) (fun t =>
                      if t then loop_seq (exec fuel bd en) (loop m) else ONormal en))
           end) fuel en
    end.

  Fixpoint bind_params (ps : list string) (vs : list val) : option env :=
    match ps, vs with
    | [], [] => Some []
    | p :: ps', v :: vs' => match bind_params ps' vs' with Some en => Some ((p, v) :: en) | None => None end
    | _, _ => None
    end.

  (* every while loop of the call may run [fuel] iterations *)
  Definition run_fun (fuel : nat) (f : fundef) (args : list val) : res val :=
    match bind_params (params f) args with
    | None => Stuck
    | Some en =>
        match exec fuel (body f) en with
        | ONormal _ => Ret VNone
        | OReturn v => Ret v
        | OBreak _ => Stuck
        | OExn e => Exn e
        | OFuel => Fuel
        | OStuck => Stuck
        end
    end.
End Interp.

(* a module: named functions, resolved bottom-up (a function may call those AFTER it in the list: callers first) *)
Definition module := list (string * fundef).

Fixpoint call_in (m : module) (fuel : nat) (f : string) (args : list val) {struct m} : res val :=
  match m with
  | [] => Stuck
  | (g, fd) :: rest =>
      if String.eqb f g then run_fun (call_in rest fuel) fuel fd args else call_in rest fuel f args
  end.

(* the same with EXTERNAL functions: a name that is not in the module is resolved by [ext] (what the theorems assume of it is
   stated where they are: MatrixRepr.set_order_ok) *)
Fixpoint call_in_ext (ext : string -> list val -> res val) (m : module) (fuel : nat) (f : string) (args : list val) {struct m}
  : res val :=
  match m with
  | [] => ext f args
  | (g, fd) :: rest =>
      if String.eqb f g then run_fun (call_in_ext ext rest fuel) fuel fd args else call_in_ext ext rest fuel f args
  end.
