(* ShuffleMTProofs.v -- facts about the model of NumPy's generator (MT19937.v) that do not depend on what the words are: whatever the
   32-bit draws, every row the shuffle produces is a permutation of its input, and a table has one row per request. *)
From Coq Require Import Lia ZifyBool Sorting.Permutation.
From DSW Require Import Py Kmer MT19937.
From DSW Require Shuffle.
Import ListNotations.
Open Scope Z_scope.

(* a row is one of the 24 arrangements of 0..3: the boolean form the interpreter checks (MiniPyD.permute_row) *)
Fixpoint nodupZ (l : list Z) : bool :=
  match l with [] => true | x :: t => negb (memZ x t) && nodupZ t end.
Definition perm4b (p : list Z) : bool :=
  Nat.eqb (length p) 4 && nodupZ p && forallb (fun j => (0 <=? j) && (j <? 4)) p.

(* STATUS: all targets proved with Qed exactly as stated (no hypothesis added, nothing left open): interval_range, shuffle_perm,
   mt_rows_spec, numpy_table_is_model, mt_doctest_2021 (vm_compute).  Helpers: mask_of_nonneg, set_nth_z_perm / swap_perm (a swap of
   two in-range positions is a permutation, by induction on the list), shuffle_from_perm, memZ_In / NoDup_nodupZ / perm_perm4b
   (a permutation of [0;1;2;3] passes the boolean check), rows_from_spec, map_nth_seq_self.  No proof unfolds mt_regen / temper /
   next32.  Print Assumptions of the three theorems: Closed under the global context. *)

(* the proofs never look inside a draw: keep the kernel from unfolding the generator when it re-checks a destruct (without this
   each Qed that destructs next32 / interval / shuffle takes ~10 s) *)
Local Strategy opaque [next32].

(* ---- interval: the result passes its own test ---- *)
Lemma mask_of_nonneg mx : 0 <= mask_of mx.
Proof.
  unfold mask_of. rewrite Z.ones_equiv.
  pose proof (Z.log2_nonneg mx) as L.
  assert (P : 0 < 2 ^ (Z.log2 mx + 1)) by (apply Z.pow_pos_nonneg; lia).
  lia.
Qed.

Lemma interval_range : forall fuel mx g v g', 0 <= mx -> interval fuel mx g = Some (v, g') -> 0 <= v <= mx.
Proof.
  induction fuel as [|f IH]; intros mx g v g' Hmx H; cbn [interval] in H; [discriminate|].
  destruct (next32 g) as [w g1].
  destruct (Z.land w (mask_of mx) <=? mx) eqn:E.
  - inversion H; subst v g'; clear H. split; [|lia].
    apply Z.land_nonneg. right. apply mask_of_nonneg.
  - exact (IH mx g1 v g' Hmx H).
Qed.

(* ---- swap with in-range positions is a permutation ---- *)
Lemma set_nth_z_perm : forall (t : list Z) (j : nat) (x : Z), (j < length t)%nat ->
  Permutation (nth j t 0 :: set_nth_z t j x) (x :: t).
Proof.
  induction t as [|y t IH]; intros j x Hj; cbn [length] in Hj; [lia|].
  destruct j as [|j]; cbn [nth set_nth_z].
  - apply perm_swap.
  - apply Permutation_trans with (y :: nth j t 0 :: set_nth_z t j x); [apply perm_swap|].
    apply Permutation_trans with (y :: x :: t); [|apply perm_swap].
    apply perm_skip. apply IH. lia.
Qed.

Lemma swap_perm : forall (l : list Z) (i j : nat), (i < length l)%nat -> (j < length l)%nat -> Permutation (swap l i j) l.
Proof.
  unfold swap. induction l as [|h t IH]; intros i j Hi Hj; cbn [length] in Hi, Hj; [lia|].
  destruct i as [|i]; destruct j as [|j]; cbn [nth set_nth_z].
  - apply Permutation_refl.
  - apply set_nth_z_perm. lia.
  - apply set_nth_z_perm. lia.
  - apply perm_skip. apply IH; lia.
Qed.

Lemma shuffle_from_perm : forall i l g l' g', (i < length l)%nat -> shuffle_from i l g = Some (l', g') -> Permutation l' l.
Proof.
  induction i as [|m IH]; intros l g l' g' Hi H; cbn [shuffle_from] in H.
  - inversion H; subst. apply Permutation_refl.
  - destruct (interval 200 (Z.of_nat (S m)) g) as [[j g1]|] eqn:E; [|discriminate].
    apply interval_range in E; [|lia].
    assert (Hj : (Z.to_nat j < length l)%nat) by lia.
    pose proof (swap_perm l (S m) (Z.to_nat j) Hi Hj) as P.
    apply Permutation_trans with (swap l (S m) (Z.to_nat j)); [|exact P].
    apply (IH (swap l (S m) (Z.to_nat j)) g1 l' g'); [rewrite (Permutation_length P); lia|exact H].
Qed.

Theorem shuffle_perm : forall l g l' g', shuffle l g = Some (l', g') -> Permutation l' l /\ length l' = length l.
Proof.
  intros l g l' g' H.
  assert (P : Permutation l' l).
  { unfold shuffle in H. destruct l as [|x t].
    - cbn in H. inversion H; subst. apply Permutation_refl.
    - apply (shuffle_from_perm (length (x :: t) - 1) (x :: t) g l' g'); [cbn [length]; lia|exact H]. }
  split; [exact P|apply Permutation_length; exact P].
Qed.

(* ---- a permutation of [0;1;2;3] passes the boolean check ---- *)
Lemma memZ_In x l : memZ x l = true -> In x l.
Proof.
  induction l as [|y t IH]; cbn [memZ In]; [discriminate|].
  intro H. apply orb_prop in H. destruct H as [H|H]; [left; lia|right; exact (IH H)].
Qed.

Lemma NoDup_nodupZ l : NoDup l -> nodupZ l = true.
Proof.
  induction 1 as [|x t Hx Ht IH]; cbn [nodupZ]; [reflexivity|].
  rewrite IH, andb_true_r. destruct (memZ x t) eqn:E; [|reflexivity].
  exfalso. exact (Hx (memZ_In _ _ E)).
Qed.

Lemma perm_perm4b r : Permutation r [0; 1; 2; 3] -> perm4b r = true.
Proof.
  intro P. unfold perm4b.
  rewrite (Permutation_length P). cbn [length Nat.eqb andb].
  rewrite NoDup_nodupZ.
  2:{ apply (Permutation_NoDup (Permutation_sym P)).
      repeat constructor; cbn [In]; lia. }
  cbn [andb]. apply forallb_forall. intros j Hj.
  pose proof (Permutation_in _ P Hj) as Hin. cbn [In] in Hin. lia.
Qed.

Lemma rows_from_spec : forall n g rows, rows_from n g = Some rows ->
  length rows = n /\ Forall (fun r => Permutation r [0; 1; 2; 3]) rows /\ Forall (fun r => perm4b r = true) rows.
Proof.
  induction n as [|m IH]; intros g rows H; cbn [rows_from] in H.
  - inversion H; subst. repeat split; constructor.
  - destruct (shuffle [0; 1; 2; 3] g) as [[r g1]|] eqn:E; [|discriminate].
    destruct (rows_from m g1) as [t|] eqn:Et; [|discriminate].
    inversion H; subst rows; clear H.
    destruct (IH _ _ Et) as (L & F1 & F2).
    destruct (shuffle_perm _ _ _ _ E) as [P _].
    cbn [length]. repeat split; [lia| |]; constructor; auto using perm_perm4b.
Qed.

Theorem mt_rows_spec : forall n seed rows, mt_rows n seed = Some rows ->
  length rows = n /\ Forall (fun r => Permutation r [0; 1; 2; 3]) rows /\ Forall (fun r => perm4b r = true) rows.
Proof. intros n seed rows H. exact (rows_from_spec _ _ _ H). Qed.

(* ---- the table as the model of create_random_shuffles ---- *)
Lemma map_nth_seq_self {A} (d : A) : forall l : list A, l = map (fun i => nth i l d) (seq 0 (length l)).
Proof.
  induction l as [|x t IH]; [reflexivity|].
  cbn [length seq map nth]. f_equal. rewrite <- seq_shift, map_map. cbn [nth]. exact IH.
Qed.

Theorem numpy_table_is_model : forall k seed rows, mt_rows (Z.to_nat (pow4 k)) seed = Some rows ->
  rows = Shuffle.create_random_shuffles k (fun i _ => nth i rows []).
Proof.
  intros k seed rows H. destruct (mt_rows_spec _ _ _ H) as (L & _).
  unfold Shuffle.create_random_shuffles. rewrite <- L. apply map_nth_seq_self.
Qed.

(* the documented table: seed 2021, observed length 2 *)
Example mt_doctest_2021 : mt_rows 16 2021 = Some
  [[3;2;1;0];[2;3;1;0];[3;1;0;2];[0;3;1;2];[3;2;0;1];[1;0;3;2];[0;3;1;2];[2;0;1;3];[2;3;0;1];[1;0;3;2];[2;0;1;3];[0;1;3;2];
   [2;3;1;0];[2;0;3;1];[0;1;3;2];[0;3;2;1]].
Proof. vm_compute; reflexivity. Qed.

Print Assumptions shuffle_perm.
Print Assumptions mt_rows_spec.
Print Assumptions numpy_table_is_model.
