(* ShuffleProofs.v -- C18: the digit <-> live-arc map induced by any shuffle-table row is a
   bijection, and argsort-based selection (the code) equals rank-based selection (the spec). *)
From Coq Require Import Lia ZifyBool Permutation Sorting.Sorted.
From DSW Require Import Py Kmer Graph Coder Spec GraphSpec CoderSpec.
Ltac Zify.zify_post_hook ::= Z.to_euclidean_division_equations.

(* TARGET STATEMENTS (to be proved, do not change the statements):

(* argsort returns a permutation of the positions, whatever the keys (even with repeated keys) *)
Theorem argsort_perm : forall keys, Permutation (argsort keys) (zrange (length keys)).
Theorem argsort_length : forall keys, length (argsort keys) = length keys.
(* ... and sorts: keys read through it are non-decreasing *)
Theorem argsort_sorted : forall keys i j, (i <= j < length keys)%nat ->
  nth (Z.to_nat (nth i (argsort keys) 0)) keys 0 <= nth (Z.to_nat (nth j (argsort keys) 0)) keys 0.

(* digit -> position (encode) and position -> digit (decode) are inverse, for ANY keys *)
Theorem shuffle_unshuffle : forall sh v used rem, 0 <= rem < Z.of_nat (length used) ->
  forall p, shuffle_digit sh v used rem = Ok p ->
  0 <= p < Z.of_nat (length used) /\ unshuffle_digit sh v used p = Ok rem.
Theorem unshuffle_shuffle : forall sh v used p, 0 <= p < Z.of_nat (length used) ->
  forall rem, unshuffle_digit sh v used p = Ok rem ->
  0 <= rem < Z.of_nat (length used) /\ shuffle_digit sh v used rem = Ok p.
(* both are total when the vertex has a table row *)
Theorem shuffle_digit_total : forall sh v used rem, 0 <= rem < Z.of_nat (length used) ->
  (match sh with None => True | Some t => 0 <= v < Z.of_nat (length t) end) ->
  exists p, shuffle_digit sh v used rem = Ok p /\ 0 <= p < Z.of_nat (length used).
Theorem unshuffle_digit_total : forall sh v used p, 0 <= p < Z.of_nat (length used) ->
  (match sh with None => True | Some t => 0 <= v < Z.of_nat (length t) end) ->
  exists rem, unshuffle_digit sh v used p = Ok rem /\ 0 <= rem < Z.of_nat (length used).

(* with distinct keys on the live columns (rows that are permutations), the arc the code picks for
   digit d is the live column whose key is d-th smallest (the specification's select_arc), and the
   digit the code recovers from a live column is its rank *)
Theorem code_select_is_spec : forall (srow : list Z) used d,
  NoDup (map (fun u => nth (Z.to_nat u) srow (-1)) used) -> 0 <= d < Z.of_nat (length used) ->
  Forall (fun u => 0 <= u < Z.of_nat (length srow)) used ->
  exists p, nth_error (argsort (pick srow used)) (Z.to_nat d) = Some p /\
            select_arc (Some srow) used d = Some (nth (Z.to_nat p) used 0).
Theorem code_rank_is_spec : forall (srow : list Z) used pos,
  NoDup (map (fun u => nth (Z.to_nat u) srow (-1)) used) -> (pos < length used)%nat ->
  Forall (fun u => 0 <= u < Z.of_nat (length srow)) used ->
  first_pos (Z.of_nat pos) (argsort (pick srow used)) 0 = Some (rank_in (Some srow) used (nth pos used 0)).
(* without a table the d-th live column is selected (used is strictly ascending) *)
Theorem select_no_table : forall used d, StronglySorted Z.lt used -> 0 <= d < Z.of_nat (length used) ->
  select_arc None used d = Some (nth (Z.to_nat d) used 0) /\ rank_in None used (nth (Z.to_nat d) used 0) = d.
(* select_arc and rank_in are inverse bijections between digits and live columns *)
Theorem select_rank_bijection : forall srow used, NoDup (map (key_of srow) used) ->
  (forall d, 0 <= d < Z.of_nat (length used) -> exists u, select_arc srow used d = Some u /\ In u used /\ rank_in srow used u = d) /\
  (forall u, In u used -> 0 <= rank_in srow used u < Z.of_nat (length used) /\ select_arc srow used (rank_in srow used u) = Some u).

(* the exhaustive finite statement named by the property: all 24 permutations x all 15 non-empty
   live-arc patterns: digit -> arc is a bijection onto the pattern (checked by computation, lifted) *)
Definition all_perms4 : list (list Z) :=
  flat_map (fun a => flat_map (fun b => flat_map (fun c => flat_map (fun d =>
    if (negb (a =? b) && negb (a =? c) && negb (a =? d) && negb (b =? c) && negb (b =? d) && negb (c =? d))%bool
    then [[a; b; c; d]] else []) [0;1;2;3]) [0;1;2;3]) [0;1;2;3]) [0;1;2;3].
Definition all_patterns : list (list Z) :=
  filter (fun p => negb (Nat.eqb (length p) 0))
    (flat_map (fun a => flat_map (fun b => flat_map (fun c => map (fun d => a ++ b ++ c ++ d) [[]; [3]]) [[]; [2]]) [[]; [1]]) [[]; [0]]).
Definition digit_to_arc (row pattern : list Z) (d : Z) : Z :=
  nth (Z.to_nat (nth (Z.to_nat d) (argsort (pick row pattern)) 0)) pattern (-1).
Definition check_pair (row pattern : list Z) : bool :=
  let arcs := map (digit_to_arc row pattern) (zrange (length pattern)) in
  forallb (fun a => memZ a pattern) arcs && forallb (fun a => memZ a arcs) pattern
  && Nat.eqb (length (nodup Z.eq_dec arcs)) (length pattern).
Theorem finite_sweep : length all_perms4 = 24%nat /\ length all_patterns = 15%nat /\
  forall row pattern, In row all_perms4 -> In pattern all_patterns -> check_pair row pattern = true.
*)
