(* ShuffleProofs.v -- C18: the digit <-> live-arc map induced by any shuffle-table row is a
   bijection, and argsort-based selection (the code) equals rank-based selection (the spec). *)
From Coq Require Import Lia ZifyBool Permutation Sorting.Sorted.
From DSW Require Import Py Kmer Graph Coder Spec GraphSpec CoderSpec.
Ltac Zify.zify_post_hook ::= Z.to_euclidean_division_equations.

(* ------------------------------------------------------------------------------------------ *)
(* generic facts about counting smaller keys, for an arbitrary key function                     *)
(* ------------------------------------------------------------------------------------------ *)
Section GenericA.
Context {A : Type}.

Lemma perm_filter_length : forall (g : A -> bool) l l',
  Permutation l l' -> length (filter g l) = length (filter g l').
Proof.
  intros g l l' H; induction H as [|x l l' H IH|x y l|l l' l'' H1 IH1 H2 IH2]; cbn [filter].
  - reflexivity.
  - destruct (g x); cbn [length]; lia.
  - destruct (g x), (g y); cbn [length]; reflexivity.
  - lia.
Qed.

Lemma find_unique : forall (g : A -> bool) l u, In u l -> g u = true ->
  (forall u', In u' l -> g u' = true -> u' = u) -> find g l = Some u.
Proof.
  intros g l u Hin Hg Hu. destruct (find g l) as [a|] eqn:E.
  - apply find_some in E. destruct E as [Ha Hga]. f_equal. apply Hu; assumption.
  - pose proof (find_none _ _ E u Hin). congruence.
Qed.

Lemma filter_len_le : forall (g : A -> bool) l, (length (filter g l) <= length l)%nat.
Proof.
  intros g l; induction l as [|h t IH]; cbn [filter length]; [lia|].
  destruct (g h); cbn [length]; lia.
Qed.

Lemma filter_length_lt : forall (g : A -> bool) l u, In u l -> g u = false ->
  (length (filter g l) < length l)%nat.
Proof.
  intros g l u Hin Hg. induction l as [|h t IH]; [destruct Hin|].
  cbn [filter length]. destruct Hin as [E|Hin].
  - subst h. rewrite Hg. pose proof (filter_len_le g t). lia.
  - specialize (IH Hin). destruct (g h); cbn [length]; lia.
Qed.

End GenericA.

Section Generic.
Context {A : Type} (f : A -> Z).

Lemma filter_lt_none : forall k t, Forall (fun b => k < f b) t -> filter (fun x => f x <? k) t = [].
Proof.
  intros k t H; induction H as [|b t Hb Ht IH]; cbn [filter]; [reflexivity|].
  destruct (f b <? k) eqn:E; [lia|exact IH].
Qed.

Lemma count_sorted_strict : forall l d dflt,
  StronglySorted (fun a b => f a < f b) l -> (d < length l)%nat ->
  length (filter (fun x => f x <? f (nth d l dflt)) l) = d.
Proof.
  induction l as [|h t IH]; intros d dflt Hs Hd; cbn [length] in Hd; [lia|].
  apply StronglySorted_inv in Hs. destruct Hs as [Hst Hfa].
  destruct d as [|d]; cbn [nth filter].
  - destruct (f h <? f h) eqn:E; [lia|]. rewrite filter_lt_none by exact Hfa. reflexivity.
  - assert (Hin : In (nth d t dflt) t) by (apply nth_In; lia).
    rewrite Forall_forall in Hfa. specialize (Hfa _ Hin).
    destruct (f h <? f (nth d t dflt)) eqn:E; [|lia].
    cbn [length]. rewrite (IH d dflt Hst) by lia. reflexivity.
Qed.

Lemma sorted_le_nodup_strict : forall l,
  StronglySorted (fun a b => f a <= f b) l -> NoDup (map f l) ->
  StronglySorted (fun a b => f a < f b) l.
Proof.
  induction l as [|h t IH]; intros Hs Hn; [constructor|].
  apply StronglySorted_inv in Hs. destruct Hs as [Hst Hfa].
  cbn [map] in Hn. apply NoDup_cons_iff in Hn. destruct Hn as [Hni Hnt].
  constructor; [apply IH; assumption|].
  rewrite Forall_forall in *. intros b Hb. specialize (Hfa b Hb).
  assert (f h <> f b) by (intro E; apply Hni; rewrite E; apply in_map; exact Hb).
  lia.
Qed.

Lemma strict_sorted_nodup : forall l,
  StronglySorted (fun a b => f a < f b) l -> NoDup (map f l).
Proof.
  induction l as [|h t IH]; intros Hs; cbn [map]; [constructor|].
  apply StronglySorted_inv in Hs. destruct Hs as [Hst Hfa].
  constructor; [|apply IH; exact Hst].
  intro Hin. apply in_map_iff in Hin. destruct Hin as [b [Eb Hb]].
  rewrite Forall_forall in Hfa. specialize (Hfa b Hb). lia.
Qed.

Lemma filter_map_length : forall (g : Z -> bool) l,
  length (filter g (map f l)) = length (filter (fun x => g (f x)) l).
Proof.
  intros g l; induction l as [|h t IH]; cbn [map filter]; [reflexivity|].
  destruct (g (f h)); cbn [length]; lia.
Qed.

Lemma rank_le : forall l ka kb, ka <= kb ->
  (length (filter (fun x => (f x <? ka)%Z) l) <= length (filter (fun x => (f x <? kb)%Z) l))%nat.
Proof.
  intros l ka kb Hk; induction l as [|h t IH]; cbn [filter]; [lia|].
  destruct (f h <? ka) eqn:E1; destruct (f h <? kb) eqn:E2; cbn [length]; lia.
Qed.

Lemma rank_lt : forall l a kb, In a l -> f a < kb ->
  (length (filter (fun x => (f x <? f a)%Z) l) < length (filter (fun x => (f x <? kb)%Z) l))%nat.
Proof.
  intros l a kb Hin Hk; induction l as [|h t IH]; [destruct Hin|].
  cbn [filter]. destruct Hin as [E|Hin].
  - subst h. pose proof (rank_le t (f a) kb ltac:(lia)) as Hle.
    destruct (f a <? f a) eqn:E1; destruct (f a <? kb) eqn:E2; cbn [length]; lia.
  - specialize (IH Hin).
    destruct (f h <? f a) eqn:E1; destruct (f h <? kb) eqn:E2; cbn [length]; lia.
Qed.

Lemma nodup_map_inj : forall l a b, NoDup (map f l) -> In a l -> In b l -> f a = f b -> a = b.
Proof.
  induction l as [|h t IH]; intros a b Hn Ha Hb E; [destruct Ha|].
  cbn [map] in Hn. apply NoDup_cons_iff in Hn. destruct Hn as [Hni Hnt].
  destruct Ha as [Ha|Ha]; destruct Hb as [Hb|Hb].
  - congruence.
  - subst h. exfalso. apply Hni. rewrite E. apply in_map. exact Hb.
  - subst h. exfalso. apply Hni. rewrite <- E. apply in_map. exact Ha.
  - eapply IH; eassumption.
Qed.

Lemma rank_inj : forall l a b, NoDup (map f l) -> In a l -> In b l ->
  length (filter (fun x => f x <? f a) l) = length (filter (fun x => f x <? f b) l) -> a = b.
Proof.
  intros l a b Hn Ha Hb E. apply (nodup_map_inj l); try assumption.
  destruct (Z.lt_trichotomy (f a) (f b)) as [H|[H|H]]; [|exact H|].
  - pose proof (rank_lt l a (f b) Ha H). lia.
  - pose proof (rank_lt l b (f a) Hb H). lia.
Qed.

End Generic.

(* ------------------------------------------------------------------------------------------ *)
(* insert_kp / number_from / the sorted list of pairs                                           *)
(* ------------------------------------------------------------------------------------------ *)
Definition sort_kp (l : list (Z * Z)) : list (Z * Z) :=
  fold_left (fun acc kp => insert_kp kp acc) l [].

Lemma argsort_unfold : forall keys, argsort keys = map snd (sort_kp (number_from keys 0)).
Proof. reflexivity. Qed.

Lemma insert_kp_perm : forall kp l, Permutation (insert_kp kp l) (kp :: l).
Proof.
  intros kp l; induction l as [|h t IH]; cbn [insert_kp].
  - apply Permutation_refl.
  - destruct (fst kp <? fst h).
    + apply Permutation_refl.
    + eapply Permutation_trans; [apply perm_skip; exact IH|apply perm_swap].
Qed.

Lemma fold_insert_perm : forall l acc,
  Permutation (fold_left (fun acc kp => insert_kp kp acc) l acc) (l ++ acc).
Proof.
  induction l as [|x t IH]; intros acc; cbn [fold_left app].
  - apply Permutation_refl.
  - eapply Permutation_trans; [apply IH|].
    eapply Permutation_trans; [apply Permutation_app_head; apply insert_kp_perm|].
    apply Permutation_sym. apply Permutation_middle.
Qed.

Lemma sort_kp_perm : forall l, Permutation (sort_kp l) l.
Proof.
  intros l. unfold sort_kp. pose proof (fold_insert_perm l []) as H.
  rewrite app_nil_r in H. exact H.
Qed.

Lemma insert_kp_sorted : forall kp l,
  StronglySorted (fun a b : Z * Z => fst a <= fst b) l ->
  StronglySorted (fun a b : Z * Z => fst a <= fst b) (insert_kp kp l).
Proof.
  intros kp l; induction l as [|h t IH]; intros Hs; cbn [insert_kp].
  - constructor; constructor.
  - apply StronglySorted_inv in Hs. destruct Hs as [Hst Hfa].
    destruct (fst kp <? fst h) eqn:E.
    + constructor; [constructor; assumption|].
      constructor; [lia|].
      rewrite Forall_forall in *. intros b Hb. specialize (Hfa b Hb). lia.
    + constructor; [apply IH; exact Hst|].
      rewrite Forall_forall in *. intros b Hb.
      apply (Permutation_in _ (insert_kp_perm kp t)) in Hb.
      destruct Hb as [Hb|Hb]; [subst b; lia|apply Hfa; exact Hb].
Qed.

Lemma fold_insert_sorted : forall l acc,
  StronglySorted (fun a b : Z * Z => fst a <= fst b) acc ->
  StronglySorted (fun a b : Z * Z => fst a <= fst b)
    (fold_left (fun acc kp => insert_kp kp acc) l acc).
Proof.
  induction l as [|x t IH]; intros acc Hs; cbn [fold_left]; [exact Hs|].
  apply IH. apply insert_kp_sorted. exact Hs.
Qed.

Lemma sort_kp_sorted : forall l, StronglySorted (fun a b : Z * Z => fst a <= fst b) (sort_kp l).
Proof. intros l. unfold sort_kp. apply fold_insert_sorted. constructor. Qed.

Lemma number_from_fst : forall (l : list Z) i, map fst (number_from l i) = l.
Proof.
  induction l as [|x t IH]; intros i; cbn [number_from map fst]; [reflexivity|].
  rewrite IH. reflexivity.
Qed.

Lemma number_from_snd : forall (l : list Z) i, map snd (number_from l i) = zrange_from i (length l).
Proof.
  induction l as [|x t IH]; intros i; cbn [number_from map snd length zrange_from]; [reflexivity|].
  rewrite IH. reflexivity.
Qed.

Lemma number_from_in : forall (l : list Z) i k p, In (k, p) (number_from l i) ->
  exists n, (n < length l)%nat /\ p = i + Z.of_nat n /\ nth n l 0 = k.
Proof.
  induction l as [|x t IH]; intros i k p Hin; cbn [number_from] in Hin; [destruct Hin|].
  destruct Hin as [E|Hin].
  - inversion E; subst. exists 0%nat. cbn [length nth]. repeat split; lia.
  - destruct (IH _ _ _ Hin) as [n [Hn [Hp Hk]]].
    exists (S n). cbn [length nth]. repeat split; [lia|lia|exact Hk].
Qed.

Lemma zrange_from_in : forall n s x, In x (zrange_from s n) <-> s <= x < s + Z.of_nat n.
Proof.
  induction n as [|n IH]; intros s x; cbn [zrange_from In].
  - lia.
  - rewrite IH. lia.
Qed.

Lemma zrange_from_nodup : forall n s, NoDup (zrange_from s n).
Proof.
  induction n as [|n IH]; intros s; cbn [zrange_from]; constructor; [|apply IH].
  rewrite zrange_from_in. lia.
Qed.

Lemma zrange_from_len : forall n s, length (zrange_from s n) = n.
Proof.
  induction n as [|n IH]; intros s; cbn [zrange_from length]; [reflexivity|].
  rewrite IH. reflexivity.
Qed.

(* ------------------------------------------------------------------------------------------ *)
(* argsort                                                                                      *)
(* ------------------------------------------------------------------------------------------ *)
Theorem argsort_perm : forall keys, Permutation (argsort keys) (zrange (length keys)).
Proof.
  intros keys. rewrite argsort_unfold. unfold zrange.
  rewrite <- (number_from_snd keys 0). apply Permutation_map. apply sort_kp_perm.
Qed.

Theorem argsort_length : forall keys, length (argsort keys) = length keys.
Proof.
  intros keys. rewrite (Permutation_length (argsort_perm keys)).
  unfold zrange. apply zrange_from_len.
Qed.

Lemma argsort_in : forall keys x, In x (argsort keys) <-> 0 <= x < Z.of_nat (length keys).
Proof.
  intros keys x. split; intros H.
  - apply (Permutation_in _ (argsort_perm keys)) in H. unfold zrange in H.
    apply zrange_from_in in H. lia.
  - apply (Permutation_in _ (Permutation_sym (argsort_perm keys))). unfold zrange.
    apply zrange_from_in. lia.
Qed.

Lemma argsort_nodup : forall keys, NoDup (argsort keys).
Proof.
  intros keys. apply (Permutation_NoDup (Permutation_sym (argsort_perm keys))).
  unfold zrange. apply zrange_from_nodup.
Qed.

Lemma nth_map_snd : forall (S : list (Z * Z)) i, nth i (map snd S) 0 = snd (nth i S (0, 0)).
Proof. intros S i. exact (map_nth snd S (0, 0) i). Qed.

Lemma sort_kp_length : forall l, length (sort_kp l) = length l.
Proof. intros l. apply Permutation_length. apply sort_kp_perm. Qed.

Lemma number_from_length : forall (l : list Z) i, length (number_from l i) = length l.
Proof.
  induction l as [|x t IH]; intros i; cbn [number_from length]; [reflexivity|].
  rewrite IH. reflexivity.
Qed.

(* the i-th sorted pair is (keys[p], p) with p = argsort keys [i] *)
Lemma sorted_pair_key : forall keys i, (i < length keys)%nat ->
  let kp := nth i (sort_kp (number_from keys 0)) (0, 0) in
  snd kp = nth i (argsort keys) 0 /\
  0 <= snd kp < Z.of_nat (length keys) /\
  nth (Z.to_nat (snd kp)) keys 0 = fst kp.
Proof.
  intros keys i Hi kp. split.
  - rewrite argsort_unfold, nth_map_snd. reflexivity.
  - assert (Hin : In kp (sort_kp (number_from keys 0))).
    { apply nth_In. rewrite sort_kp_length, number_from_length. exact Hi. }
    apply (Permutation_in _ (sort_kp_perm _)) in Hin.
    destruct kp as [k p]. apply number_from_in in Hin.
    destruct Hin as [n [Hn [Hp Hk]]]. cbn [fst snd].
    replace (Z.to_nat p) with n by lia. split; [lia|exact Hk].
Qed.

Lemma ssorted_le_nth : forall (l : list (Z * Z)) i j d,
  StronglySorted (fun a b : Z * Z => fst a <= fst b) l -> (i <= j < length l)%nat ->
  fst (nth i l d) <= fst (nth j l d).
Proof.
  induction l as [|h t IH]; intros i j d Hs Hij; cbn [length] in Hij; [lia|].
  apply StronglySorted_inv in Hs. destruct Hs as [Hst Hfa].
  destruct i as [|i]; destruct j as [|j]; cbn [nth]; try lia.
  - rewrite Forall_forall in Hfa. apply Hfa. apply nth_In. lia.
  - apply IH; [exact Hst|lia].
Qed.

Theorem argsort_sorted : forall keys i j, (i <= j < length keys)%nat ->
  nth (Z.to_nat (nth i (argsort keys) 0)) keys 0 <= nth (Z.to_nat (nth j (argsort keys) 0)) keys 0.
Proof.
  intros keys i j Hij.
  destruct (sorted_pair_key keys i ltac:(lia)) as [Hi1 [_ Hi2]].
  destruct (sorted_pair_key keys j ltac:(lia)) as [Hj1 [_ Hj2]].
  rewrite <- Hi1, <- Hj1, Hi2, Hj2.
  apply ssorted_le_nth; [apply sort_kp_sorted|].
  rewrite sort_kp_length, number_from_length. exact Hij.
Qed.

(* ------------------------------------------------------------------------------------------ *)
(* py_get / first_pos                                                                           *)
(* ------------------------------------------------------------------------------------------ *)
Lemma nthZ_nth : forall {A} (l : list A) n d, (n < length l)%nat -> nthZ l n = Some (nth n l d).
Proof.
  intros A l; induction l as [|x t IH]; intros n d Hn; cbn [length] in Hn; [lia|].
  destruct n as [|n]; cbn [nthZ nth]; [reflexivity|]. apply IH. lia.
Qed.

Lemma py_get_ok : forall {A} (l : list A) i d, 0 <= i < Z.of_nat (length l) ->
  py_get l i = Ok (nth (Z.to_nat i) l d).
Proof.
  intros A l i d Hi. unfold py_get. cbv zeta.
  destruct (i <? 0) eqn:E1; [lia|].
  destruct (Z.of_nat (length l) <=? i) eqn:E2; [lia|].
  rewrite ?E1. cbn [orb]. rewrite (nthZ_nth l _ d) by lia. reflexivity.
Qed.

Lemma first_pos_nodup : forall l n i, NoDup l -> (n < length l)%nat ->
  first_pos (nth n l 0) l i = Some (i + Z.of_nat n).
Proof.
  induction l as [|h t IH]; intros n i Hn Hl; cbn [length] in Hl; [lia|].
  apply NoDup_cons_iff in Hn. destruct Hn as [Hni Hnt].
  destruct n as [|n]; cbn [nth first_pos].
  - rewrite Z.eqb_refl. f_equal. lia.
  - assert (Hin : In (nth n t 0) t) by (apply nth_In; lia).
    destruct (nth n t 0 =? h) eqn:E.
    + exfalso. apply Hni. replace h with (nth n t 0) by lia. exact Hin.
    + rewrite IH by (assumption || lia). f_equal. lia.
Qed.

Lemma first_pos_some : forall l x i r, first_pos x l i = Some r ->
  exists n, (n < length l)%nat /\ r = i + Z.of_nat n /\ nth n l 0 = x.
Proof.
  induction l as [|h t IH]; intros x i r H; cbn [first_pos] in H; [discriminate|].
  destruct (x =? h) eqn:E.
  - inversion H; subst. exists 0%nat. cbn [length nth]. repeat split; lia.
  - destruct (IH _ _ _ H) as [n [Hn [Hr Hx]]].
    exists (S n). cbn [length nth]. repeat split; [lia|lia|exact Hx].
Qed.

(* a permutation of 0..n-1 read forwards (py_get) and backwards (first_pos) *)
Lemma perm_get_first : forall (L : list Z) n, Permutation L (zrange n) ->
  forall rem p, 0 <= rem < Z.of_nat n -> py_get L rem = Ok p ->
  0 <= p < Z.of_nat n /\ first_pos p L 0 = Some rem.
Proof.
  intros L n HP rem p Hrem H.
  assert (Hlen : length L = n).
  { rewrite (Permutation_length HP). unfold zrange. apply zrange_from_len. }
  assert (Hnd : NoDup L).
  { apply (Permutation_NoDup (Permutation_sym HP)). unfold zrange. apply zrange_from_nodup. }
  rewrite (py_get_ok L rem 0) in H by lia. inversion H as [Hp]. split.
  - assert (Hin : In (nth (Z.to_nat rem) L 0) L) by (apply nth_In; lia).
    apply (Permutation_in _ HP) in Hin. unfold zrange in Hin. apply zrange_from_in in Hin. lia.
  - rewrite first_pos_nodup by (assumption || lia). f_equal. lia.
Qed.

Lemma perm_first_get : forall (L : list Z) n, Permutation L (zrange n) ->
  forall p rem, first_pos p L 0 = Some rem ->
  0 <= rem < Z.of_nat n /\ py_get L rem = Ok p.
Proof.
  intros L n HP p rem H.
  assert (Hlen : length L = n).
  { rewrite (Permutation_length HP). unfold zrange. apply zrange_from_len. }
  apply first_pos_some in H. destruct H as [m [Hm [Hr Hx]]].
  split; [lia|]. rewrite (py_get_ok L rem 0) by lia.
  replace (Z.to_nat rem) with m by lia. rewrite Hx. reflexivity.
Qed.

Lemma perm_first_total : forall (L : list Z) n, Permutation L (zrange n) ->
  forall p, 0 <= p < Z.of_nat n -> exists rem, first_pos p L 0 = Some rem.
Proof.
  intros L n HP p Hp.
  assert (Hnd : NoDup L).
  { apply (Permutation_NoDup (Permutation_sym HP)). unfold zrange. apply zrange_from_nodup. }
  assert (Hin : In p L).
  { apply (Permutation_in _ (Permutation_sym HP)). unfold zrange. apply zrange_from_in. lia. }
  destruct (In_nth L p 0 Hin) as [m [Hm Hx]].
  exists (0 + Z.of_nat m). rewrite <- Hx. apply first_pos_nodup; assumption.
Qed.

Lemma argsort_pick_perm : forall srow used,
  Permutation (argsort (pick srow used)) (zrange (length used)).
Proof.
  intros srow used. pose proof (argsort_perm (pick srow used)) as H.
  unfold pick in H at 2. rewrite map_length in H. exact H.
Qed.

(* ------------------------------------------------------------------------------------------ *)
(* shuffle_digit / unshuffle_digit                                                              *)
(* ------------------------------------------------------------------------------------------ *)
Theorem shuffle_unshuffle : forall sh v used rem, 0 <= rem < Z.of_nat (length used) ->
  forall p, shuffle_digit sh v used rem = Ok p ->
  0 <= p < Z.of_nat (length used) /\ unshuffle_digit sh v used p = Ok rem.
Proof.
  intros sh v used rem Hrem p H. unfold shuffle_digit, unshuffle_digit in *.
  destruct sh as [t|].
  - destruct (py_get t v) as [srow|e|]; cbn [bind] in *; try discriminate.
    destruct (perm_get_first _ _ (argsort_pick_perm srow used) rem p Hrem H) as [Hp Hf].
    split; [exact Hp|]. rewrite Hf. reflexivity.
  - inversion H; subst. split; [lia|reflexivity].
Qed.

Theorem unshuffle_shuffle : forall sh v used p, 0 <= p < Z.of_nat (length used) ->
  forall rem, unshuffle_digit sh v used p = Ok rem ->
  0 <= rem < Z.of_nat (length used) /\ shuffle_digit sh v used rem = Ok p.
Proof.
  intros sh v used p Hp rem H. unfold shuffle_digit, unshuffle_digit in *.
  destruct sh as [t|].
  - destruct (py_get t v) as [srow|e|]; cbn [bind] in *; try discriminate.
    destruct (first_pos p (argsort (pick srow used)) 0) as [r|] eqn:E; [|discriminate].
    inversion H; subst r.
    exact (perm_first_get _ _ (argsort_pick_perm srow used) p rem E).
  - inversion H; subst. split; [lia|reflexivity].
Qed.

Theorem shuffle_digit_total : forall sh v used rem, 0 <= rem < Z.of_nat (length used) ->
  (match sh with None => True | Some t => 0 <= v < Z.of_nat (length t) end) ->
  exists p, shuffle_digit sh v used rem = Ok p /\ 0 <= p < Z.of_nat (length used).
Proof.
  intros sh v used rem Hrem Hv. unfold shuffle_digit. destruct sh as [t|].
  - rewrite (py_get_ok t v []) by exact Hv. cbn [bind].
    set (srow := nth (Z.to_nat v) t []).
    pose proof (argsort_pick_perm srow used) as HP.
    assert (Hlen : length (argsort (pick srow used)) = length used).
    { rewrite (Permutation_length HP). unfold zrange. apply zrange_from_len. }
    exists (nth (Z.to_nat rem) (argsort (pick srow used)) 0).
    assert (Hg : py_get (argsort (pick srow used)) rem
                 = Ok (nth (Z.to_nat rem) (argsort (pick srow used)) 0))
      by (apply py_get_ok; lia).
    split; [exact Hg|].
    exact (proj1 (perm_get_first _ _ HP rem _ Hrem Hg)).
  - exists rem. split; [reflexivity|exact Hrem].
Qed.

Theorem unshuffle_digit_total : forall sh v used p, 0 <= p < Z.of_nat (length used) ->
  (match sh with None => True | Some t => 0 <= v < Z.of_nat (length t) end) ->
  exists rem, unshuffle_digit sh v used p = Ok rem /\ 0 <= rem < Z.of_nat (length used).
Proof.
  intros sh v used p Hp Hv. unfold unshuffle_digit. destruct sh as [t|].
  - rewrite (py_get_ok t v []) by exact Hv. cbn [bind].
    set (srow := nth (Z.to_nat v) t []).
    pose proof (argsort_pick_perm srow used) as HP.
    destruct (perm_first_total _ _ HP p Hp) as [rem Hf].
    exists rem. rewrite Hf. split; [reflexivity|].
    exact (proj1 (perm_first_get _ _ HP p rem Hf)).
  - exists p. split; [reflexivity|exact Hp].
Qed.

(* ------------------------------------------------------------------------------------------ *)
(* code selection = rank selection                                                              *)
(* ------------------------------------------------------------------------------------------ *)
Lemma nth_map_in_range : forall (f : Z -> Z) l n, (n < length l)%nat ->
  nth n (map f l) 0 = f (nth n l 0).
Proof.
  intros f l n Hn. rewrite (nth_indep (map f l) 0 (f 0)) by (rewrite map_length; exact Hn).
  apply map_nth.
Qed.

(* with distinct keys, the element argsort puts at position d has exactly d smaller keys *)
Lemma argsort_rank : forall (f : Z -> Z) used d, NoDup (map f used) -> (d < length used)%nat ->
  0 <= nth d (argsort (map f used)) 0 < Z.of_nat (length used) /\
  length (filter (fun u' => f u' <? f (nth (Z.to_nat (nth d (argsort (map f used)) 0)) used 0)) used) = d.
Proof.
  intros f used d Hnd Hd.
  set (keys := map f used).
  assert (Hlen : length keys = length used) by (unfold keys; apply map_length).
  set (S := sort_kp (number_from keys 0)).
  destruct (sorted_pair_key keys d ltac:(lia)) as [H1 [H2 H3]]. fold S in H1, H2, H3.
  rewrite <- H1.
  split; [lia|].
  assert (HP : Permutation S (number_from keys 0)) by apply sort_kp_perm.
  assert (Hstrict : StronglySorted (fun a b : Z * Z => fst a < fst b) S).
  { apply sorted_le_nodup_strict; [apply sort_kp_sorted|].
    apply (Permutation_NoDup (Permutation_sym (Permutation_map fst HP))).
    rewrite number_from_fst. exact Hnd. }
  pose proof (count_sorted_strict fst S d (0, 0) Hstrict
                ltac:(unfold S; rewrite sort_kp_length, number_from_length; lia)) as Hc.
  rewrite <- H3 in Hc.
  assert (Hk : nth (Z.to_nat (snd (nth d S (0, 0)))) keys 0
               = f (nth (Z.to_nat (snd (nth d S (0, 0)))) used 0))
    by (unfold keys; apply nth_map_in_range; lia).
  rewrite Hk in Hc.
  rewrite (perm_filter_length _ _ _ HP) in Hc.
  rewrite <- (filter_map_length fst (fun k' => k' <? f (nth (Z.to_nat (snd (nth d S (0, 0)))) used 0))) in Hc.
  rewrite number_from_fst in Hc. unfold keys in Hc.
  rewrite (filter_map_length f (fun k' => k' <? f (nth (Z.to_nat (snd (nth d S (0, 0)))) used 0))) in Hc.
  exact Hc.
Qed.

Lemma argsort_rank_in : forall srow used d, NoDup (map (key_of srow) used) -> (d < length used)%nat ->
  0 <= nth d (argsort (map (key_of srow) used)) 0 < Z.of_nat (length used) /\
  rank_in srow used (nth (Z.to_nat (nth d (argsort (map (key_of srow) used)) 0)) used 0) = Z.of_nat d.
Proof.
  intros srow used d Hnd Hd.
  destruct (argsort_rank (key_of srow) used d Hnd Hd) as [Hp Hr].
  split; [exact Hp|]. unfold rank_in. rewrite Hr. reflexivity.
Qed.

Lemma select_arc_unique : forall srow used u d, NoDup (map (key_of srow) used) -> In u used ->
  rank_in srow used u = d -> select_arc srow used d = Some u.
Proof.
  intros srow used u d Hnd Hin Hr. unfold select_arc. apply find_unique.
  - exact Hin.
  - lia.
  - intros u' Hin' Hr'. apply (rank_inj (key_of srow) used); try assumption.
    unfold rank_in in *. lia.
Qed.

Theorem code_select_is_spec : forall (srow : list Z) used d,
  NoDup (map (fun u => nth (Z.to_nat u) srow (-1)) used) -> 0 <= d < Z.of_nat (length used) ->
  Forall (fun u => 0 <= u < Z.of_nat (length srow)) used ->
  exists p, nth_error (argsort (pick srow used)) (Z.to_nat d) = Some p /\
            select_arc (Some srow) used d = Some (nth (Z.to_nat p) used 0).
Proof.
  intros srow used d Hnd Hd _.
  change (NoDup (map (key_of (Some srow)) used)) in Hnd.
  change (pick srow used) with (map (key_of (Some srow)) used).
  destruct (argsort_rank_in (Some srow) used (Z.to_nat d) Hnd ltac:(lia)) as [Hp Hr].
  exists (nth (Z.to_nat d) (argsort (map (key_of (Some srow)) used)) 0). split.
  - apply nth_error_nth'. rewrite argsort_length, map_length. lia.
  - apply select_arc_unique; [exact Hnd|apply nth_In; lia|lia].
Qed.

Theorem code_rank_is_spec : forall (srow : list Z) used pos,
  NoDup (map (fun u => nth (Z.to_nat u) srow (-1)) used) -> (pos < length used)%nat ->
  Forall (fun u => 0 <= u < Z.of_nat (length srow)) used ->
  first_pos (Z.of_nat pos) (argsort (pick srow used)) 0 = Some (rank_in (Some srow) used (nth pos used 0)).
Proof.
  intros srow used pos Hnd Hpos _.
  pose proof (argsort_pick_perm srow used) as HP.
  destruct (perm_first_total _ _ HP (Z.of_nat pos) ltac:(lia)) as [rem Hf].
  rewrite Hf. f_equal.
  destruct (perm_first_get _ _ HP _ _ Hf) as [Hrem Hg].
  rewrite (py_get_ok _ rem 0) in Hg
    by (rewrite (Permutation_length HP); unfold zrange; rewrite zrange_from_len; lia).
  inversion Hg as [Hn].
  change (NoDup (map (key_of (Some srow)) used)) in Hnd.
  change (pick srow used) with (map (key_of (Some srow)) used) in Hn.
  destruct (argsort_rank_in (Some srow) used (Z.to_nat rem) Hnd ltac:(lia)) as [_ Hr].
  rewrite Hn in Hr. rewrite Nat2Z.id in Hr. lia.
Qed.

Theorem select_no_table : forall used d, StronglySorted Z.lt used -> 0 <= d < Z.of_nat (length used) ->
  select_arc None used d = Some (nth (Z.to_nat d) used 0) /\ rank_in None used (nth (Z.to_nat d) used 0) = d.
Proof.
  intros used d Hs Hd.
  assert (Hr : rank_in None used (nth (Z.to_nat d) used 0) = d).
  { pose proof (count_sorted_strict (fun u : Z => u) used (Z.to_nat d) 0 Hs ltac:(lia)) as Hc.
    cbv beta in Hc. unfold rank_in, key_of. rewrite Hc. lia. }
  split; [|exact Hr].
  apply select_arc_unique; [|apply nth_In; lia|exact Hr].
  exact (strict_sorted_nodup (key_of None) used Hs).
Qed.

Theorem select_rank_bijection : forall srow used, NoDup (map (key_of srow) used) ->
  (forall d, 0 <= d < Z.of_nat (length used) -> exists u, select_arc srow used d = Some u /\ In u used /\ rank_in srow used u = d) /\
  (forall u, In u used -> 0 <= rank_in srow used u < Z.of_nat (length used) /\ select_arc srow used (rank_in srow used u) = Some u).
Proof.
  intros srow used Hnd. split.
  - intros d Hd.
    destruct (argsort_rank_in srow used (Z.to_nat d) Hnd ltac:(lia)) as [Hp Hr].
    set (u := nth (Z.to_nat (nth (Z.to_nat d) (argsort (map (key_of srow) used)) 0)) used 0) in *.
    assert (Hin : In u used) by (apply nth_In; lia).
    exists u. split; [apply select_arc_unique; [exact Hnd|exact Hin|lia]|].
    split; [exact Hin|lia].
  - intros u Hin. split.
    + unfold rank_in.
      pose proof (filter_length_lt (fun u' => key_of srow u' <? key_of srow u) used u Hin
                    ltac:(apply Z.ltb_irrefl)).
      lia.
    + apply select_arc_unique; [exact Hnd|exact Hin|reflexivity].
Qed.

(* ------------------------------------------------------------------------------------------ *)
(* the exhaustive finite statement named by the property: all 24 permutations x all 15 non-empty
   live-arc patterns: digit -> arc is a bijection onto the pattern (checked by computation, lifted) *)
Definition all_perms4 : list (list Z) :=
  flat_map (fun a => flat_map (fun b => flat_map (fun c => flat_map (fun d =>
    if (negb (a =? b) && negb (a =? c) && negb (a =? d) && negb (b =? c) && negb (b =? d) && negb (c =? d))%bool
    then [[a; b; c; d]] else []) [0;1;2;3]) [0;1;2;3]) [0;1;2;3]) [0;1;2;3].
Definition all_patterns : list (list Z) :=
  filter (fun p => negb (Nat.eqb (length p) 0))
    (flat_map (fun a => flat_map (fun b => flat_map (fun c => map (fun d => a ++ b ++ c ++ d) [[]; [3]]) [[]; [2]]) [[]; [1]]) [[]; [0]]).
Definition digit_to_arc (row pattern : list Z) (d : Z) : Z :=
  nth (Z.to_nat (nth (Z.to_nat d) (argsort (pick row pattern)) 0)) pattern (-1).
Definition check_pair (row pattern : list Z) : bool :=
  let arcs := map (digit_to_arc row pattern) (zrange (length pattern)) in
  forallb (fun a => memZ a pattern) arcs && forallb (fun a => memZ a arcs) pattern
  && Nat.eqb (length (nodup Z.eq_dec arcs)) (length pattern).

Lemma finite_sweep_bool :
  forallb (fun row => forallb (check_pair row) all_patterns) all_perms4 = true.
Proof. vm_compute. reflexivity. Qed.

Theorem finite_sweep : length all_perms4 = 24%nat /\ length all_patterns = 15%nat /\
  forall row pattern, In row all_perms4 -> In pattern all_patterns -> check_pair row pattern = true.
Proof.
  split; [vm_compute; reflexivity|]. split; [vm_compute; reflexivity|].
  intros row pattern Hr Hp. pose proof finite_sweep_bool as H.
  rewrite forallb_forall in H. specialize (H row Hr).
  rewrite forallb_forall in H. exact (H pattern Hp).
Qed.

Print Assumptions argsort_perm.
Print Assumptions argsort_length.
Print Assumptions argsort_sorted.
Print Assumptions shuffle_unshuffle.
Print Assumptions unshuffle_shuffle.
Print Assumptions shuffle_digit_total.
Print Assumptions unshuffle_digit_total.
Print Assumptions code_select_is_spec.
Print Assumptions code_rank_is_spec.
Print Assumptions select_no_table.
Print Assumptions select_rank_bijection.
Print Assumptions finite_sweep.
