(* GeneratedProofs.v -- C04 on the graphs returned by graph generation, and the window half of C02:
   every window (of the observed length) of start k-mer + strand is accepted by the filter the graph was
   generated for, for ANY filter. *)
From Coq Require Import Lia ZifyBool Permutation.
From DSW Require Import Py Bignum Convert Kmer Graph Coder Filter Spec GraphSpec CoderSpec FastSpec FilterSpec.
From DSW.Proofs Require Import KmerProofs GraphProofs BignumProofs ConvertProofs ShuffleProofs VTProofs WalkProofs
     CoderProofs TerminationProofs ComposeProofs GenerateProofs.
Ltac Zify.zify_post_hook ::= Z.to_euclidean_division_equations.

(* All TARGET STATEMENTS are proved below with Qed, exactly as given: generated_wf, encode_total_generated,
   strand_length_generated_t2, strand_length_generated_t4, encode_fast_generated, walk_spells_kmers,
   strand_windows_valid, encoded_windows_valid. *)

(* ======================================================================================== *)
(* what graph generation returns, for every threshold                                       *)
(* ======================================================================================== *)
Lemma gp_core : forall k t mask V acc, (1 <= k)%nat -> length mask = Z.to_nat (pow4 k) -> Forall bit mask -> 1 <= t ->
  connect_coding_graph k mask t = Ok (V, acc) ->
  largest_closed k t (maskb mask) (live_set acc) /\ acc = induced_on k (live_set acc) /\ legal k acc
  /\ (forall v, In v V <-> vin k (live_set acc) v).
Proof.
  intros k t mask V acc Hk Hl Hb Ht Hc.
  destruct (Z.eq_dec t 1) as [E|E].
  - subst t. pose proof (coding_graph_t1 k mask Hk Hl Hb) as H. rewrite Hc in H.
    destruct H as [H1 [H2 [H3 [H4 _]]]]. split; [exact H1|]. split; [exact H2|]. split; [exact H3|exact H4].
  - pose proof (coding_graph_t2 k t mask Hk Hl Hb ltac:(lia)) as H. rewrite Hc in H.
    destruct H as [H1 [H2 [H3 [H4 _]]]]. split; [exact H1|]. split; [exact H2|]. split; [exact H3|exact H4].
Qed.

Theorem generated_wf : forall k t mask V acc v0, (1 <= k)%nat -> length mask = Z.to_nat (pow4 k) -> Forall bit mask -> 1 <= t ->
  connect_coding_graph k mask t = Ok (V, acc) -> In v0 V ->
  legal k acc /\ shaped acc /\ nrows acc = pow4 k /\ wf_from acc v0
  /\ (exists X, closed k t X /\ vsub k X (maskb mask) /\ acc = induced_on k X /\ vin k X v0)
  /\ (2 <= t -> forall v, reach acc v0 v -> t <= radix acc v).
Proof.
  intros k t mask V acc v0 Hk Hl Hb Ht Hc Hin.
  destruct (gp_core k t mask V acc Hk Hl Hb Ht Hc) as [HLC [Hacc [Hleg HV]]].
  remember (live_set acc) as X eqn:HX.
  destruct HLC as [Hcl [Hsub _]].
  assert (Hv0 : vin k X v0) by (apply HV; exact Hin).
  destruct (closed_wf k t X v0 Hk Ht Hcl Hv0) as [Hwf [Hsh Hn]].
  rewrite <- Hacc in Hwf, Hsh, Hn.
  split; [exact Hleg|]. split; [exact Hsh|]. split; [exact Hn|]. split; [exact Hwf|]. split.
  - exists X. split; [exact Hcl|]. split; [exact Hsub|]. split; [exact Hacc|exact Hv0].
  - intros Ht2 v Hr. rewrite Hacc in Hr |- *. apply (closed_all_branching k t X v0 v Hk Ht2 Hcl Hv0 Hr).
Qed.

Lemma gp_wf_in_range : forall acc v0, wf_from acc v0 -> in_range acc v0.
Proof. intros acc v0 Hwf. destruct (Hwf v0 (reach_refl acc v0)) as [Hv _]. exact Hv. Qed.

Theorem encode_total_generated : forall k t mask V acc v0 sh bits, (1 <= k)%nat -> length mask = Z.to_nat (pow4 k) ->
  Forall bit mask -> 1 <= t -> connect_coding_graph k mask t = Ok (V, acc) -> In v0 V ->
  perm_table sh (nrows acc) -> bits_ok bits ->
  exists s, encode_normal (Z.to_nat (Z.of_nat (length bits) * nrows acc)) (bit_to_number_str bits) acc v0 sh = Ok s
            /\ Z.of_nat (length s) <= Z.of_nat (length bits) * nrows acc /\ is_walk acc v0 s.
Proof.
  intros k t mask V acc v0 sh bits Hk Hl Hb Ht Hc Hin Hp Hbits.
  destruct (generated_wf k t mask V acc v0 Hk Hl Hb Ht Hc Hin) as [_ [Hsh [_ [Hwf _]]]].
  destruct (encode_normal_total acc v0 sh bits Hsh Hwf Hp Hbits) as [s [He [Hlen [Hw _]]]].
  exists s. split; [exact He|]. split; [exact Hlen|exact Hw].
Qed.

Theorem strand_length_generated_t2 : forall k t mask V acc v0 sh bits fuel s, (1 <= k)%nat ->
  length mask = Z.to_nat (pow4 k) -> Forall bit mask -> 2 <= t -> connect_coding_graph k mask t = Ok (V, acc) -> In v0 V ->
  perm_table sh (nrows acc) -> bits_ok bits ->
  encode_normal fuel (bit_to_number_str bits) acc v0 sh = Ok s -> (length s <= length bits)%nat.
Proof.
  intros k t mask V acc v0 sh bits fuel s Hk Hl Hb Ht Hc Hin Hp Hbits He.
  destruct (generated_wf k t mask V acc v0 Hk Hl Hb ltac:(lia) Hc Hin) as [_ [Hsh [_ [Hwf [_ Hall]]]]].
  apply (strand_length_t2 fuel acc v0 sh bits s Hsh (gp_wf_in_range acc v0 Hwf) Hp Hbits); [|exact He].
  intros v Hr. specialize (Hall Ht v Hr). lia.
Qed.

Theorem strand_length_generated_t4 : forall k mask V acc v0 sh bits fuel s, (1 <= k)%nat ->
  length mask = Z.to_nat (pow4 k) -> Forall bit mask -> connect_coding_graph k mask 4 = Ok (V, acc) -> In v0 V ->
  perm_table sh (nrows acc) -> bits_ok bits ->
  encode_normal fuel (bit_to_number_str bits) acc v0 sh = Ok s -> (2 * length s <= length bits + 1)%nat.
Proof.
  intros k mask V acc v0 sh bits fuel s Hk Hl Hb Hc Hin Hp Hbits He.
  destruct (generated_wf k 4 mask V acc v0 Hk Hl Hb ltac:(lia) Hc Hin) as [_ [Hsh [_ [Hwf [_ Hall]]]]].
  apply (strand_length_complete fuel acc v0 sh bits s Hsh (gp_wf_in_range acc v0 Hwf) Hp Hbits); [|exact He].
  intros v Hr. apply (Hall ltac:(lia) v Hr).
Qed.

Theorem encode_fast_generated : forall k t mask V acc v0 sh bits, (1 <= k)%nat -> length mask = Z.to_nat (pow4 k) ->
  Forall bit mask -> 1 <= t -> connect_coding_graph k mask t = Ok (V, acc) -> In v0 V ->
  perm_table sh (nrows acc) -> bits_ok bits -> no_outdeg3 acc ->
  exists s, encode_fast (Z.to_nat (Z.of_nat (length bits) * nrows acc)) bits acc v0 sh = Ok s /\ is_walk acc v0 s
            /\ (bits_carried acc v0 s = Z.of_nat (length bits) \/ bits_carried acc v0 s = Z.of_nat (length bits) + 1).
Proof.
  intros k t mask V acc v0 sh bits Hk Hl Hb Ht Hc Hin Hp Hbits Hno.
  destruct (generated_wf k t mask V acc v0 Hk Hl Hb Ht Hc Hin) as [_ [Hsh [_ [Hwf _]]]].
  pose proof (gp_wf_in_range acc v0 Hwf) as Hv.
  destruct (ref_encode_fast_total acc v0 sh bits Hsh Hwf Hp Hno Hbits) as (s & He & _).
  rewrite <- encode_fast_refines in He by assumption.
  destruct (encode_fast_walk _ bits acc v0 sh s Hsh Hv (perm_table_shape _ _ Hp) Hbits He) as [Hw Hbc].
  exists s. split; [exact He|]. split; [exact Hw|exact Hbc].
Qed.

(* ======================================================================================== *)
(* C02, window half                                                                         *)
(* ======================================================================================== *)
Lemma gp_kmer_string_length : forall k v, 0 <= v < pow4 k -> length (kmer_string k v) = k.
Proof.
  intros k v Hv. destruct (kmer_string_spec k v Hv) as [km [[Hl _] [_ E]]].
  rewrite E, map_length. exact Hl.
Qed.

Lemma gp_nth4 : forall j, 0 <= j < 4 -> nth (Z.to_nat j) [0; 1; 2; 3] 0 = j.
Proof.
  intros j Hj. assert (H : j = 0 \/ j = 1 \/ j = 2 \/ j = 3) by lia.
  destruct H as [ -> | [ -> | [ -> | -> ] ] ]; reflexivity.
Qed.

(* the k-mer of the j-th shift successor: drop the first letter, append letter j *)
Lemma gp_kmer_step : forall k v j, (1 <= k)%nat -> 0 <= v < pow4 k -> 0 <= j < 4 ->
  kmer_string k ((4 * v + j) mod pow4 k) = tl (kmer_string k v) ++ [nuc_char j].
Proof.
  intros k v j Hk Hv Hj.
  destruct (kmer_string_spec k v Hv) as [km [Hkm [Hi E]]].
  pose proof (latters_spec k km Hk Hkm) as HL. rewrite Hi in HL.
  apply (f_equal (fun l => nth (Z.to_nat j) l (-1))) in HL.
  rewrite nth_latters in HL by exact Hj.
  rewrite (nth_map_lt _ _ (fun c => kmer_index (tl km ++ [c])) _ _ (-1) 0) in HL by (cbn [length]; lia).
  rewrite gp_nth4 in HL by exact Hj.
  set (w := (4 * v + j) mod pow4 k) in *.
  assert (Hkm' : is_kmer k (tl km ++ [j])).
  { destruct Hkm as [Hlen HF]. split.
    - rewrite app_length. cbn [length]. destruct km; cbn [length tl] in *; lia.
    - apply Forall_app. split.
      + destruct km; [constructor|]. inversion HF; assumption.
      + constructor; [exact Hj|constructor]. }
  assert (Hw : 0 <= w < pow4 k) by (apply Z.mod_pos_bound, pow4_pos).
  destruct (kmer_string_spec k w Hw) as [km' [Hkm2 [Hi2 E2]]].
  assert (Heq : km' = tl km ++ [j]) by (apply (kmer_index_inj k); [assumption|assumption|congruence]).
  subst km'. rewrite E2, E, map_app. cbn [map]. destruct km; reflexivity.
Qed.

Lemma gp_firstn_app_exact : forall (l1 l2 : list Z) n, length l1 = n -> firstn n (l1 ++ l2) = l1.
Proof.
  intros l1 l2 n H. subst n. rewrite firstn_app, Nat.sub_diag, firstn_all. cbn [firstn]. apply app_nil_r.
Qed.

Lemma gp_legal_arc : forall k acc v j, legal k acc -> 0 <= v < pow4 k -> 0 <= j < 4 -> 0 <= entry acc v j ->
  entry acc v j = (4 * v + j) mod pow4 k.
Proof.
  intros k acc v j [_ [_ He]] Hv Hj H0. destruct (He v j Hv Hj) as [E|E]; [lia|exact E].
Qed.

Lemma gp_walk_spells : forall k acc, (1 <= k)%nat -> legal k acc ->
  forall i v0 s, 0 <= v0 < pow4 k -> is_walk acc v0 s -> (i <= length s)%nat ->
  kmer_string k (walk_end acc v0 (firstn i s)) = window k i (kmer_string k v0 ++ s)
  /\ 0 <= walk_end acc v0 (firstn i s) < pow4 k.
Proof.
  intros k acc Hk Hleg. induction i as [|i IH]; intros v0 s Hv Hw Hi.
  - cbn [firstn walk_end]. split; [|exact Hv]. unfold window. cbn [skipn].
    symmetry. apply gp_firstn_app_exact. apply gp_kmer_string_length. exact Hv.
  - destruct s as [|c rest]; [cbn [length] in Hi; lia|].
    cbn [is_walk] in Hw. destruct Hw as (j & Hn & _ & He & Hw).
    destruct (VTProofs.nuc_index_some c j Hn) as (Hj & Hc & _). unfold nuc in Hj.
    cbn [firstn walk_end]. rewrite Hn.
    pose proof (gp_legal_arc k acc v0 j Hleg Hv Hj He) as Ee.
    assert (Hr : 0 <= entry acc v0 j < pow4 k) by (rewrite Ee; apply Z.mod_pos_bound, pow4_pos).
    cbn [length] in Hi.
    destruct (IH (entry acc v0 j) rest Hr Hw ltac:(lia)) as [IH1 IH2].
    split; [|exact IH2]. rewrite IH1, Ee, gp_kmer_step by assumption.
    unfold window. pose proof (gp_kmer_string_length k v0 Hv) as HK.
    destruct (kmer_string k v0) as [|x K]; [cbn [length] in HK; lia|].
    cbn [tl app skipn]. rewrite <- app_assoc. cbn [app]. rewrite Hc. reflexivity.
Qed.

Theorem walk_spells_kmers : forall k acc v0 s i, (1 <= k)%nat -> legal k acc -> 0 <= v0 < pow4 k -> is_walk acc v0 s ->
  (i <= length s)%nat ->
  kmer_string k (walk_end acc v0 (firstn i s)) = window k i (kmer_string k v0 ++ s)
  /\ 0 <= walk_end acc v0 (firstn i s) < pow4 k.
Proof.
  intros k acc v0 s i Hk Hleg Hv Hw Hi. apply (gp_walk_spells k acc Hk Hleg i v0 s Hv Hw Hi).
Qed.

Lemma gp_walk_reach : forall acc i v s, is_walk acc v s -> reach acc v (walk_end acc v (firstn i s)).
Proof.
  intros acc. induction i as [|i IH]; intros v s Hw.
  - cbn [firstn walk_end]. apply reach_refl.
  - destruct s as [|c rest]; [cbn [firstn walk_end]; apply reach_refl|].
    cbn [is_walk] in Hw. destruct Hw as (j & Hn & _ & He & Hw).
    destruct (VTProofs.nuc_index_some c j Hn) as (Hj & _ & _). unfold nuc in Hj.
    cbn [firstn walk_end]. rewrite Hn.
    apply (reach_step acc v j _ Hj He). apply IH. exact Hw.
Qed.

(* the mask returned by find_vertices: 0/1 entries marking exactly the accepted k-mers *)
Lemma gp_find_mask : forall k f mask, find_vertices k f = Ok mask ->
  length mask = Z.to_nat (pow4 k) /\ Forall bit mask
  /\ forall v, 0 <= v < pow4 k -> maskb mask v = f (kmer_string k v).
Proof.
  intros k f mask Hf. pose proof (find_vertices_spec k f) as H. rewrite Hf in H.
  destruct H as [Hl [Hn _]]. split; [exact Hl|]. split.
  - apply Forall_forall. intros x Hx. destruct (In_nth _ _ 0 Hx) as [i [Hi E]].
    specialize (Hn (Z.of_nat i) ltac:(lia)). rewrite Nat2Z.id, E in Hn.
    destruct (f (kmer_string k (Z.of_nat i))); [right|left]; exact Hn.
  - intros v Hv. unfold maskb. rewrite (Hn v Hv). destruct (f (kmer_string k v)); reflexivity.
Qed.

Theorem strand_windows_valid : forall k (f : list Z -> bool) mask t V acc v0 s, (1 <= k)%nat -> 1 <= t ->
  find_vertices k f = Ok mask -> connect_coding_graph k mask t = Ok (V, acc) -> In v0 V -> is_walk acc v0 s ->
  forall i, (i <= length s)%nat -> f (window k i (kmer_string k v0 ++ s)) = true.
Proof.
  intros k f mask t V acc v0 s Hk Ht Hf Hc Hin Hw i Hi.
  destruct (gp_find_mask k f mask Hf) as [Hl [Hb Hm]].
  destruct (generated_wf k t mask V acc v0 Hk Hl Hb Ht Hc Hin) as [Hleg [_ [_ [_ [[X [Hcl [Hsub [Hacc Hv0]]]] _]]]]].
  destruct (walk_spells_kmers k acc v0 s i Hk Hleg (proj1 Hv0) Hw Hi) as [E Hr].
  rewrite <- E.
  pose proof (gp_walk_reach acc i v0 s Hw) as Hreach.
  set (w := walk_end acc v0 (firstn i s)) in *. clearbody w.
  rewrite Hacc in Hreach.
  pose proof (induced_on_reach_vin k X v0 w Hreach Hv0) as Hvin.
  apply Hsub in Hvin. destruct Hvin as [Hr' Hm']. rewrite (Hm w Hr') in Hm'. exact Hm'.
Qed.

Theorem encoded_windows_valid : forall k (f : list Z -> bool) mask t V acc v0 sh bits fuel s faster, (1 <= k)%nat -> 1 <= t ->
  find_vertices k f = Ok mask -> connect_coding_graph k mask t = Ok (V, acc) -> In v0 V ->
  perm_table sh (nrows acc) -> bits_ok bits ->
  (if faster : bool then encode_fast fuel bits acc v0 sh else encode_normal fuel (bit_to_number_str bits) acc v0 sh) = Ok s ->
  forall i, (i <= length s)%nat -> f (window k i (kmer_string k v0 ++ s)) = true.
Proof.
  intros k f mask t V acc v0 sh bits fuel s faster Hk Ht Hf Hc Hin Hp Hbits He i Hi.
  destruct (gp_find_mask k f mask Hf) as [Hl [Hb _]].
  destruct (generated_wf k t mask V acc v0 Hk Hl Hb Ht Hc Hin) as [_ [Hsh [_ [Hwf _]]]].
  pose proof (gp_wf_in_range acc v0 Hwf) as Hv.
  assert (Hw : is_walk acc v0 s).
  { destruct faster.
    - destruct (encode_fast_walk fuel bits acc v0 sh s Hsh Hv (perm_table_shape _ _ Hp) Hbits He) as [Hw _]. exact Hw.
    - destruct (bit_to_number_str_spec bits Hbits) as [Hcan Hval].
      rewrite encode_normal_refines in He by assumption. rewrite Hval in He.
      pose proof (rval2_bound bits Hbits) as Hbd.
      destruct (ref_encode_sound fuel (rval 2 bits) acc v0 sh s Hsh Hv Hp (proj1 Hbd) He) as [Hw _]. exact Hw. }
  apply (strand_windows_valid k f mask t V acc v0 s Hk Ht Hf Hc Hin Hw i Hi).
Qed.

Print Assumptions generated_wf.
Print Assumptions encode_total_generated.
Print Assumptions strand_length_generated_t2.
Print Assumptions strand_length_generated_t4.
Print Assumptions encode_fast_generated.
Print Assumptions walk_spells_kmers.
Print Assumptions strand_windows_valid.
Print Assumptions encoded_windows_valid.
