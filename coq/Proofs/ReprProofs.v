(* ReprProofs.v -- C14: the three graph representations (accessor, latter map, adjacency matrix)
   are interchangeable for EVERY arc subset of a de Bruijn graph (legal accessor). *)
From Coq Require Import Lia ZifyBool Sorting.Sorted Permutation.
From DSW Require Import Py Bignum Convert Kmer Graph Spec GraphSpec.
From DSW.Proofs Require Import KmerProofs.
Ltac Zify.zify_post_hook ::= Z.to_euclidean_division_equations.

(* TARGET STATEMENTS (to be proved, do not change the statements):

(* vertex listing: exactly the vertices that have arcs, ascending *)
Theorem obtain_vertices_spec : forall k acc, legal k acc ->
  StronglySorted Z.lt (obtain_vertices acc) /\
  forall v, In v (obtain_vertices acc) <-> (0 <= v < pow4 k /\ live acc v).

(* the latter map lists exactly the live successors of exactly the vertices that have any *)
Theorem latter_map_content : forall k acc, legal k acc ->
  StronglySorted Z.lt (keys (accessor_to_latter_map acc)) /\
  forall v, lookup (accessor_to_latter_map acc) v =
            if (0 <=? v) && (v <? pow4 k) && row_listed (get_row acc v)
            then Some (live_entries (get_row acc v)) else None.
Theorem latter_map_roundtrip : forall k acc, legal k acc ->
  latter_map_to_accessor (accessor_to_latter_map acc) k None = Ok acc.

(* adjacency matrix *)
Theorem log4_pow4 : forall k, log4 (pow4 k) = k.
Theorem matrix_content : forall k acc maxlen, legal k acc -> (k < maxlen)%nat ->
  exists M, accessor_to_adjacency_matrix acc maxlen = Ok M /\ length M = Z.to_nat (pow4 k) /\
    forall u v, 0 <= u < pow4 k -> 0 <= v < pow4 k ->
      (nth (Z.to_nat v) (nth (Z.to_nat u) M []) 0 = 1 <-> exists j, 0 <= j < 4 /\ entry acc u j = v) /\
      (nth (Z.to_nat v) (nth (Z.to_nat u) M []) 0 = 1 \/ nth (Z.to_nat v) (nth (Z.to_nat u) M []) 0 = 0).
Theorem matrix_roundtrip : forall k acc maxlen, (1 <= k)%nat -> legal k acc -> (k < maxlen)%nat ->
  exists M, accessor_to_adjacency_matrix acc maxlen = Ok M /\ adjacency_matrix_to_accessor M = Ok acc.
(* a matrix with a 1 that is not on a de Bruijn shift is rejected with ValueError *)
Theorem matrix_reject : forall k M, (1 <= k)%nat -> length M = Z.to_nat (pow4 k) ->
  (exists u v, 0 <= u < pow4 k /\ 0 <= v /\ nth (Z.to_nat v) (nth (Z.to_nat u) M []) 0 = 1
               /\ ~ In v (obtain_latters u k)) ->
  adjacency_matrix_to_accessor M = Raise ValueError.

(* depth-d leaf queries: same list from either representation, equal to the end points of all
   d-step walks (enumerated depth-first in column order) *)
Fixpoint walk_ends (acc : accessor) (d : nat) (v : Z) : list Z :=
  match d with
  | O => [v]
  | S d' => flat_map (walk_ends acc d') (live_entries (get_row acc v))
  end.
Theorem leaves_agree : forall k acc d v, legal k acc -> 0 <= v < pow4 k ->
  leaves_acc d acc [v] = Ok (leaves_map d (accessor_to_latter_map acc) [v]).
Theorem leaves_are_walk_ends : forall k acc d v, legal k acc -> 0 <= v < pow4 k ->
  leaves_acc d acc [v] = Ok (walk_ends acc d v).
*)

(* ---- basics --------------------------------------------------------------------------- *)
Lemma row4_inv : forall r : list Z, length r = 4%nat -> exists a b c d, r = [a; b; c; d].
Proof.
  intros r H. destruct r as [|a [|b [|c [|d [|e r]]]]]; cbn [length] in H; try lia.
  exists a, b, c, d. reflexivity.
Qed.

Definition good_row (k : nat) (v : Z) (row : list Z) : Prop :=
  exists a b c d, row = [a; b; c; d] /\
    (a = -1 \/ a = (4 * v + 0) mod pow4 k) /\ (b = -1 \/ b = (4 * v + 1) mod pow4 k) /\
    (c = -1 \/ c = (4 * v + 2) mod pow4 k) /\ (d = -1 \/ d = (4 * v + 3) mod pow4 k).

Lemma legal_len : forall k acc, legal k acc -> Z.of_nat (length acc) = pow4 k.
Proof. intros k acc [Hlen _]. pose proof (pow4_pos k). rewrite Hlen. lia. Qed.

Lemma legal_good_row : forall k acc v, legal k acc -> 0 <= v < pow4 k -> good_row k v (get_row acc v).
Proof.
  intros k acc v [Hlen [Hr Hent]] Hv.
  assert (Hl : length (get_row acc v) = 4%nat).
  { unfold rows4 in Hr. rewrite Forall_forall in Hr. apply Hr. unfold get_row. apply nth_In. lia. }
  destruct (row4_inv _ Hl) as [a [b [c [d E]]]].
  exists a, b, c, d. split; [exact E|].
  pose proof (Hent v 0 Hv ltac:(lia)) as H0. pose proof (Hent v 1 Hv ltac:(lia)) as H1.
  pose proof (Hent v 2 Hv ltac:(lia)) as H2. pose proof (Hent v 3 Hv ltac:(lia)) as H3.
  unfold entry in H0, H1, H2, H3. rewrite E in H0, H1, H2, H3.
  change (Z.to_nat 0) with 0%nat in H0. change (Z.to_nat 1) with 1%nat in H1.
  change (Z.to_nat 2) with 2%nat in H2. change (Z.to_nat 3) with 3%nat in H3.
  cbn [nth] in H0, H1, H2, H3. tauto.
Qed.

Lemma nth_shift : forall (A : Type) (x : A) t d v s, s < v ->
  nth (Z.to_nat (v - s)) (x :: t) d = nth (Z.to_nat (v - (s + 1))) t d.
Proof.
  intros A x t d v s H. replace (Z.to_nat (v - s)) with (S (Z.to_nat (v - (s + 1)))) by lia.
  reflexivity.
Qed.

(* ---- listed_from / lmap_from ------------------------------------------------------------ *)
Lemma listed_from_In : forall acc s v, In v (listed_from acc s) <->
  (s <= v < s + Z.of_nat (length acc) /\ row_listed (nth (Z.to_nat (v - s)) acc empty_row) = true).
Proof.
  induction acc as [|row t IH]; intros s v.
  - cbn [listed_from In length]. split; [tauto|]. intros [H _]. lia.
  - cbn [listed_from length]. rewrite Nat2Z.inj_succ.
    destruct (Z.eq_dec v s) as [->|Hne].
    + replace (s - s) with 0 by lia. change (Z.to_nat 0) with 0%nat. cbn [nth].
      destruct (row_listed row) eqn:E.
      * cbn [In]. split; [intros _; split; [lia|reflexivity] | intros _; left; reflexivity].
      * rewrite IH. split; [intros [H _]; lia | intros [_ H]; discriminate].
    + destruct (row_listed row) eqn:E; cbn [In]; rewrite IH.
      * split.
        -- intros [H|[H1 H2]]; [congruence|]. rewrite nth_shift by lia. split; [lia|exact H2].
        -- intros [H1 H2]. right. rewrite nth_shift in H2 by lia. split; [lia|exact H2].
      * split.
        -- intros [H1 H2]. rewrite nth_shift by lia. split; [lia|exact H2].
        -- intros [H1 H2]. rewrite nth_shift in H2 by lia. split; [lia|exact H2].
Qed.

Lemma listed_from_sorted : forall acc s, StronglySorted Z.lt (listed_from acc s).
Proof.
  induction acc as [|row t IH]; intros s; cbn [listed_from].
  - constructor.
  - destruct (row_listed row); [|apply IH].
    constructor; [apply IH|]. rewrite Forall_forall. intros x Hx.
    apply listed_from_In in Hx. lia.
Qed.

Lemma keys_lmap_from : forall acc s, keys (lmap_from acc s) = listed_from acc s.
Proof.
  induction acc as [|row t IH]; intros s; cbn [lmap_from listed_from]; [reflexivity|].
  destruct (row_listed row); [|apply IH].
  unfold keys in *. cbn [map fst]. rewrite IH. reflexivity.
Qed.

Lemma lmap_from_lookup : forall acc s v, lookup (lmap_from acc s) v =
  if (s <=? v) && (v <? s + Z.of_nat (length acc)) && row_listed (nth (Z.to_nat (v - s)) acc empty_row)
  then Some (live_entries (nth (Z.to_nat (v - s)) acc empty_row)) else None.
Proof.
  induction acc as [|row t IH]; intros s v.
  - cbn [lmap_from lookup length].
    destruct (s <=? v) eqn:E1, (v <? s + Z.of_nat 0) eqn:E2; cbn [andb]; try reflexivity. lia.
  - cbn [lmap_from length].
    assert (Hgen : s <> v -> lookup (lmap_from t (s + 1)) v =
      if (s <=? v) && (v <? s + Z.of_nat (S (length t))) && row_listed (nth (Z.to_nat (v - s)) (row :: t) empty_row)
      then Some (live_entries (nth (Z.to_nat (v - s)) (row :: t) empty_row)) else None).
    { intros Hne. rewrite IH. destruct (Z_lt_le_dec s v) as [Hlt|Hge].
      - rewrite (nth_shift _ row t empty_row v s Hlt).
        replace (s + 1 <=? v) with (s <=? v) by lia.
        replace (v <? s + 1 + Z.of_nat (length t)) with (v <? s + Z.of_nat (S (length t))) by lia.
        reflexivity.
      - replace (s + 1 <=? v) with false by lia. replace (s <=? v) with false by lia. reflexivity. }
    destruct (Z.eq_dec s v) as [->|Hne].
    + replace (v - v) with 0 by lia. change (Z.to_nat 0) with 0%nat. cbn [nth].
      destruct (row_listed row) eqn:E.
      * cbn [lookup]. rewrite Z.eqb_refl.
        replace (v <=? v) with true by lia.
        replace (v <? v + Z.of_nat (S (length t))) with true by lia. reflexivity.
      * rewrite IH. replace (v + 1 <=? v) with false by lia. rewrite andb_false_r. reflexivity.
    + destruct (row_listed row) eqn:E.
      * cbn [lookup]. replace (s =? v) with false by lia. apply Hgen. exact Hne.
      * apply Hgen. exact Hne.
Qed.

(* ---- rows of a legal accessor -------------------------------------------------------------- *)
Lemma good_row_listed_live : forall k acc v, legal k acc -> 0 <= v < pow4 k ->
  (row_listed (get_row acc v) = true <-> live acc v).
Proof.
  intros k acc v HL Hv. pose proof (pow4_pos k) as Hp.
  destruct (legal_good_row k acc v HL Hv) as [a [b [c [d [E [Ha [Hb [Hc Hd]]]]]]]].
  assert (Ma := Z.mod_pos_bound (4 * v + 0) (pow4 k) Hp).
  assert (Mb := Z.mod_pos_bound (4 * v + 1) (pow4 k) Hp).
  assert (Mc := Z.mod_pos_bound (4 * v + 2) (pow4 k) Hp).
  assert (Md := Z.mod_pos_bound (4 * v + 3) (pow4 k) Hp).
  set (ra := (4 * v + 0) mod pow4 k) in *. set (rb := (4 * v + 1) mod pow4 k) in *.
  set (rc := (4 * v + 2) mod pow4 k) in *. set (rd := (4 * v + 3) mod pow4 k) in *.
  clearbody ra rb rc rd.
  unfold live, entry. rewrite E. unfold row_listed. cbn [existsb]. split.
  - intros H.
    destruct (a =? -1) eqn:Ea; [|exists 0; split; [lia|]; change (Z.to_nat 0) with 0%nat; cbn [nth]; lia].
    destruct (b =? -1) eqn:Eb; [|exists 1; split; [lia|]; change (Z.to_nat 1) with 1%nat; cbn [nth]; lia].
    destruct (c =? -1) eqn:Ec; [|exists 2; split; [lia|]; change (Z.to_nat 2) with 2%nat; cbn [nth]; lia].
    destruct (d =? -1) eqn:Ed; [|exists 3; split; [lia|]; change (Z.to_nat 3) with 3%nat; cbn [nth]; lia].
    cbn in H. discriminate.
  - intros [j [Hj Hge]].
    assert (Hc4 : j = 0 \/ j = 1 \/ j = 2 \/ j = 3) by lia.
    destruct Hc4 as [H|[H|[H|H]]]; subst j.
    + change (Z.to_nat 0) with 0%nat in Hge. cbn [nth] in Hge. replace (a =? -1) with false by lia. reflexivity.
    + change (Z.to_nat 1) with 1%nat in Hge. cbn [nth] in Hge. replace (b =? -1) with false by lia.
      cbn [negb]. rewrite !orb_true_r. reflexivity.
    + change (Z.to_nat 2) with 2%nat in Hge. cbn [nth] in Hge. replace (c =? -1) with false by lia.
      cbn [negb]. rewrite !orb_true_r. reflexivity.
    + change (Z.to_nat 3) with 3%nat in Hge. cbn [nth] in Hge. replace (d =? -1) with false by lia.
      cbn [negb]. rewrite !orb_true_r. reflexivity.
Qed.

(* ---- targets: vertex listing and latter map ------------------------------------------------ *)
Theorem obtain_vertices_spec : forall k acc, legal k acc ->
  StronglySorted Z.lt (obtain_vertices acc) /\
  forall v, In v (obtain_vertices acc) <-> (0 <= v < pow4 k /\ live acc v).
Proof.
  intros k acc HL. split; [apply listed_from_sorted|].
  intros v. unfold obtain_vertices. rewrite listed_from_In.
  rewrite (legal_len k acc HL). replace (v - 0) with v by lia. split.
  - intros [H1 H2]. split; [lia|]. apply (good_row_listed_live k acc v HL); [lia|exact H2].
  - intros [H1 H2]. split; [lia|]. apply (good_row_listed_live k acc v HL); [lia|exact H2].
Qed.

Theorem latter_map_content : forall k acc, legal k acc ->
  StronglySorted Z.lt (keys (accessor_to_latter_map acc)) /\
  forall v, lookup (accessor_to_latter_map acc) v =
            if (0 <=? v) && (v <? pow4 k) && row_listed (get_row acc v)
            then Some (live_entries (get_row acc v)) else None.
Proof.
  intros k acc HL. unfold accessor_to_latter_map. split.
  - rewrite keys_lmap_from. apply listed_from_sorted.
  - intros v. rewrite lmap_from_lookup. rewrite (legal_len k acc HL).
    replace (v - 0) with v by lia. replace (0 + pow4 k) with (pow4 k) by lia. reflexivity.
Qed.
