(* ReprProofs.v -- C14: the three graph representations (accessor, latter map, adjacency matrix)
   are interchangeable for EVERY arc subset of a de Bruijn graph (legal accessor). *)
From Coq Require Import Lia ZifyBool Sorting.Sorted Permutation.
From DSW Require Import Py Bignum Convert Kmer Graph Spec GraphSpec.
From DSW.Proofs Require Import KmerProofs.
Ltac Zify.zify_post_hook ::= Z.to_euclidean_division_equations.

(* TARGET STATEMENTS: all proved below exactly as stated, except latter_map_roundtrip, which is
   false of the model for k = 0 (see latter_map_roundtrip_counterexample); it is proved for
   1 <= k as latter_map_roundtrip_partial and the original statement is kept in a comment there. *)

(* ---- basics --------------------------------------------------------------------------- *)
Lemma row4_inv : forall r : list Z, length r = 4%nat -> exists a b c d, r = [a; b; c; d].
Proof.
  intros r H. destruct r as [|a [|b [|c [|d [|e r]]]]]; cbn [length] in H; try lia.
  exists a, b, c, d. reflexivity.
Qed.

Definition good_row (k : nat) (v : Z) (row : list Z) : Prop :=
  exists a b c d, row = [a; b; c; d] /\
    (a = -1 \/ a = (4 * v + 0) mod pow4 k) /\ (b = -1 \/ b = (4 * v + 1) mod pow4 k) /\
    (c = -1 \/ c = (4 * v + 2) mod pow4 k) /\ (d = -1 \/ d = (4 * v + 3) mod pow4 k).

Lemma legal_len : forall k acc, legal k acc -> Z.of_nat (length acc) = pow4 k.
Proof. intros k acc [Hlen _]. pose proof (pow4_pos k). rewrite Hlen. lia. Qed.

Lemma legal_good_row : forall k acc v, legal k acc -> 0 <= v < pow4 k -> good_row k v (get_row acc v).
Proof.
  intros k acc v [Hlen [Hr Hent]] Hv.
  assert (Hl : length (get_row acc v) = 4%nat).
  { unfold rows4 in Hr. rewrite Forall_forall in Hr. apply Hr. unfold get_row. apply nth_In. lia. }
  destruct (row4_inv _ Hl) as [a [b [c [d E]]]].
  exists a, b, c, d. split; [exact E|].
  pose proof (Hent v 0 Hv ltac:(lia)) as H0. pose proof (Hent v 1 Hv ltac:(lia)) as H1.
  pose proof (Hent v 2 Hv ltac:(lia)) as H2. pose proof (Hent v 3 Hv ltac:(lia)) as H3.
  unfold entry in H0, H1, H2, H3. rewrite E in H0, H1, H2, H3.
  change (Z.to_nat 0) with 0%nat in H0. change (Z.to_nat 1) with 1%nat in H1.
  change (Z.to_nat 2) with 2%nat in H2. change (Z.to_nat 3) with 3%nat in H3.
  cbn [nth] in H0, H1, H2, H3. tauto.
Qed.

Lemma nth_shift : forall (A : Type) (x : A) t d v s, s < v ->
  nth (Z.to_nat (v - s)) (x :: t) d = nth (Z.to_nat (v - (s + 1))) t d.
Proof.
  intros A x t d v s H. replace (Z.to_nat (v - s)) with (S (Z.to_nat (v - (s + 1)))) by lia.
  reflexivity.
Qed.

(* ---- listed_from / lmap_from ------------------------------------------------------------ *)
Lemma listed_from_In : forall acc s v, In v (listed_from acc s) <->
  (s <= v < s + Z.of_nat (length acc) /\ row_listed (nth (Z.to_nat (v - s)) acc empty_row) = true).
Proof.
  induction acc as [|row t IH]; intros s v.
  - cbn [listed_from In length]. split; [tauto|]. intros [H _]. lia.
  - cbn [listed_from length]. rewrite Nat2Z.inj_succ.
    destruct (Z.eq_dec v s) as [->|Hne].
    + replace (s - s) with 0 by lia. change (Z.to_nat 0) with 0%nat. cbn [nth].
      destruct (row_listed row) eqn:E.
      * cbn [In]. split; [intros _; split; [lia|reflexivity] | intros _; left; reflexivity].
      * rewrite IH. split; [intros [H _]; lia | intros [_ H]; discriminate].
    + destruct (row_listed row) eqn:E; cbn [In]; rewrite IH.
      * split.
        -- intros [H|[H1 H2]]; [congruence|]. rewrite nth_shift by lia. split; [lia|exact H2].
        -- intros [H1 H2]. right. rewrite nth_shift in H2 by lia. split; [lia|exact H2].
      * split.
        -- intros [H1 H2]. rewrite nth_shift by lia. split; [lia|exact H2].
        -- intros [H1 H2]. rewrite nth_shift in H2 by lia. split; [lia|exact H2].
Qed.

Lemma listed_from_sorted : forall acc s, StronglySorted Z.lt (listed_from acc s).
Proof.
  induction acc as [|row t IH]; intros s; cbn [listed_from].
  - constructor.
  - destruct (row_listed row); [|apply IH].
    constructor; [apply IH|]. rewrite Forall_forall. intros x Hx.
    apply listed_from_In in Hx. lia.
Qed.

Lemma keys_lmap_from : forall acc s, keys (lmap_from acc s) = listed_from acc s.
Proof.
  induction acc as [|row t IH]; intros s; cbn [lmap_from listed_from]; [reflexivity|].
  destruct (row_listed row); [|apply IH].
  unfold keys in *. cbn [map fst]. rewrite IH. reflexivity.
Qed.

Lemma lmap_from_lookup : forall acc s v, lookup (lmap_from acc s) v =
  if (s <=? v) && (v <? s + Z.of_nat (length acc)) && row_listed (nth (Z.to_nat (v - s)) acc empty_row)
  then Some (live_entries (nth (Z.to_nat (v - s)) acc empty_row)) else None.
Proof.
  induction acc as [|row t IH]; intros s v.
  - cbn [lmap_from lookup length].
    destruct (s <=? v) eqn:E1, (v <? s + Z.of_nat 0) eqn:E2; cbn [andb]; try reflexivity. lia.
  - cbn [lmap_from length].
    assert (Hgen : s <> v -> lookup (lmap_from t (s + 1)) v =
      if (s <=? v) && (v <? s + Z.of_nat (S (length t))) && row_listed (nth (Z.to_nat (v - s)) (row :: t) empty_row)
      then Some (live_entries (nth (Z.to_nat (v - s)) (row :: t) empty_row)) else None).
    { intros Hne. rewrite IH. destruct (Z_lt_le_dec s v) as [Hlt|Hge].
      - rewrite (nth_shift _ row t empty_row v s Hlt).
        replace (s + 1 <=? v) with (s <=? v) by lia.
        replace (v <? s + 1 + Z.of_nat (length t)) with (v <? s + Z.of_nat (S (length t))) by lia.
        reflexivity.
      - replace (s + 1 <=? v) with false by lia. replace (s <=? v) with false by lia. reflexivity. }
    destruct (Z.eq_dec s v) as [->|Hne].
    + replace (v - v) with 0 by lia. change (Z.to_nat 0) with 0%nat. cbn [nth].
      destruct (row_listed row) eqn:E.
      * cbn [lookup]. rewrite Z.eqb_refl.
        replace (v <=? v) with true by lia.
        replace (v <? v + Z.of_nat (S (length t))) with true by lia. reflexivity.
      * rewrite IH. replace (v + 1 <=? v) with false by lia. rewrite andb_false_r. reflexivity.
    + destruct (row_listed row) eqn:E.
      * cbn [lookup]. replace (s =? v) with false by lia. apply Hgen. exact Hne.
      * apply Hgen. exact Hne.
Qed.

(* ---- rows of a legal accessor -------------------------------------------------------------- *)
Lemma good_row_listed_live : forall k acc v, legal k acc -> 0 <= v < pow4 k ->
  (row_listed (get_row acc v) = true <-> live acc v).
Proof.
  intros k acc v HL Hv. pose proof (pow4_pos k) as Hp.
  destruct (legal_good_row k acc v HL Hv) as [a [b [c [d [E [Ha [Hb [Hc Hd]]]]]]]].
  assert (Ma := Z.mod_pos_bound (4 * v + 0) (pow4 k) Hp).
  assert (Mb := Z.mod_pos_bound (4 * v + 1) (pow4 k) Hp).
  assert (Mc := Z.mod_pos_bound (4 * v + 2) (pow4 k) Hp).
  assert (Md := Z.mod_pos_bound (4 * v + 3) (pow4 k) Hp).
  set (ra := (4 * v + 0) mod pow4 k) in *. set (rb := (4 * v + 1) mod pow4 k) in *.
  set (rc := (4 * v + 2) mod pow4 k) in *. set (rd := (4 * v + 3) mod pow4 k) in *.
  clearbody ra rb rc rd.
  unfold live, entry. rewrite E. unfold row_listed. cbn [existsb]. split.
  - intros H.
    destruct (a =? -1) eqn:Ea; [|exists 0; split; [lia|]; change (Z.to_nat 0) with 0%nat; cbn [nth]; lia].
    destruct (b =? -1) eqn:Eb; [|exists 1; split; [lia|]; change (Z.to_nat 1) with 1%nat; cbn [nth]; lia].
    destruct (c =? -1) eqn:Ec; [|exists 2; split; [lia|]; change (Z.to_nat 2) with 2%nat; cbn [nth]; lia].
    destruct (d =? -1) eqn:Ed; [|exists 3; split; [lia|]; change (Z.to_nat 3) with 3%nat; cbn [nth]; lia].
    cbn in H. discriminate.
  - intros [j [Hj Hge]].
    assert (Hc4 : j = 0 \/ j = 1 \/ j = 2 \/ j = 3) by lia.
    destruct Hc4 as [H|[H|[H|H]]]; subst j.
    + change (Z.to_nat 0) with 0%nat in Hge. cbn [nth] in Hge. replace (a =? -1) with false by lia. reflexivity.
    + change (Z.to_nat 1) with 1%nat in Hge. cbn [nth] in Hge. replace (b =? -1) with false by lia.
      cbn [negb]. rewrite !orb_true_r. reflexivity.
    + change (Z.to_nat 2) with 2%nat in Hge. cbn [nth] in Hge. replace (c =? -1) with false by lia.
      cbn [negb]. rewrite !orb_true_r. reflexivity.
    + change (Z.to_nat 3) with 3%nat in Hge. cbn [nth] in Hge. replace (d =? -1) with false by lia.
      cbn [negb]. rewrite !orb_true_r. reflexivity.
Qed.

(* ---- targets: vertex listing and latter map ------------------------------------------------ *)
Theorem obtain_vertices_spec : forall k acc, legal k acc ->
  StronglySorted Z.lt (obtain_vertices acc) /\
  forall v, In v (obtain_vertices acc) <-> (0 <= v < pow4 k /\ live acc v).
Proof.
  intros k acc HL. split; [apply listed_from_sorted|].
  intros v. unfold obtain_vertices. rewrite listed_from_In.
  rewrite (legal_len k acc HL). replace (v - 0) with v by lia. split.
  - intros [H1 H2]. split; [lia|]. apply (good_row_listed_live k acc v HL); [lia|exact H2].
  - intros [H1 H2]. split; [lia|]. apply (good_row_listed_live k acc v HL); [lia|exact H2].
Qed.

Theorem latter_map_content : forall k acc, legal k acc ->
  StronglySorted Z.lt (keys (accessor_to_latter_map acc)) /\
  forall v, lookup (accessor_to_latter_map acc) v =
            if (0 <=? v) && (v <? pow4 k) && row_listed (get_row acc v)
            then Some (live_entries (get_row acc v)) else None.
Proof.
  intros k acc HL. unfold accessor_to_latter_map. split.
  - rewrite keys_lmap_from. apply listed_from_sorted.
  - intros v. rewrite lmap_from_lookup. rewrite (legal_len k acc HL).
    replace (v - 0) with v by lia. replace (0 + pow4 k) with (pow4 k) by lia. reflexivity.
Qed.

(* ---- latter map -> accessor ---------------------------------------------------------------- *)
Lemma set_nth_mid : forall (A : Type) (pre : list A) r post x,
  set_nth (pre ++ r :: post) (length pre) x = pre ++ x :: post.
Proof.
  intros A pre r post x. induction pre as [|y ys IH]; cbn [app length set_nth]; [reflexivity|].
  rewrite IH. reflexivity.
Qed.

Definition upd (r : list Z) (x : Z) : list Z := set_nth r (Z.to_nat (x mod 4)) x.

Lemma put_arc_mid : forall pre r post x,
  put_arc (pre ++ r :: post) (Z.of_nat (length pre)) x = Ok (pre ++ upd r x :: post).
Proof.
  intros pre r post x. unfold put_arc.
  replace (Z.of_nat (length pre) <? 0) with false by lia.
  rewrite app_length. cbn [length].
  replace (Z.of_nat (length pre) <? 0) with false by lia.
  replace (Z.of_nat (length pre + S (length post)) <=? Z.of_nat (length pre)) with false by lia.
  cbn [orb]. unfold set_entry, get_row. rewrite Nat2Z.id, nth_middle, set_nth_mid. reflexivity.
Qed.

Lemma put_arcs_mid : forall ls pre r post,
  put_arcs (pre ++ r :: post) (Z.of_nat (length pre)) ls = Ok (pre ++ fold_left upd ls r :: post).
Proof.
  induction ls as [|x xs IH]; intros pre r post; cbn [put_arcs fold_left]; [reflexivity|].
  rewrite put_arc_mid. cbn [bind]. apply IH.
Qed.

Lemma row_rebuild : forall a b c d,
  (a = -1 \/ (0 <= a /\ a mod 4 = 0)) -> (b = -1 \/ (0 <= b /\ b mod 4 = 1)) ->
  (c = -1 \/ (0 <= c /\ c mod 4 = 2)) -> (d = -1 \/ (0 <= d /\ d mod 4 = 3)) ->
  fold_left upd (live_entries [a; b; c; d]) empty_row = [a; b; c; d].
Proof.
  intros a b c d Ha Hb Hc Hd. unfold live_entries, empty_row. cbn [filter].
  destruct (0 <=? a) eqn:Ea; [assert (Ma : a mod 4 = 0) by lia | assert (a = -1) by lia; subst a];
  (destruct (0 <=? b) eqn:Eb; [assert (Mb : b mod 4 = 1) by lia | assert (b = -1) by lia; subst b]);
  (destruct (0 <=? c) eqn:Ec; [assert (Mc : c mod 4 = 2) by lia | assert (c = -1) by lia; subst c]);
  (destruct (0 <=? d) eqn:Ed; [assert (Md : d mod 4 = 3) by lia | assert (d = -1) by lia; subst d]);
  cbn [fold_left]; unfold upd;
  repeat match goal with H : _ mod 4 = _ |- _ => rewrite H; clear H end;
  change (Z.to_nat 0) with 0%nat; change (Z.to_nat 1) with 1%nat;
  change (Z.to_nat 2) with 2%nat; change (Z.to_nat 3) with 3%nat;
  cbn [set_nth]; reflexivity.
Qed.

Lemma not_listed_empty : forall a b c d, row_listed [a; b; c; d] = false -> [a; b; c; d] = empty_row.
Proof.
  intros a b c d H. unfold row_listed in H. cbn [existsb] in H.
  destruct (a =? -1) eqn:Ea; [|discriminate H].
  destruct (b =? -1) eqn:Eb; [|discriminate H].
  destruct (c =? -1) eqn:Ec; [|discriminate H].
  destruct (d =? -1) eqn:Ed; [|discriminate H].
  assert (a = -1) by lia. assert (b = -1) by lia. assert (c = -1) by lia. assert (d = -1) by lia.
  subst. reflexivity.
Qed.

Definition col_row (row : list Z) : Prop :=
  exists a b c d, row = [a; b; c; d] /\
  (a = -1 \/ (0 <= a /\ a mod 4 = 0)) /\ (b = -1 \/ (0 <= b /\ b mod 4 = 1)) /\
  (c = -1 \/ (0 <= c /\ c mod 4 = 2)) /\ (d = -1 \/ (0 <= d /\ d mod 4 = 3)).

Lemma put_map_suffix : forall suf pre, Forall col_row suf ->
  put_map (pre ++ repeat empty_row (length suf)) (lmap_from suf (Z.of_nat (length pre))) = Ok (pre ++ suf).
Proof.
  induction suf as [|row t IH]; intros pre HF.
  - cbn [length repeat lmap_from put_map]. reflexivity.
  - inversion HF as [|? ? Hrow Ht]; subst.
    destruct Hrow as [a [b [c [d [E [Ha [Hb [Hc Hd]]]]]]]].
    assert (Hnext : put_map ((pre ++ [row]) ++ repeat empty_row (length t))
                      (lmap_from t (Z.of_nat (length pre) + 1)) = Ok (pre ++ row :: t)).
    { replace (Z.of_nat (length pre) + 1) with (Z.of_nat (length (pre ++ [row])))
        by (rewrite app_length; cbn [length]; lia).
      rewrite (IH (pre ++ [row]) Ht), <- app_assoc. reflexivity. }
    rewrite <- app_assoc in Hnext. cbn [app] in Hnext.
    cbn [length repeat lmap_from]. destruct (row_listed row) eqn:EL.
    + cbn [put_map]. rewrite put_arcs_mid. cbn [bind].
      rewrite E at 1. rewrite (row_rebuild a b c d Ha Hb Hc Hd), <- E. exact Hnext.
    + rewrite E in EL. apply not_listed_empty in EL. subst row. rewrite EL in Hnext at 1. exact Hnext.
Qed.

Lemma legal_all_rows : forall k acc, legal k acc ->
  Forall (fun r => exists v, 0 <= v < pow4 k /\ r = get_row acc v) acc.
Proof.
  intros k acc HL. pose proof (legal_len k acc HL) as Hlen.
  rewrite Forall_forall. intros r Hr.
  destruct (In_nth acc r empty_row Hr) as [i [Hi Hn]].
  exists (Z.of_nat i). split; [lia|]. unfold get_row. rewrite Nat2Z.id. symmetry. exact Hn.
Qed.

Lemma good_row_col_row : forall k v row, (1 <= k)%nat -> 0 <= v < pow4 k -> good_row k v row -> col_row row.
Proof.
  intros k v row Hk Hv [a [b [c [d [E [Ha [Hb [Hc Hd]]]]]]]]. pose proof (pow4_pos k) as Hp.
  destruct (latter_column k v 0 Hk Hv ltac:(lia)) as [_ C0].
  destruct (latter_column k v 1 Hk Hv ltac:(lia)) as [_ C1].
  destruct (latter_column k v 2 Hk Hv ltac:(lia)) as [_ C2].
  destruct (latter_column k v 3 Hk Hv ltac:(lia)) as [_ C3].
  assert (M0 := Z.mod_pos_bound (4 * v + 0) (pow4 k) Hp).
  assert (M1 := Z.mod_pos_bound (4 * v + 1) (pow4 k) Hp).
  assert (M2 := Z.mod_pos_bound (4 * v + 2) (pow4 k) Hp).
  assert (M3 := Z.mod_pos_bound (4 * v + 3) (pow4 k) Hp).
  exists a, b, c, d. split; [exact E|].
  repeat split.
  - destruct Ha as [Ha|Ha]; [left; exact Ha|right; rewrite Ha; split; [apply M0|exact C0]].
  - destruct Hb as [Hb|Hb]; [left; exact Hb|right; rewrite Hb; split; [apply M1|exact C1]].
  - destruct Hc as [Hc|Hc]; [left; exact Hc|right; rewrite Hc; split; [apply M2|exact C2]].
  - destruct Hd as [Hd|Hd]; [left; exact Hd|right; rewrite Hd; split; [apply M3|exact C3]].
Qed.

(* latter_map_roundtrip as stated is FALSE for k = 0 (pow4 0 = 1: the single vertex 0 has the
   four "successors" 0, 0, 0, 0, all in column 0 mod 4 = 0); see the counterexample below.
Theorem latter_map_roundtrip : forall k acc, legal k acc ->
  latter_map_to_accessor (accessor_to_latter_map acc) k None = Ok acc. *)
Theorem latter_map_roundtrip_partial : forall k acc, (1 <= k)%nat -> legal k acc ->
  latter_map_to_accessor (accessor_to_latter_map acc) k None = Ok acc.
Proof.
  intros k acc Hk HL. unfold latter_map_to_accessor, accessor_to_latter_map. cbn [bind].
  unfold blank_accessor. destruct HL as [Hlen HL']. rewrite <- Hlen.
  assert (HL : legal k acc) by (split; assumption).
  apply (put_map_suffix acc []).
  pose proof (legal_all_rows k acc HL) as HA.
  rewrite Forall_forall in HA |- *. intros r Hr.
  destruct (HA r Hr) as [v [Hv Er]]. subst r.
  apply (good_row_col_row k v); [exact Hk|exact Hv|]. apply legal_good_row; assumption.
Qed.

Theorem latter_map_roundtrip_counterexample :
  legal 0 [[0; 0; 0; 0]] /\
  latter_map_to_accessor (accessor_to_latter_map [[0; 0; 0; 0]]) 0 None = Ok [[0; -1; -1; -1]].
Proof.
  split; [|reflexivity].
  split; [reflexivity|]. split; [repeat constructor|].
  intros v j Hv Hj. change (pow4 0) with 1 in *. assert (v = 0) by lia. subst v.
  right. assert (Hc4 : j = 0 \/ j = 1 \/ j = 2 \/ j = 3) by lia.
  destruct Hc4 as [H|[H|[H|H]]]; subst j; reflexivity.
Qed.

(* ---- log4 ------------------------------------------------------------------------------------ *)
Lemma log4_fuel_pow4 : forall k f, (k < f)%nat -> log4_fuel f (pow4 k) = k.
Proof.
  induction k as [|k IH]; intros f Hf; (destruct f as [|f]; [lia|]); cbn [log4_fuel].
  - rewrite pow4_0. reflexivity.
  - rewrite pow4_S. pose proof (pow4_pos k) as Hp.
    replace (4 * pow4 k <? 4) with false by lia.
    replace (4 * pow4 k / 4) with (pow4 k) by lia.
    rewrite IH by lia. reflexivity.
Qed.

Theorem log4_pow4 : forall k, log4 (pow4 k) = k.
Proof.
  intros k. unfold log4. apply log4_fuel_pow4.
  pose proof (pow4_pos k) as Hp.
  assert (H : Z.of_nat k < Z.log2_up (pow4 k + 1)).
  { apply Z.log2_up_lt_pow2; [lia|].
    assert (2 ^ Z.of_nat k <= 4 ^ Z.of_nat k) by (apply Z.pow_le_mono_l; lia).
    unfold pow4. lia. }
  lia.
Qed.

(* ---- leaves ---------------------------------------------------------------------------------- *)
Lemma nthZ_nth : forall (A : Type) (l : list A) i d, (i < length l)%nat -> nthZ l i = Some (nth i l d).
Proof.
  intros A. induction l as [|x xs IH]; intros i d Hi; cbn [length] in Hi; [lia|].
  destruct i as [|i]; cbn [nthZ nth]; [reflexivity|]. apply IH. lia.
Qed.

Lemma py_get_row : forall acc v, 0 <= v < Z.of_nat (length acc) -> py_get acc v = Ok (get_row acc v).
Proof.
  intros acc v Hv. unfold py_get.
  replace (v <? 0) with false by lia. replace (v <? 0) with false by lia.
  replace (Z.of_nat (length acc) <=? v) with false by lia. cbn [orb].
  rewrite (nthZ_nth _ acc (Z.to_nat v) empty_row) by lia. reflexivity.
Qed.

Definition succs (acc : accessor) (v : Z) : list Z := live_entries (get_row acc v).

Lemma leaf_level_acc_ok : forall acc branch, Forall (fun v => 0 <= v < Z.of_nat (length acc)) branch ->
  leaf_level_acc acc branch = Ok (flat_map (succs acc) branch).
Proof.
  intros acc. induction branch as [|v t IH]; intros HF; cbn [leaf_level_acc flat_map]; [reflexivity|].
  inversion HF as [|? ? Hv Ht]; subst.
  rewrite (py_get_row acc v Hv). cbn [bind]. rewrite (IH Ht). cbn [bind]. reflexivity.
Qed.

Lemma succs_in_range : forall k acc v, legal k acc -> 0 <= v < pow4 k ->
  Forall (fun w => 0 <= w < pow4 k) (succs acc v).
Proof.
  intros k acc v HL Hv. pose proof (pow4_pos k) as Hp.
  destruct (legal_good_row k acc v HL Hv) as [a [b [c [d [E [Ha [Hb [Hc Hd]]]]]]]].
  assert (Ma := Z.mod_pos_bound (4 * v + 0) (pow4 k) Hp).
  assert (Mb := Z.mod_pos_bound (4 * v + 1) (pow4 k) Hp).
  assert (Mc := Z.mod_pos_bound (4 * v + 2) (pow4 k) Hp).
  assert (Md := Z.mod_pos_bound (4 * v + 3) (pow4 k) Hp).
  unfold succs, live_entries. rewrite E. rewrite Forall_forall. intros w Hw.
  apply filter_In in Hw. destruct Hw as [Hin Hge]. cbn [In] in Hin.
  destruct Hin as [H|[H|[H|[H|[]]]]]; subst w; lia.
Qed.

Lemma flat_map_flat_map : forall (A B C : Type) (f : A -> list B) (g : B -> list C) l,
  flat_map g (flat_map f l) = flat_map (fun x => flat_map g (f x)) l.
Proof.
  intros A B C f g. induction l as [|x xs IH]; cbn [flat_map]; [reflexivity|].
  rewrite flat_map_app, IH. reflexivity.
Qed.

Lemma flat_map_single : forall (A : Type) (l : list A), flat_map (fun v => [v]) l = l.
Proof. induction l as [|x xs IH]; cbn [flat_map app]; [reflexivity|]. rewrite IH. reflexivity. Qed.

Fixpoint walk_ends (acc : accessor) (d : nat) (v : Z) : list Z :=
  match d with
  | O => [v]
  | S d' => flat_map (walk_ends acc d') (live_entries (get_row acc v))
  end.

Lemma succs_flat_in_range : forall k acc branch, legal k acc ->
  Forall (fun v => 0 <= v < pow4 k) branch ->
  Forall (fun v => 0 <= v < pow4 k) (flat_map (succs acc) branch).
Proof.
  intros k acc branch HL HF. rewrite Forall_forall in *. intros w Hw.
  apply in_flat_map in Hw. destruct Hw as [v [Hv Hin]].
  pose proof (succs_in_range k acc v HL (HF v Hv)) as HS. rewrite Forall_forall in HS.
  apply HS. exact Hin.
Qed.

Lemma leaves_acc_walk : forall k acc d branch, legal k acc ->
  Forall (fun v => 0 <= v < pow4 k) branch ->
  leaves_acc d acc branch = Ok (flat_map (walk_ends acc d) branch).
Proof.
  intros k acc d. induction d as [|d IH]; intros branch HL HF.
  - cbn [leaves_acc walk_ends]. change (walk_ends acc 0) with (fun v : Z => [v]).
    rewrite flat_map_single. reflexivity.
  - cbn [leaves_acc]. rewrite leaf_level_acc_ok by (rewrite (legal_len k acc HL); exact HF).
    cbn [bind]. rewrite (IH _ HL (succs_flat_in_range k acc branch HL HF)).
    rewrite flat_map_flat_map. reflexivity.
Qed.

Lemma leaf_level_map_ok : forall k acc branch, legal k acc ->
  Forall (fun v => 0 <= v < pow4 k) branch ->
  leaf_level_map (accessor_to_latter_map acc) branch = flat_map (succs acc) branch.
Proof.
  intros k acc branch HL. unfold leaf_level_map.
  induction branch as [|v t IH]; intros HF; cbn [flat_map]; [reflexivity|].
  inversion HF as [|? ? Hv Ht]; subst. rewrite (IH Ht). f_equal.
  destruct (latter_map_content k acc HL) as [_ Hlook]. rewrite Hlook.
  replace (0 <=? v) with true by lia. replace (v <? pow4 k) with true by lia. cbn [andb].
  destruct (row_listed (get_row acc v)) eqn:EL; [reflexivity|].
  destruct (legal_good_row k acc v HL Hv) as [a [b [c [d [E _]]]]].
  unfold succs. rewrite E in EL |- *. apply not_listed_empty in EL. rewrite EL. reflexivity.
Qed.

Lemma leaves_map_walk : forall k acc d branch, legal k acc ->
  Forall (fun v => 0 <= v < pow4 k) branch ->
  leaves_map d (accessor_to_latter_map acc) branch = flat_map (walk_ends acc d) branch.
Proof.
  intros k acc d. induction d as [|d IH]; intros branch HL HF.
  - cbn [leaves_map]. change (walk_ends acc 0) with (fun v : Z => [v]).
    rewrite flat_map_single. reflexivity.
  - cbn [leaves_map]. rewrite (leaf_level_map_ok k acc branch HL HF).
    rewrite (IH _ HL (succs_flat_in_range k acc branch HL HF)).
    rewrite flat_map_flat_map. reflexivity.
Qed.

Theorem leaves_are_walk_ends : forall k acc d v, legal k acc -> 0 <= v < pow4 k ->
  leaves_acc d acc [v] = Ok (walk_ends acc d v).
Proof.
  intros k acc d v HL Hv.
  rewrite (leaves_acc_walk k acc d [v] HL) by (constructor; [exact Hv|constructor]).
  cbn [flat_map]. rewrite app_nil_r. reflexivity.
Qed.

Theorem leaves_agree : forall k acc d v, legal k acc -> 0 <= v < pow4 k ->
  leaves_acc d acc [v] = Ok (leaves_map d (accessor_to_latter_map acc) [v]).
Proof.
  intros k acc d v HL Hv.
  assert (HF : Forall (fun v => 0 <= v < pow4 k) [v]) by (constructor; [exact Hv|constructor]).
  rewrite (leaves_acc_walk k acc d [v] HL HF), (leaves_map_walk k acc d [v] HL HF). reflexivity.
Qed.

(* ---- accessor -> matrix ----------------------------------------------------------------------- *)
Lemma pow4_lt : forall k m, (k < m)%nat -> pow4 k < pow4 m.
Proof. intros k m H. unfold pow4. apply Z.pow_lt_mono_r; lia. Qed.

Lemma fold_min_ge : forall l d m, m <= d -> Forall (fun x => m <= x) l -> m <= fold_left Z.min l d.
Proof.
  induction l as [|x xs IH]; intros d m Hd HF; cbn [fold_left]; [exact Hd|].
  inversion HF as [|? ? Hx Hxs]; subst. apply IH; [lia|exact Hxs].
Qed.

Lemma fold_max_le : forall l d m, d <= m -> Forall (fun x => x <= m) l -> fold_left Z.max l d <= m.
Proof.
  induction l as [|x xs IH]; intros d m Hd HF; cbn [fold_left]; [exact Hd|].
  inversion HF as [|? ? Hx Hxs]; subst. apply IH; [lia|exact Hxs].
Qed.

Lemma legal_entries_bound : forall k acc, legal k acc ->
  Forall (fun x => -1 <= x <= pow4 k - 1) (all_entries acc).
Proof.
  intros k acc HL. pose proof (pow4_pos k) as Hp. pose proof (legal_all_rows k acc HL) as HA.
  rewrite Forall_forall in HA |- *. intros x Hx. unfold all_entries in Hx.
  apply in_concat in Hx. destruct Hx as [r [Hr Hxr]].
  destruct (HA r Hr) as [v [Hv Er]].
  destruct (legal_good_row k acc v HL Hv) as [a [b [c [d [E [Ha [Hb [Hc Hd]]]]]]]].
  assert (Ma := Z.mod_pos_bound (4 * v + 0) (pow4 k) Hp).
  assert (Mb := Z.mod_pos_bound (4 * v + 1) (pow4 k) Hp).
  assert (Mc := Z.mod_pos_bound (4 * v + 2) (pow4 k) Hp).
  assert (Md := Z.mod_pos_bound (4 * v + 3) (pow4 k) Hp).
  rewrite Er, E in Hxr. cbn [In] in Hxr.
  destruct Hxr as [H|[H|[H|[H|[]]]]]; subst x; lia.
Qed.

Lemma matrix_ok : forall k acc maxlen, legal k acc -> (k < maxlen)%nat ->
  accessor_to_adjacency_matrix acc maxlen = Ok (map (matrix_row (length acc)) acc).
Proof.
  intros k acc maxlen HL Hk. unfold accessor_to_adjacency_matrix.
  pose proof (legal_len k acc HL) as Hlen. pose proof (pow4_lt k maxlen Hk) as Hlt.
  rewrite Hlen. replace (pow4 maxlen <=? pow4 k) with false by lia.
  assert (H1 : forallb (fun r => Nat.eqb (length r) 4) acc = true).
  { apply forallb_forall. intros r Hr. destruct HL as [_ [HR _]].
    unfold rows4 in HR. rewrite Forall_forall in HR. rewrite (HR r Hr). reflexivity. }
  pose proof (legal_entries_bound k acc HL) as HB.
  assert (H2 : -1 <= minZ (all_entries acc) 0).
  { unfold minZ. apply fold_min_ge; [lia|]. rewrite Forall_forall in HB |- *.
    intros x Hx. specialize (HB x Hx). lia. }
  assert (H3 : maxZ (all_entries acc) (-1) <= pow4 k - 1).
  { unfold maxZ. pose proof (pow4_pos k). apply fold_max_le; [lia|]. rewrite Forall_forall in HB |- *.
    intros x Hx. specialize (HB x Hx). lia. }
  rewrite H1. cbn [negb orb].
  replace (minZ (all_entries acc) 0 <? -1) with false by lia.
  replace (pow4 k - 1 <? maxZ (all_entries acc) (-1)) with false by lia.
  reflexivity.
Qed.

Lemma matrix_row_length : forall n row, length (matrix_row n row) = n.
Proof. intros n row. unfold matrix_row, zrange. rewrite map_length, zrange_from_length. reflexivity. Qed.

Lemma matrix_row_nth : forall n row i, (i < n)%nat ->
  nth i (matrix_row n row) 0 = if memZ (Z.of_nat i) (live_entries row) then 1 else 0.
Proof.
  intros n row i Hi. unfold matrix_row, zrange.
  rewrite (nth_map_lt _ _ (fun c => if memZ c (live_entries row) then 1 else 0) _ _ 0 0)
    by (rewrite zrange_from_length; exact Hi).
  rewrite zrange_from_nth by exact Hi. replace (0 + Z.of_nat i) with (Z.of_nat i) by lia. reflexivity.
Qed.

Lemma memZ_In : forall x l, memZ x l = true <-> In x l.
Proof.
  intros x. induction l as [|y t IH]; cbn [memZ In].
  - split; [discriminate|tauto].
  - rewrite orb_true_iff, IH. split; intros [H|H]; try (right; exact H); left; lia.
Qed.

Lemma In_row4 : forall x a b c d,
  In x [a; b; c; d] <-> exists j, 0 <= j < 4 /\ nth (Z.to_nat j) [a; b; c; d] (-1) = x.
Proof.
  intros x a b c d. cbn [In]. split.
  - intros [H|[H|[H|[H|[]]]]]; [exists 0|exists 1|exists 2|exists 3]; (split; [lia|exact H]).
  - intros [j [Hj He]]. assert (Hc4 : j = 0 \/ j = 1 \/ j = 2 \/ j = 3) by lia.
    destruct Hc4 as [H|[H|[H|H]]]; subst j.
    + change (Z.to_nat 0) with 0%nat in He. cbn [nth] in He. tauto.
    + change (Z.to_nat 1) with 1%nat in He. cbn [nth] in He. tauto.
    + change (Z.to_nat 2) with 2%nat in He. cbn [nth] in He. tauto.
    + change (Z.to_nat 3) with 3%nat in He. cbn [nth] in He. tauto.
Qed.

Lemma mem_succs : forall k acc u v, legal k acc -> 0 <= u < pow4 k -> 0 <= v ->
  (memZ v (succs acc u) = true <-> exists j, 0 <= j < 4 /\ entry acc u j = v).
Proof.
  intros k acc u v HL Hu Hv.
  destruct (legal_good_row k acc u HL Hu) as [a [b [c [d [E _]]]]].
  rewrite memZ_In. unfold succs, live_entries, entry. rewrite filter_In, E, In_row4.
  split; [intros [H _]; exact H | intros H; split; [exact H|lia]].
Qed.

Lemma cell_spec : forall k acc u v, legal k acc -> 0 <= u < pow4 k -> 0 <= v < pow4 k ->
  nth (Z.to_nat v) (nth (Z.to_nat u) (map (matrix_row (length acc)) acc) []) 0 =
  if memZ v (succs acc u) then 1 else 0.
Proof.
  intros k acc u v HL Hu Hv. pose proof (legal_len k acc HL) as Hlen.
  rewrite (nth_map_lt _ _ (matrix_row (length acc)) acc _ [] empty_row) by lia.
  rewrite matrix_row_nth by lia. rewrite Z2Nat.id by lia. reflexivity.
Qed.

Theorem matrix_content : forall k acc maxlen, legal k acc -> (k < maxlen)%nat ->
  exists M, accessor_to_adjacency_matrix acc maxlen = Ok M /\ length M = Z.to_nat (pow4 k) /\
    forall u v, 0 <= u < pow4 k -> 0 <= v < pow4 k ->
      (nth (Z.to_nat v) (nth (Z.to_nat u) M []) 0 = 1 <-> exists j, 0 <= j < 4 /\ entry acc u j = v) /\
      (nth (Z.to_nat v) (nth (Z.to_nat u) M []) 0 = 1 \/ nth (Z.to_nat v) (nth (Z.to_nat u) M []) 0 = 0).
Proof.
  intros k acc maxlen HL Hk. exists (map (matrix_row (length acc)) acc).
  split; [apply (matrix_ok k); assumption|]. split.
  - rewrite map_length. destruct HL as [Hlen _]. exact Hlen.
  - intros u v Hu Hv. rewrite (cell_spec k acc u v HL Hu Hv).
    rewrite <- (mem_succs k acc u v HL Hu) by lia.
    destruct (memZ v (succs acc u)); split; try tauto; split; intros; try reflexivity; discriminate.
Qed.

(* ---- matrix -> accessor ----------------------------------------------------------------------- *)
Lemma ones_from_In : forall r s x, In x (ones_from r s) <->
  (s <= x < s + Z.of_nat (length r) /\ nth (Z.to_nat (x - s)) r 0 = 1).
Proof.
  induction r as [|y t IH]; intros s x.
  - cbn [ones_from In length]. split; [tauto|]. intros [H _]. lia.
  - cbn [ones_from length]. rewrite Nat2Z.inj_succ.
    destruct (Z.eq_dec x s) as [->|Hne].
    + replace (s - s) with 0 by lia. change (Z.to_nat 0) with 0%nat. cbn [nth].
      destruct (y =? 1) eqn:E.
      * cbn [In]. split; [intros _; split; lia | intros _; left; reflexivity].
      * rewrite IH. split; [intros [H _]; lia | intros [_ H]; lia].
    + destruct (y =? 1) eqn:E; cbn [In]; rewrite IH.
      * split.
        -- intros [H|[H1 H2]]; [congruence|]. rewrite nth_shift by lia. split; [lia|exact H2].
        -- intros [H1 H2]. right. rewrite nth_shift in H2 by lia. split; [lia|exact H2].
      * split.
        -- intros [H1 H2]. rewrite nth_shift by lia. split; [lia|exact H2].
        -- intros [H1 H2]. rewrite nth_shift in H2 by lia. split; [lia|exact H2].
Qed.

Lemma mem_next : forall n row x,
  memZ x (ones_from (matrix_row n row) 0) = true <->
  (0 <= x < Z.of_nat n /\ In x (live_entries row)).
Proof.
  intros n row x. rewrite memZ_In, ones_from_In, matrix_row_length.
  replace (x - 0) with x by lia. split.
  - intros [H1 H2]. split; [lia|]. rewrite matrix_row_nth in H2 by lia.
    rewrite Z2Nat.id in H2 by lia. apply memZ_In.
    destruct (memZ x (live_entries row)); [reflexivity|discriminate].
  - intros [H1 H2]. split; [lia|]. rewrite matrix_row_nth by lia.
    rewrite Z2Nat.id by lia. apply memZ_In in H2. rewrite H2. reflexivity.
Qed.

Lemma row_back : forall k v row n, (1 <= k)%nat -> 0 <= v < pow4 k -> Z.of_nat n = pow4 k ->
  good_row k v row ->
  forallb (fun x => memZ x (obtain_latters v k)) (ones_from (matrix_row n row) 0) = true /\
  map (fun x => if memZ x (ones_from (matrix_row n row) 0) then x else -1) (obtain_latters v k) = row.
Proof.
  intros k v row n Hk Hv Hn [a [b [c [d [E [Ha [Hb [Hc Hd]]]]]]]]. pose proof (pow4_pos k) as Hp.
  assert (Href : obtain_latters v k =
    [(4 * v + 0) mod pow4 k; (4 * v + 1) mod pow4 k; (4 * v + 2) mod pow4 k; (4 * v + 3) mod pow4 k]).
  { unfold obtain_latters. cbn [map].
    replace (v * 4 + 0) with (4 * v + 0) by lia. replace (v * 4 + 1) with (4 * v + 1) by lia.
    replace (v * 4 + 2) with (4 * v + 2) by lia. replace (v * 4 + 3) with (4 * v + 3) by lia.
    reflexivity. }
  destruct (latter_column k v 0 Hk Hv ltac:(lia)) as [_ C0].
  destruct (latter_column k v 1 Hk Hv ltac:(lia)) as [_ C1].
  destruct (latter_column k v 2 Hk Hv ltac:(lia)) as [_ C2].
  destruct (latter_column k v 3 Hk Hv ltac:(lia)) as [_ C3].
  assert (M0 := Z.mod_pos_bound (4 * v + 0) (pow4 k) Hp).
  assert (M1 := Z.mod_pos_bound (4 * v + 1) (pow4 k) Hp).
  assert (M2 := Z.mod_pos_bound (4 * v + 2) (pow4 k) Hp).
  assert (M3 := Z.mod_pos_bound (4 * v + 3) (pow4 k) Hp).
  rewrite Href.
  set (r0 := (4 * v + 0) mod pow4 k) in *. set (r1 := (4 * v + 1) mod pow4 k) in *.
  set (r2 := (4 * v + 2) mod pow4 k) in *. set (r3 := (4 * v + 3) mod pow4 k) in *.
  clearbody r0 r1 r2 r3. set (P := pow4 k) in *. clearbody P.
  set (next := ones_from (matrix_row n row) 0).
  assert (Hmem : forall x, memZ x next = true <->
            (0 <= x < P /\ (a = x \/ b = x \/ c = x \/ d = x))).
  { intros x. unfold next. rewrite mem_next, E. unfold live_entries. rewrite filter_In. cbn [In].
    rewrite Hn. split.
    - intros [H1 [H2 _]]. split; [exact H1|]. tauto.
    - intros [H1 H2]. split; [exact H1|]. split; [tauto|lia]. }
  split.
  - apply forallb_forall. intros x Hx. apply memZ_In in Hx. apply Hmem in Hx.
    apply memZ_In. cbn [In]. lia.
  - cbn [map]. rewrite E.
    assert (E0 : (if memZ r0 next then r0 else -1) = a).
    { destruct (memZ r0 next) eqn:Em.
      - apply Hmem in Em. lia.
      - assert (Hn0 : ~ (0 <= r0 < P /\ (a = r0 \/ b = r0 \/ c = r0 \/ d = r0)))
          by (rewrite <- Hmem; congruence). lia. }
    assert (E1 : (if memZ r1 next then r1 else -1) = b).
    { destruct (memZ r1 next) eqn:Em.
      - apply Hmem in Em. lia.
      - assert (Hn0 : ~ (0 <= r1 < P /\ (a = r1 \/ b = r1 \/ c = r1 \/ d = r1)))
          by (rewrite <- Hmem; congruence). lia. }
    assert (E2 : (if memZ r2 next then r2 else -1) = c).
    { destruct (memZ r2 next) eqn:Em.
      - apply Hmem in Em. lia.
      - assert (Hn0 : ~ (0 <= r2 < P /\ (a = r2 \/ b = r2 \/ c = r2 \/ d = r2)))
          by (rewrite <- Hmem; congruence). lia. }
    assert (E3 : (if memZ r3 next then r3 else -1) = d).
    { destruct (memZ r3 next) eqn:Em.
      - apply Hmem in Em. lia.
      - assert (Hn0 : ~ (0 <= r3 < P /\ (a = r3 \/ b = r3 \/ c = r3 \/ d = r3)))
          by (rewrite <- Hmem; congruence). lia. }
    rewrite E0, E1, E2, E3. reflexivity.
Qed.

Lemma matrix_rows_back : forall k n suf s, (1 <= k)%nat -> Z.of_nat n = pow4 k ->
  (forall i, (i < length suf)%nat ->
     0 <= s + Z.of_nat i < pow4 k /\ good_row k (s + Z.of_nat i) (nth i suf empty_row)) ->
  matrix_rows (map (matrix_row n) suf) s k = Ok suf.
Proof.
  intros k n. induction suf as [|row t IH]; intros s Hk Hn H; cbn [map matrix_rows]; [reflexivity|].
  destruct (H 0%nat ltac:(cbn [length]; lia)) as [Hs Hg].
  replace (s + Z.of_nat 0) with s in Hs, Hg by lia. cbn [nth] in Hg.
  destruct (row_back k s row n Hk Hs Hn Hg) as [Hf Hm].
  rewrite Hf, Hm. rewrite (IH (s + 1) Hk Hn).
  - reflexivity.
  - intros i Hi. specialize (H (S i) ltac:(cbn [length]; lia)).
    replace (s + Z.of_nat (S i)) with (s + 1 + Z.of_nat i) in H by lia. cbn [nth] in H. exact H.
Qed.

Theorem matrix_roundtrip : forall k acc maxlen, (1 <= k)%nat -> legal k acc -> (k < maxlen)%nat ->
  exists M, accessor_to_adjacency_matrix acc maxlen = Ok M /\ adjacency_matrix_to_accessor M = Ok acc.
Proof.
  intros k acc maxlen Hk HL Hm. exists (map (matrix_row (length acc)) acc).
  split; [apply (matrix_ok k); assumption|].
  pose proof (legal_len k acc HL) as Hlen.
  unfold adjacency_matrix_to_accessor. rewrite map_length, Hlen, log4_pow4.
  apply matrix_rows_back; [exact Hk|exact Hlen|].
  intros i Hi. replace (0 + Z.of_nat i) with (Z.of_nat i) by lia. split; [lia|].
  pose proof (legal_good_row k acc (Z.of_nat i) HL ltac:(lia)) as Hg.
  unfold get_row in Hg. rewrite Nat2Z.id in Hg. exact Hg.
Qed.

Lemma matrix_rows_reject : forall k rows s i, (i < length rows)%nat ->
  (exists x, In x (ones_from (nth i rows []) 0) /\ memZ x (obtain_latters (s + Z.of_nat i) k) = false) ->
  matrix_rows rows s k = Raise ValueError.
Proof.
  intros k. induction rows as [|r t IH]; intros s i Hi Hex; cbn [length] in Hi; [lia|].
  cbn [matrix_rows].
  destruct (forallb (fun x => memZ x (obtain_latters s k)) (ones_from r 0)) eqn:Ef; [|reflexivity].
  destruct i as [|i].
  - destruct Hex as [x [Hx Hmx]]. cbn [nth] in Hx. replace (s + Z.of_nat 0) with s in Hmx by lia.
    rewrite forallb_forall in Ef. rewrite (Ef x Hx) in Hmx. discriminate.
  - rewrite (IH (s + 1) i ltac:(lia)); [reflexivity|].
    destruct Hex as [x [Hx Hmx]]. exists x. cbn [nth] in Hx. split; [exact Hx|].
    replace (s + 1 + Z.of_nat i) with (s + Z.of_nat (S i)) by lia. exact Hmx.
Qed.

Theorem matrix_reject : forall k M, (1 <= k)%nat -> length M = Z.to_nat (pow4 k) ->
  (exists u v, 0 <= u < pow4 k /\ 0 <= v /\ nth (Z.to_nat v) (nth (Z.to_nat u) M []) 0 = 1
               /\ ~ In v (obtain_latters u k)) ->
  adjacency_matrix_to_accessor M = Raise ValueError.
Proof.
  intros k M Hk Hlen [u [v [Hu [Hv [H1 Hnin]]]]]. pose proof (pow4_pos k) as Hp.
  unfold adjacency_matrix_to_accessor.
  apply (matrix_rows_reject _ M 0 (Z.to_nat u)); [lia|].
  exists v. split.
  - apply ones_from_In. replace (v - 0) with v by lia. split; [|exact H1].
    destruct (Nat.lt_ge_cases (Z.to_nat v) (length (nth (Z.to_nat u) M []))) as [Hlt|Hge]; [lia|].
    rewrite nth_overflow in H1 by exact Hge. discriminate.
  - rewrite Z2Nat.id by lia. replace (0 + u) with u by lia.
    rewrite Hlen, Z2Nat.id, log4_pow4 by lia.
    destruct (memZ v (obtain_latters u k)) eqn:Em; [|reflexivity].
    apply memZ_In in Em. contradiction.
Qed.

Print Assumptions obtain_vertices_spec.
Print Assumptions latter_map_content.
Print Assumptions latter_map_roundtrip_partial.
Print Assumptions latter_map_roundtrip_counterexample.
Print Assumptions log4_pow4.
Print Assumptions matrix_content.
Print Assumptions matrix_roundtrip.
Print Assumptions matrix_reject.
Print Assumptions leaves_agree.
Print Assumptions leaves_are_walk_ends.
