(* GenerateProofs.v -- C03: connect_coding_graph returns exactly the largest closed sub-graph of
   the mask (greatest fixed point of the trimming operator, plus for t = 1 the reachability of a
   branching vertex), or raises ValueError exactly when that sub-graph is empty. *)
From Coq Require Import Lia ZifyBool Permutation.
From DSW Require Import Py Bignum Convert Kmer Graph Spec GraphSpec.
From DSW.Proofs Require Import KmerProofs GraphProofs.
Ltac Zify.zify_post_hook ::= Z.to_euclidean_division_equations.

(* All TARGET STATEMENTS are proved below, exactly as given:
   part A: trim_spec;  part B: coding_graph_t2, largest_closed_monotone, largest_closed_unique,
   induced_on_closed_live;  part C: coding_graph_t1. *)

(* ======================================================================================== *)
(* generic list facts                                                                       *)
(* ======================================================================================== *)
Lemma sumZ_nil : sumZ [] = 0.
Proof. reflexivity. Qed.

Lemma Forall2_le_nth : forall (a b : list Z), length a = length b ->
  (forall i, (i < length a)%nat -> nth i a 0 <= nth i b 0) -> Forall2 Z.le a b.
Proof.
  induction a as [|x a IH]; intros b Hl H; destruct b as [|y b]; cbn [length] in Hl; try discriminate.
  - constructor.
  - constructor.
    + apply (H 0%nat). cbn [length]. lia.
    + apply IH; [lia|]. intros i Hi. apply (H (S i)). cbn [length]. lia.
Qed.

Lemma sumZ_le : forall a b, Forall2 Z.le a b -> sumZ a <= sumZ b.
Proof.
  intros a b H. induction H as [|x y a b Hxy Hab IH].
  - lia.
  - rewrite !sumZ_cons. lia.
Qed.

Lemma sumZ_le_eq : forall a b, Forall2 Z.le a b -> sumZ a = sumZ b -> a = b.
Proof.
  intros a b H. induction H as [|x y a b Hxy Hab IH]; intros Hs.
  - reflexivity.
  - rewrite !sumZ_cons in Hs. pose proof (sumZ_le a b Hab) as Hle.
    assert (Hx : x = y) by lia. subst y. f_equal. apply IH. lia.
Qed.

Lemma filter_length_le : forall (P Q : Z -> bool) L, (forall x, In x L -> P x = true -> Q x = true) ->
  (length (filter P L) <= length (filter Q L))%nat.
Proof.
  intros P Q. induction L as [|x xs IH]; intros H; cbn [filter].
  - lia.
  - assert (IH' : (length (filter P xs) <= length (filter Q xs))%nat).
    { apply IH. intros y Hy. apply H. right. exact Hy. }
    destruct (P x) eqn:EP.
    + rewrite (H x (or_introl eq_refl) EP). cbn [length]. lia.
    + destruct (Q x); cbn [length]; lia.
Qed.

Lemma filter_ext_in_Z : forall (P Q : Z -> bool) L, (forall x, In x L -> P x = Q x) -> filter P L = filter Q L.
Proof.
  intros P Q. induction L as [|x xs IH]; intros H; cbn [filter]; [reflexivity|].
  rewrite (H x (or_introl eq_refl)). rewrite IH; [reflexivity|].
  intros y Hy. apply H. right. exact Hy.
Qed.

(* ======================================================================================== *)
(* 0/1 masks                                                                                *)
(* ======================================================================================== *)
Lemma nth_bit : forall mask i, Forall bit mask -> bit (nth i mask 0).
Proof.
  intros mask i H. destruct (nth_in_or_default i mask 0) as [Hin|He].
  - rewrite Forall_forall in H. apply H. exact Hin.
  - rewrite He. left. reflexivity.
Qed.

Lemma maskb_bit : forall mask v, Forall bit mask -> nth (Z.to_nat v) mask 0 = if maskb mask v then 1 else 0.
Proof.
  intros mask v H. unfold maskb. destruct (nth_bit mask (Z.to_nat v) H) as [E|E]; rewrite E; reflexivity.
Qed.

Lemma bit_nonneg : forall mask, Forall bit mask -> Forall (fun x => 0 <= x) mask.
Proof.
  intros mask H. apply Forall_forall. intros x Hx. rewrite Forall_forall in H.
  destruct (H x Hx) as [E|E]; lia.
Qed.

Lemma sumZ_bits_le : forall mask, Forall bit mask -> sumZ mask <= Z.of_nat (length mask).
Proof.
  induction mask as [|x xs IH]; intros H.
  - cbn [length]. rewrite sumZ_nil. lia.
  - inversion H as [|? ? Hx Hxs]; subst. rewrite sumZ_cons. cbn [length]. specialize (IH Hxs).
    destruct Hx as [E|E]; lia.
Qed.

Lemma sum_marked : forall mask L, Forall bit mask ->
  sumZ (map (fun l => nth (Z.to_nat l) mask 0) L) = Z.of_nat (length (filter (maskb mask) L)).
Proof.
  intros mask L H. induction L as [|x xs IH]; cbn [map filter].
  - reflexivity.
  - rewrite sumZ_cons, IH, (maskb_bit mask x H). destruct (maskb mask x); cbn [length]; lia.
Qed.

Lemma mask_pos_ex : forall k m, Forall bit m -> length m = Z.to_nat (pow4 k) -> 0 < sumZ m ->
  exists v, vin k (maskb m) v.
Proof.
  intros k m Hb Hl Hs. destruct (sumZ_nonneg_cases m (bit_nonneg m Hb)) as [_ [Hpos _]].
  destruct (Hpos Hs) as [i [Hi Hn]]. exists (Z.of_nat i). split; [lia|].
  unfold maskb. rewrite Nat2Z.id. destruct (nth i m 0 =? 0) eqn:E; [lia | reflexivity].
Qed.

Lemma mask_zero_empty : forall m, Forall bit m -> sumZ m <= 0 -> forall v, maskb m v = false.
Proof.
  intros m Hb Hs v. destruct (sumZ_nonneg_cases m (bit_nonneg m Hb)) as [_ [_ Hz]].
  unfold maskb. rewrite (Hz Hs). reflexivity.
Qed.

(* ======================================================================================== *)
(* part A: the trimming loop                                                                *)
(* ======================================================================================== *)
Lemma trim_round_length : forall k t mask, length (trim_round k t mask) = Z.to_nat (pow4 k).
Proof. intros. unfold trim_round. rewrite map_length. apply vertices_length. Qed.

Lemma trim_round_nth : forall k t mask v, 0 <= v < pow4 k -> Forall bit mask ->
  nth (Z.to_nat v) (trim_round k t mask) 0 =
    if maskb mask v && (t <=? succ_count k (maskb mask) v) then 1 else 0.
Proof.
  intros k t mask v Hv Hb. unfold trim_round.
  rewrite (nth_map_vertices Z _ k v 0 Hv). rewrite (sum_marked mask _ Hb).
  unfold succ_count. destruct (maskb mask v); reflexivity.
Qed.

Lemma trim_round_bit : forall k t mask, Forall bit (trim_round k t mask).
Proof.
  intros k t mask. apply Forall_forall. intros x Hx. unfold trim_round in Hx.
  apply in_map_iff in Hx. destruct Hx as [v [Hx _]]. subst x.
  destruct (maskb mask v); [|left; reflexivity].
  match goal with |- bit (if ?c then _ else _) => destruct c end; [right|left]; reflexivity.
Qed.

Lemma maskb_trim_round : forall k t mask v, 0 <= v < pow4 k -> Forall bit mask ->
  maskb (trim_round k t mask) v = maskb mask v && (t <=? succ_count k (maskb mask) v).
Proof.
  intros k t mask v Hv Hb. unfold maskb at 1. rewrite (trim_round_nth k t mask v Hv Hb).
  destruct (maskb mask v && (t <=? succ_count k (maskb mask) v)); reflexivity.
Qed.

Lemma trim_round_le : forall k t mask, length mask = Z.to_nat (pow4 k) -> Forall bit mask ->
  Forall2 Z.le (trim_round k t mask) mask.
Proof.
  intros k t mask Hl Hb. apply Forall2_le_nth.
  - rewrite trim_round_length. symmetry. exact Hl.
  - intros i Hi. rewrite trim_round_length in Hi.
    replace i with (Z.to_nat (Z.of_nat i)) by lia.
    rewrite (trim_round_nth k t mask (Z.of_nat i)) by (try exact Hb; lia).
    rewrite (maskb_bit mask (Z.of_nat i) Hb).
    destruct (maskb mask (Z.of_nat i)); cbn [andb]; [|lia].
    destruct (t <=? succ_count k (maskb mask) (Z.of_nat i)); lia.
Qed.

Lemma latters_range : forall k v w, In w (obtain_latters v k) -> 0 <= w < pow4 k.
Proof.
  intros k v w Hin. pose proof (pow4_pos k) as Hp. unfold obtain_latters in Hin.
  apply in_map_iff in Hin. destruct Hin as [j [He _]]. subst w. apply Z.mod_pos_bound. exact Hp.
Qed.

Lemma succ_count_mono : forall k Y X v, vsub k Y X -> succ_count k Y v <= succ_count k X v.
Proof.
  intros k Y X v Hs. unfold succ_count. apply inj_le. apply filter_length_le.
  intros w Hw HY. apply (Hs w). split; [apply (latters_range k v w Hw) | exact HY].
Qed.

Lemma closed_deg_trim : forall k t mask Y, Forall bit mask -> closed_deg k t Y ->
  vsub k Y (maskb mask) -> vsub k Y (maskb (trim_round k t mask)).
Proof.
  intros k t mask Y Hb Hc Hs v Hv. destruct Hv as [Hr HY]. split; [exact Hr|].
  rewrite (maskb_trim_round k t mask v Hr Hb).
  destruct (Hs v (conj Hr HY)) as [_ Hm]. rewrite Hm. cbn [andb].
  pose proof (Hc v (conj Hr HY)) as H1. pose proof (succ_count_mono k Y (maskb mask) v Hs) as H2. lia.
Qed.

Lemma trim_fuel_spec : forall fuel k t mask, length mask = Z.to_nat (pow4 k) -> Forall bit mask -> 1 <= t ->
  sumZ mask < Z.of_nat fuel ->
  match trim_fuel fuel k t mask with
  | Ok m => Forall bit m /\ length m = Z.to_nat (pow4 k)
            /\ closed_deg k t (maskb m) /\ vsub k (maskb m) (maskb mask)
            /\ (forall Y, closed_deg k t Y -> vsub k Y (maskb mask) -> vsub k Y (maskb m))
            /\ (exists v, vin k (maskb m) v)
  | Raise ValueError => forall Y, closed_deg k t Y -> vsub k Y (maskb mask) -> vempty k Y
  | _ => False
  end.
Proof.
  induction fuel as [|f IH]; intros k t mask Hl Hb Ht Hf.
  - pose proof (sumZ_nonneg_cases mask (bit_nonneg mask Hb)) as [H0 _]. lia.
  - cbn [trim_fuel]. set (new := trim_round k t mask).
    assert (Hnb : Forall bit new) by apply trim_round_bit.
    assert (Hnl : length new = Z.to_nat (pow4 k)) by apply trim_round_length.
    pose proof (trim_round_le k t mask Hl Hb) as Hle. fold new in Hle.
    pose proof (sumZ_le _ _ Hle) as Hsle.
    destruct (sumZ new <? 1) eqn:E1.
    + intros Y Hc Hs v Hv.
      pose proof (closed_deg_trim k t mask Y Hb Hc Hs v Hv) as [_ Hm]. fold new in Hm.
      rewrite (mask_zero_empty new Hnb) in Hm by lia. discriminate.
    + destruct (sumZ mask - sumZ new =? 0) eqn:E2.
      * assert (Hfix : new = mask) by (apply sumZ_le_eq; [exact Hle | lia]).
        split; [exact Hb|]. split; [exact Hl|]. split; [|split; [|split]].
        -- intros v [Hr Hm]. pose proof (maskb_trim_round k t mask v Hr Hb) as He.
           fold new in He. rewrite Hfix, Hm in He. cbn [andb] in He. lia.
        -- intros v Hv. exact Hv.
        -- intros Y _ Hs. exact Hs.
        -- apply mask_pos_ex; [exact Hb | exact Hl | lia].
      * assert (Hf' : sumZ new < Z.of_nat f) by lia.
        specialize (IH k t new Hnl Hnb Ht Hf').
        destruct (trim_fuel f k t new) as [m|e|]; [|destruct e|]; try exact IH.
        -- destruct IH as [H1 [H2 [H3 [H4 [H5 H6]]]]].
           split; [exact H1|]. split; [exact H2|]. split; [exact H3|]. split; [|split; [|exact H6]].
           ++ intros v Hv. destruct (H4 v Hv) as [Hr Hn]. split; [exact Hr|].
              unfold new in Hn. rewrite (maskb_trim_round k t mask v Hr Hb) in Hn.
              destruct (maskb mask v); [reflexivity | discriminate].
           ++ intros Y Hc Hs. apply H5; [exact Hc|]. apply closed_deg_trim; assumption.
        -- intros Y Hc Hs. apply IH; [exact Hc|]. apply closed_deg_trim; assumption.
Qed.

Theorem trim_spec : forall k t mask, (1 <= k)%nat -> length mask = Z.to_nat (pow4 k) -> Forall bit mask -> 1 <= t ->
  match trim_fuel (S (length mask)) k t mask with
  | Ok m => Forall bit m /\ length m = Z.to_nat (pow4 k)
            /\ closed_deg k t (maskb m) /\ vsub k (maskb m) (maskb mask)
            /\ (forall Y, closed_deg k t Y -> vsub k Y (maskb mask) -> vsub k Y (maskb m))
            /\ (exists v, vin k (maskb m) v)
  | Raise ValueError => forall Y, closed_deg k t Y -> vsub k Y (maskb mask) -> vempty k Y
  | _ => False
  end.
Proof.
  intros k t mask _ Hl Hb Ht. apply trim_fuel_spec; try assumption.
  pose proof (sumZ_bits_le mask Hb). lia.
Qed.

(* ======================================================================================== *)
(* vertex sets up to equality on the in-range vertices                                      *)
(* ======================================================================================== *)
Definition veq (k : nat) (X X' : vset) : Prop := forall v, 0 <= v < pow4 k -> X v = X' v.

Lemma veq_sym : forall k X X', veq k X X' -> veq k X' X.
Proof. intros k X X' H v Hv. symmetry. apply H. exact Hv. Qed.

Lemma vin_ext : forall k X X' v, veq k X X' -> vin k X v -> vin k X' v.
Proof. intros k X X' v H [Hr Hx]. split; [exact Hr|]. rewrite <- (H v Hr). exact Hx. Qed.

Lemma succ_count_ext : forall k X X' v, veq k X X' -> succ_count k X v = succ_count k X' v.
Proof.
  intros k X X' v H. unfold succ_count. f_equal. f_equal. apply filter_ext_in_Z.
  intros w Hw. apply H. apply (latters_range k v w Hw).
Qed.

Lemma closed_deg_ext : forall k t X X', veq k X X' -> closed_deg k t X -> closed_deg k t X'.
Proof.
  intros k t X X' H Hc v Hv. rewrite <- (succ_count_ext k X X' v H).
  apply Hc. apply (vin_ext k X' X v (veq_sym k X X' H) Hv).
Qed.

Lemma reach_branch_ext : forall k X X' v, veq k X X' -> reach_branch k X v -> reach_branch k X' v.
Proof.
  intros k X X' v H Hr. induction Hr as [v Hv Hs | v w Hv Hw Hwin Hr IH].
  - apply rb_here; [apply (vin_ext k X X' v H Hv)|]. rewrite <- (succ_count_ext k X X' v H). exact Hs.
  - apply (rb_step k X' v w); [apply (vin_ext k X X' v H Hv) | exact Hw | apply (vin_ext k X X' w H Hwin) | exact IH].
Qed.

Lemma closed_ext : forall k t X X', veq k X X' -> closed k t X -> closed k t X'.
Proof.
  intros k t X X' H [Hc Hr]. split; [apply (closed_deg_ext k t X X' H Hc)|].
  intros Ht v Hv. apply (reach_branch_ext k X X' v H). apply (Hr Ht).
  apply (vin_ext k X' X v (veq_sym k X X' H) Hv).
Qed.

Lemma reach_branch_mono : forall k Y X v, vsub k Y X -> reach_branch k Y v -> reach_branch k X v.
Proof.
  intros k Y X v H Hr. induction Hr as [v Hv Hs | v w Hv Hw Hwin Hr IH].
  - apply rb_here; [apply H; exact Hv|]. pose proof (succ_count_mono k Y X v H). lia.
  - apply (rb_step k X v w); [apply H; exact Hv | exact Hw | apply H; exact Hwin | exact IH].
Qed.

(* ======================================================================================== *)
(* the induced sub-graph on a vertex set                                                    *)
(* ======================================================================================== *)
Definition on_row (k : nat) (X : vset) (v : Z) : list Z :=
  if X v then map (fun l => if X l then l else -1) (obtain_latters v k) else empty_row.

Lemma induced_on_unfold : forall k X, induced_on k X = map (on_row k X) (vertices_of k).
Proof. reflexivity. Qed.

Lemma on_row_length : forall k X v, length (on_row k X v) = 4%nat.
Proof. intros k X v. unfold on_row. destruct (X v); [rewrite map_length|]; reflexivity. Qed.

Lemma induced_on_length : forall k X, length (induced_on k X) = Z.to_nat (pow4 k).
Proof. intros. rewrite induced_on_unfold, map_length. apply vertices_length. Qed.

Lemma get_row_induced_on : forall k X v, 0 <= v < pow4 k -> get_row (induced_on k X) v = on_row k X v.
Proof. intros k X v Hv. unfold get_row. rewrite induced_on_unfold. apply nth_map_vertices. exact Hv. Qed.

Lemma induced_on_entry : forall k X v j, 0 <= v < pow4 k -> 0 <= j < 4 ->
  entry (induced_on k X) v j = if X v && X ((4 * v + j) mod pow4 k) then (4 * v + j) mod pow4 k else -1.
Proof.
  intros k X v j Hv Hj. unfold entry. rewrite get_row_induced_on by exact Hv.
  unfold on_row. destruct (X v); cbn [andb].
  - rewrite (nth_map_lt _ _ (fun l => if X l then l else -1) _ _ (-1) (-1))
      by (unfold obtain_latters; cbn [map length]; lia).
    rewrite nth_latters by exact Hj. reflexivity.
  - apply nth_empty_row.
Qed.

Lemma induced_on_legal : forall k X, legal k (induced_on k X).
Proof.
  intros k X. split; [apply induced_on_length|]. split.
  - unfold rows4. rewrite induced_on_unfold. apply Forall_forall. intros r Hin.
    apply in_map_iff in Hin. destruct Hin as [v [Hr _]]. subst r. apply on_row_length.
  - intros v j Hv Hj. rewrite induced_on_entry by assumption.
    destruct (X v && X ((4 * v + j) mod pow4 k)); [right | left]; reflexivity.
Qed.

Lemma induced_on_ext : forall k X X', veq k X X' -> induced_on k X = induced_on k X'.
Proof.
  intros k X X' H. rewrite !induced_on_unfold. apply map_ext_in. intros v Hv.
  apply In_vertices in Hv. unfold on_row. rewrite (H v Hv). destruct (X' v); [|reflexivity].
  apply map_ext_in. intros w Hw. rewrite (H w (latters_range k v w Hw)). reflexivity.
Qed.

Lemma live_entries_sel : forall (X : vset) L, Forall (fun w => 0 <= w) L ->
  live_entries (map (fun l => if X l then l else -1) L) = filter X L.
Proof.
  intros X. induction L as [|x xs IH]; intros HF; [reflexivity|].
  inversion HF as [|? ? Hx Hxs]; subst. unfold live_entries in *. cbn [map filter].
  destruct (X x).
  - destruct (0 <=? x) eqn:E; [|lia]. rewrite (IH Hxs). reflexivity.
  - change (0 <=? -1) with false. apply IH. exact Hxs.
Qed.

Lemma row_listed_sel : forall (X : vset) L, Forall (fun w => 0 <= w) L ->
  row_listed (map (fun l => if X l then l else -1) L) = existsb X L.
Proof.
  intros X. induction L as [|x xs IH]; intros HF; [reflexivity|].
  inversion HF as [|? ? Hx Hxs]; subst. unfold row_listed in *. cbn [map existsb].
  rewrite (IH Hxs). destruct (X x); [|reflexivity].
  destruct (x =? -1) eqn:E; [lia | reflexivity].
Qed.

Lemma latters_nonneg : forall k v, Forall (fun w => 0 <= w) (obtain_latters v k).
Proof.
  intros k v. apply Forall_forall. intros w Hw. pose proof (latters_range k v w Hw). lia.
Qed.

Lemma existsb_filter : forall (P : Z -> bool) L, existsb P L = (0 <? Z.of_nat (length (filter P L))).
Proof.
  intros P. induction L as [|x xs IH]; [reflexivity|]. cbn [existsb filter].
  destruct (P x); cbn [orb length]; [lia | exact IH].
Qed.

Lemma live_set_induced_on : forall k X v, 0 <= v < pow4 k ->
  live_set (induced_on k X) v = X v && (0 <? succ_count k X v).
Proof.
  intros k X v Hv. unfold live_set. rewrite get_row_induced_on by exact Hv. unfold on_row.
  destruct (X v); cbn [andb]; [|reflexivity].
  rewrite row_listed_sel by apply latters_nonneg. apply existsb_filter.
Qed.

Lemma outdeg_induced_on : forall k X v, 0 <= v < pow4 k ->
  outdeg (induced_on k X) v = if X v then succ_count k X v else 0.
Proof.
  intros k X v Hv. unfold outdeg. rewrite get_row_induced_on by exact Hv. unfold on_row, out_degree.
  destruct (X v); [|reflexivity].
  rewrite live_entries_sel by apply latters_nonneg. reflexivity.
Qed.

Lemma live_set_closed : forall k X, closed_deg k 1 X -> veq k (live_set (induced_on k X)) X.
Proof.
  intros k X Hc v Hv. rewrite live_set_induced_on by exact Hv.
  destruct (X v) eqn:E; [|reflexivity]. cbn [andb].
  pose proof (Hc v (conj Hv E)). lia.
Qed.

Lemma closed_deg_weaken : forall k t t' X, t' <= t -> closed_deg k t X -> closed_deg k t' X.
Proof. intros k t t' X Ht Hc v Hv. specialize (Hc v Hv). lia. Qed.

Lemma succ_pos_ex : forall k X v, 0 < succ_count k X v ->
  exists j, 0 <= j < 4 /\ X ((4 * v + j) mod pow4 k) = true.
Proof.
  intros k X v H. unfold succ_count in H.
  destruct (filter X (obtain_latters v k)) as [|w ws] eqn:E; [cbn [length] in H; lia|].
  assert (Hin : In w (filter X (obtain_latters v k))) by (rewrite E; left; reflexivity).
  apply filter_In in Hin. destruct Hin as [Hw HX]. unfold obtain_latters in Hw.
  apply in_map4 in Hw. destruct Hw as [j [Hj He]]. exists j. split; [exact Hj|].
  replace (4 * v + j) with (v * 4 + j) by lia. rewrite <- He. exact HX.
Qed.

(* ======================================================================================== *)
(* part B                                                                                   *)
(* ======================================================================================== *)
Theorem largest_closed_monotone : forall k t M1 M2 X1 X2,
  largest_closed k t M1 X1 -> largest_closed k t M2 X2 -> vsub k M1 M2 -> vsub k X1 X2.
Proof.
  intros k t M1 M2 X1 X2 [Hc1 [Hs1 _]] [_ [_ Hm2]] HM. apply Hm2; [exact Hc1|].
  intros v Hv. apply HM. apply Hs1. exact Hv.
Qed.

Theorem largest_closed_unique : forall k t M X1 X2,
  largest_closed k t M X1 -> largest_closed k t M X2 -> forall v, vin k X1 v <-> vin k X2 v.
Proof.
  intros k t M X1 X2 H1 H2 v. split.
  - apply (largest_closed_monotone k t M M X1 X2 H1 H2). intros w Hw. exact Hw.
  - apply (largest_closed_monotone k t M M X2 X1 H2 H1). intros w Hw. exact Hw.
Qed.

Theorem induced_on_closed_live : forall k t X v, (1 <= k)%nat -> 1 <= t -> closed_deg k t X -> vin k X v ->
  live (induced_on k X) v /\ t <= outdeg (induced_on k X) v
  /\ forall j, 0 <= j < 4 -> 0 <= entry (induced_on k X) v j -> vin k X (entry (induced_on k X) v j).
Proof.
  intros k t X v _ Ht Hc Hv. pose proof (Hc v Hv) as Hd. destruct Hv as [Hr HX].
  pose proof (pow4_pos k) as Hp. split; [|split].
  - destruct (succ_pos_ex k X v ltac:(lia)) as [j [Hj Hw]]. exists j. split; [exact Hj|].
    rewrite induced_on_entry by assumption. rewrite HX, Hw. cbn [andb].
    apply Z.mod_pos_bound. exact Hp.
  - rewrite outdeg_induced_on by exact Hr. rewrite HX. exact Hd.
  - intros j Hj. rewrite induced_on_entry by assumption.
    destruct (X v && X ((4 * v + j) mod pow4 k)) eqn:E; [|lia].
    intros _. apply andb_true_iff in E. destruct E as [_ E]. split; [|exact E].
    apply Z.mod_pos_bound. exact Hp.
Qed.

Lemma marked_spec : forall k m v, length m = Z.to_nat (pow4 k) -> (In v (marked m) <-> vin k (maskb m) v).
Proof.
  intros k m v Hl. unfold marked. rewrite Hl. change (zrange (Z.to_nat (pow4 k))) with (vertices_of k).
  rewrite filter_In, In_vertices. unfold vin. tauto.
Qed.

(* what the trimmed mask gives, for every threshold: the graph on it *)
Lemma trimmed_graph : forall k t mask m, 1 <= t -> closed_deg k t (maskb m) ->
  vsub k (maskb m) (maskb mask) ->
  (forall Y, closed_deg k t Y -> vsub k Y (maskb mask) -> vsub k Y (maskb m)) ->
  veq k (live_set (induced k m)) (maskb m) /\ induced k m = induced_on k (live_set (induced k m)).
Proof.
  intros k t mask m Ht Hc Hs Hm.
  assert (Hveq : veq k (live_set (induced k m)) (maskb m)).
  { rewrite induced_eq_induced_on. apply live_set_closed. apply (closed_deg_weaken k t 1); [lia | exact Hc]. }
  split; [exact Hveq|]. rewrite induced_eq_induced_on at 1. apply induced_on_ext. apply veq_sym. exact Hveq.
Qed.

Theorem coding_graph_t2 : forall k t mask, (1 <= k)%nat -> length mask = Z.to_nat (pow4 k) -> Forall bit mask -> 2 <= t ->
  match connect_coding_graph k mask t with
  | Ok (V, acc) => largest_closed k t (maskb mask) (live_set acc)
                   /\ acc = induced_on k (live_set acc) /\ legal k acc
                   /\ (forall v, In v V <-> vin k (live_set acc) v)
                   /\ (exists v, vin k (live_set acc) v)
  | Raise ValueError => forall Y, closed k t Y -> vsub k Y (maskb mask) -> vempty k Y
  | _ => False
  end.
Proof.
  intros k t mask Hk Hl Hb Ht. unfold connect_coding_graph.
  pose proof (trim_spec k t mask Hk Hl Hb ltac:(lia)) as HT.
  destruct (trim_fuel (S (length mask)) k t mask) as [m|e|]; cbn [bind].
  - destruct HT as [Hmb [Hml [Hcd [Hsub [Hmax [v0 Hv0]]]]]].
    assert (Hpos : (0 <? sumZ m) = true).
    { destruct (0 <? sumZ m) eqn:E; [reflexivity|]. destruct Hv0 as [_ Hv0].
      rewrite (mask_zero_empty m Hmb) in Hv0 by lia. discriminate. }
    rewrite Hpos. assert (Ht1 : (t =? 1) = false) by lia. rewrite Ht1.
    destruct (trimmed_graph k t mask m ltac:(lia) Hcd Hsub Hmax) as [Hveq Hacc].
    pose proof (veq_sym _ _ _ Hveq) as Hveq'.
    split; [|split; [exact Hacc|split; [apply induced_legal|split]]].
    + split; [|split].
      * apply (closed_ext k t (maskb m)); [exact Hveq'|]. split; [exact Hcd|]. intros Ht'. lia.
      * intros v Hv. apply Hsub. apply (vin_ext k _ _ v Hveq Hv).
      * intros Y [HYc _] HYs v Hv. apply (vin_ext k _ _ v Hveq'). apply (Hmax Y HYc HYs v Hv).
    + intros v. rewrite (marked_spec k m v Hml). split; intros Hv.
      * apply (vin_ext k _ _ v Hveq' Hv).
      * apply (vin_ext k _ _ v Hveq Hv).
    + exists v0. apply (vin_ext k _ _ v0 Hveq' Hv0).
  - destruct e; try exact HT. intros Y [HYc _] HYs. apply HT; assumption.
  - exact HT.
Qed.
(* ======================================================================================== *)
(* part C: accessors as arrays of entries                                                   *)
(* ======================================================================================== *)
Lemma set_nth_length : forall (A : Type) (l : list A) i x, length (set_nth l i x) = length l.
Proof.
  intros A. induction l as [|y l IH]; intros i x; destruct i as [|i]; cbn [set_nth length]; try reflexivity.
  rewrite IH. reflexivity.
Qed.

Lemma nth_set_nth_eq : forall (A : Type) (l : list A) i x d, (i < length l)%nat -> nth i (set_nth l i x) d = x.
Proof.
  intros A. induction l as [|y l IH]; intros i x d Hi; cbn [length] in Hi; [lia|].
  destruct i as [|i]; cbn [set_nth nth]; [reflexivity|]. apply IH. lia.
Qed.

Lemma nth_set_nth_neq : forall (A : Type) (l : list A) i j x d, i <> j -> nth j (set_nth l i x) d = nth j l d.
Proof.
  intros A. induction l as [|y l IH]; intros i j x d Hij.
  - destruct i; reflexivity.
  - destruct i as [|i]; destruct j as [|j]; cbn [set_nth nth]; try reflexivity; try lia.
    apply IH. lia.
Qed.

Lemma Forall_set_nth : forall (A : Type) (P : A -> Prop) (l : list A) i x, Forall P l -> P x -> Forall P (set_nth l i x).
Proof.
  intros A P. induction l as [|y l IH]; intros i x HF Hx; destruct i as [|i]; cbn [set_nth]; try exact HF.
  - inversion HF; subst. constructor; assumption.
  - inversion HF; subst. constructor; [assumption|]. apply IH; assumption.
Qed.

Definition lat (k : nat) (v j : Z) : Z := (4 * v + j) mod pow4 k.

Lemma lat_range : forall k v j, 0 <= lat k v j < pow4 k.
Proof. intros. unfold lat. apply Z.mod_pos_bound. apply pow4_pos. Qed.

Lemma lat_col : forall k v j, (1 <= k)%nat -> 0 <= v < pow4 k -> 0 <= j < 4 -> lat k v j mod 4 = j.
Proof. intros k v j Hk Hv Hj. unfold lat. apply (latter_column k v j Hk Hv Hj). Qed.

Lemma In_latters : forall k v w, In w (obtain_latters v k) <-> exists j, 0 <= j < 4 /\ w = lat k v j.
Proof.
  intros k v w. unfold obtain_latters. rewrite (in_map4 (fun j => (v * 4 + j) mod pow4 k) w).
  unfold lat. split; intros [j [Hj He]]; exists j; (split; [exact Hj|]); rewrite He; f_equal; lia.
Qed.

Lemma legal_row_length : forall k acc v, legal k acc -> 0 <= v < pow4 k -> length (get_row acc v) = 4%nat.
Proof.
  intros k acc v [Hl [Hr _]] Hv. unfold rows4 in Hr. rewrite Forall_forall in Hr. apply Hr.
  unfold get_row. apply nth_In. lia.
Qed.

(* replacing one row *)
Lemma get_row_set : forall (acc : accessor) u r v, 0 <= u < Z.of_nat (length acc) -> 0 <= v ->
  get_row (set_nth acc (Z.to_nat u) r) v = if v =? u then r else get_row acc v.
Proof.
  intros acc u r v Hu Hv. unfold get_row. destruct (v =? u) eqn:E.
  - assert (v = u) by lia. subst v. apply nth_set_nth_eq. lia.
  - apply nth_set_nth_neq. lia.
Qed.

Lemma legal_set_row : forall k acc u r, legal k acc -> 0 <= u < pow4 k -> length r = 4%nat ->
  (forall j, 0 <= j < 4 -> nth (Z.to_nat j) r (-1) = -1 \/ nth (Z.to_nat j) r (-1) = lat k u j) ->
  legal k (set_nth acc (Z.to_nat u) r).
Proof.
  intros k acc u r [Hl [Hr He]] Hu Hlen Hent. split; [|split].
  - rewrite set_nth_length. exact Hl.
  - unfold rows4. apply Forall_set_nth; [exact Hr | exact Hlen].
  - intros v j Hv Hj. unfold entry. rewrite get_row_set by lia.
    destruct (v =? u) eqn:E.
    + assert (v = u) by lia. subst v. apply Hent. exact Hj.
    + apply (He v j Hv Hj).
Qed.

Lemma legal_entry : forall k acc v j, legal k acc -> 0 <= v < pow4 k -> 0 <= j < 4 ->
  entry acc v j = -1 \/ entry acc v j = lat k v j.
Proof. intros k acc v j [_ [_ He]] Hv Hj. apply (He v j Hv Hj). Qed.

Lemma legal_row_ge : forall k acc v, legal k acc -> 0 <= v < pow4 k -> Forall (fun x => -1 <= x) (get_row acc v).
Proof.
  intros k acc v HL Hv. apply Forall_forall. intros x Hx.
  destruct (In_nth _ _ (-1) Hx) as [j [Hj Hn]]. rewrite (legal_row_length k acc v HL Hv) in Hj.
  pose proof (legal_entry k acc v (Z.of_nat j) HL Hv ltac:(lia)) as H. unfold entry in H.
  rewrite Nat2Z.id, Hn in H. pose proof (lat_range k v (Z.of_nat j)). lia.
Qed.

(* liveness and out-degree of a row *)
Lemma row_listed_outdeg : forall r, Forall (fun x => -1 <= x) r -> row_listed r = (0 <? out_degree r).
Proof.
  unfold row_listed, out_degree, live_entries. induction r as [|x xs IH]; intros HF; [reflexivity|].
  inversion HF as [|? ? Hx Hxs]; subst. cbn [existsb filter]. rewrite (IH Hxs).
  destruct (0 <=? x) eqn:E.
  - cbn [length]. destruct (x =? -1) eqn:E1; [lia|]. cbn [negb orb]. lia.
  - assert (x = -1) by lia. subst x. reflexivity.
Qed.

Lemma out_degree_clear_le : forall r c, out_degree (set_nth r c (-1)) <= out_degree r.
Proof.
  unfold out_degree, live_entries. induction r as [|x xs IH]; intros c; destruct c as [|c]; cbn [set_nth filter]; try lia.
  - change (0 <=? -1) with false. destruct (0 <=? x); cbn [length]; lia.
  - specialize (IH c). destruct (0 <=? x); cbn [length]; lia.
Qed.

Lemma live_set_outdeg : forall k acc v, legal k acc -> 0 <= v < pow4 k -> live_set acc v = (0 <? outdeg acc v).
Proof. intros k acc v HL Hv. unfold live_set, outdeg. apply row_listed_outdeg. apply (legal_row_ge k acc v HL Hv). Qed.

Lemma entry_live : forall acc v j, 0 <= entry acc v j -> live_set acc v = true.
Proof.
  intros acc v j He. unfold live_set, row_listed. apply existsb_exists.
  exists (entry acc v j). split.
  - unfold entry in *. destruct (nth_in_or_default (Z.to_nat j) (get_row acc v) (-1)) as [H|H]; [exact H|].
    rewrite H in He. lia.
  - destruct (entry acc v j =? -1) eqn:E; [lia | reflexivity].
Qed.

Lemma live_entry_ex : forall k acc v, legal k acc -> 0 <= v < pow4 k -> live_set acc v = true ->
  exists j, 0 <= j < 4 /\ 0 <= entry acc v j.
Proof.
  intros k acc v HL Hv Hlive. unfold live_set, row_listed in Hlive. apply existsb_exists in Hlive.
  destruct Hlive as [x [Hx Hne]]. destruct (In_nth _ _ (-1) Hx) as [j [Hj Hn]].
  rewrite (legal_row_length k acc v HL Hv) in Hj. exists (Z.of_nat j). split; [lia|].
  pose proof (legal_entry k acc v (Z.of_nat j) HL Hv ltac:(lia)) as H. unfold entry in *.
  rewrite Nat2Z.id, Hn in *. pose proof (lat_range k v (Z.of_nat j)).
  destruct (x =? -1) eqn:E; [discriminate|]. lia.
Qed.

(* two legal accessors with the same entries are equal *)
Lemma acc_ext : forall k acc acc', legal k acc -> legal k acc' ->
  (forall v j, 0 <= v < pow4 k -> 0 <= j < 4 -> entry acc v j = entry acc' v j) -> acc = acc'.
Proof.
  intros k acc acc' HL HL' He. pose proof HL as [Hl _]. pose proof HL' as [Hl' _].
  apply (nth_ext _ _ empty_row empty_row); [congruence|]. intros i Hi.
  assert (Hv : 0 <= Z.of_nat i < pow4 k) by lia.
  pose proof (legal_row_length k acc _ HL Hv) as H4. pose proof (legal_row_length k acc' _ HL' Hv) as H4'.
  unfold get_row in H4, H4'. rewrite Nat2Z.id in H4, H4'.
  apply (nth_ext _ _ (-1) (-1)); [congruence|]. intros j Hj. rewrite H4 in Hj.
  specialize (He (Z.of_nat i) (Z.of_nat j) Hv ltac:(lia)). unfold entry, get_row in He.
  rewrite !Nat2Z.id in He. exact He.
Qed.

(* clearing one entry *)
Lemma entry_set_entry : forall k acc f c x v j, legal k acc -> 0 <= f < pow4 k -> 0 <= c < 4 ->
  0 <= v -> 0 <= j < 4 ->
  entry (set_entry acc f c x) v j = if (v =? f) && (j =? c) then x else entry acc v j.
Proof.
  intros k acc f c x v j HL Hf Hc Hv Hj. pose proof HL as [Hl _].
  unfold entry, set_entry. rewrite get_row_set by lia.
  destruct (v =? f) eqn:E; cbn [andb]; [|reflexivity].
  assert (v = f) by lia. subst v.
  destruct (j =? c) eqn:E2.
  - assert (j = c) by lia. subst j. apply nth_set_nth_eq. rewrite (legal_row_length k acc f HL Hf). lia.
  - apply nth_set_nth_neq. lia.
Qed.

Lemma legal_clear : forall k acc f c, legal k acc -> 0 <= f < pow4 k -> 0 <= c < 4 ->
  legal k (set_entry acc f c (-1)).
Proof.
  intros k acc f c HL Hf Hc. unfold set_entry. apply legal_set_row; [exact HL | exact Hf | |].
  - rewrite set_nth_length. apply (legal_row_length k acc f HL Hf).
  - intros j Hj. destruct (j =? c) eqn:E.
    + assert (j = c) by lia. subst j. left. apply nth_set_nth_eq. rewrite (legal_row_length k acc f HL Hf). lia.
    + rewrite nth_set_nth_neq by lia. apply (legal_entry k acc f j HL Hf Hj).
Qed.

Lemma live_clear_other : forall k acc f c w, legal k acc -> 0 <= f < pow4 k -> 0 <= w -> w <> f ->
  live_set (set_entry acc f c (-1)) w = live_set acc w.
Proof.
  intros k acc f c w [Hl _] Hf Hw Hne. unfold live_set, set_entry. rewrite get_row_set by lia.
  destruct (w =? f) eqn:E; [lia | reflexivity].
Qed.

(* ======================================================================================== *)
(* part C: the cascade                                                                      *)
(* ======================================================================================== *)
(* the state of the cascade: a legal accessor whose arcs between live vertices are all present,
   and whose arcs into dead vertices are all listed in the pending pairs P *)
Definition cinv (k : nat) (acc : accessor) (P : list (Z * Z)) : Prop :=
  legal k acc /\
  (forall v w, In (v, w) P -> 0 <= v < pow4 k /\ 0 <= w < pow4 k /\ In w (obtain_latters v k) /\ live_set acc w = false) /\
  (forall v j, 0 <= v < pow4 k -> 0 <= j < 4 -> live_set acc v = true -> live_set acc (lat k v j) = true ->
               entry acc v j = lat k v j) /\
  (forall v j, 0 <= v < pow4 k -> 0 <= j < 4 -> 0 <= entry acc v j -> live_set acc (lat k v j) = false ->
               In (v, lat k v j) P).

Lemma formers_range : forall k v w, (1 <= k)%nat -> 0 <= v < pow4 k -> In w (obtain_formers v k) -> 0 <= w < pow4 k.
Proof.
  intros k v w Hk Hv Hin. pose proof (formers_in_range k v Hk Hv) as HF. rewrite Forall_forall in HF.
  apply HF. exact Hin.
Qed.

Lemma cascade_pair_step : forall k acc np f l rest, (1 <= k)%nat ->
  cinv k acc ((f, l) :: rest ++ np) ->
  exists acc' extra, cascade_pair k (acc, np) (f, l) = (acc', np ++ extra) /\
    cinv k acc' (rest ++ np ++ extra) /\
    (forall w, 0 <= w < pow4 k -> live_set acc' w = true -> live_set acc w = true) /\
    (extra <> [] -> exists w, 0 <= w < pow4 k /\ live_set acc w = true /\ live_set acc' w = false) /\
    (forall Y, closed_deg k 1 Y -> vsub k Y (live_set acc) -> vsub k Y (live_set acc')).
Proof.
  intros k acc np f l rest Hk [HL [HP [H3 H4]]].
  destruct (HP f l (or_introl eq_refl)) as [Hf [Hl [Hadj Hdead]]].
  apply In_latters in Hadj. destruct Hadj as [c [Hc Hlc]].
  assert (Hcol : l mod 4 = c) by (rewrite Hlc; apply lat_col; assumption).
  assert (Hcinj : forall j, 0 <= j < 4 -> lat k f j = l -> j = c).
  { intros j Hj He. rewrite <- Hcol, <- He. symmetry. apply lat_col; assumption. }
  pose proof HL as [Hlen _].
  set (acc' := set_entry acc f (l mod 4) (-1)).
  assert (HL' : legal k acc') by (apply legal_clear; [exact HL | exact Hf | lia]).
  assert (Hent : forall v j, 0 <= v -> 0 <= j < 4 ->
            entry acc' v j = if (v =? f) && (j =? c) then -1 else entry acc v j).
  { intros v j Hv Hj. unfold acc'. rewrite Hcol. apply (entry_set_entry k); assumption. }
  assert (Hoth : forall w, 0 <= w -> w <> f -> live_set acc' w = live_set acc w).
  { intros w Hw Hne. unfold acc'. apply (live_clear_other k); assumption. }
  assert (Hrow : get_row acc' f = set_nth (get_row acc f) (Z.to_nat (l mod 4)) (-1)).
  { unfold acc', set_entry. rewrite get_row_set by lia. rewrite Z.eqb_refl. reflexivity. }
  assert (Hdeg : outdeg acc' f <= outdeg acc f).
  { unfold outdeg. rewrite Hrow. apply out_degree_clear_le. }
  assert (Hmono : forall w, 0 <= w < pow4 k -> live_set acc' w = true -> live_set acc w = true).
  { intros w Hw Hlw. destruct (Z.eq_dec w f) as [->|Hne].
    - rewrite (live_set_outdeg k) in * by assumption. lia.
    - rewrite Hoth in Hlw by lia. exact Hlw. }
  assert (Hdead' : forall w, 0 <= w < pow4 k -> live_set acc w = false -> live_set acc' w = false).
  { intros w Hw Hd. destruct (live_set acc' w) eqn:E; [|reflexivity]. rewrite (Hmono w Hw E) in Hd. discriminate. }
  (* the parts of the new invariant that do not depend on the branch *)
  assert (A2 : forall v w, In (v, w) (rest ++ np) ->
            0 <= v < pow4 k /\ 0 <= w < pow4 k /\ In w (obtain_latters v k) /\ live_set acc' w = false).
  { intros v w Hin. destruct (HP v w (or_intror Hin)) as [Hv [Hw [Ha Hd]]].
    split; [exact Hv|]. split; [exact Hw|]. split; [exact Ha|]. apply Hdead'; assumption. }
  assert (A3 : forall v j, 0 <= v < pow4 k -> 0 <= j < 4 -> live_set acc' v = true ->
            live_set acc' (lat k v j) = true -> entry acc' v j = lat k v j).
  { intros v j Hv Hj Hlv Hlw. rewrite Hent by lia.
    destruct ((v =? f) && (j =? c)) eqn:E.
    - assert (v = f) by lia. assert (j = c) by lia. subst v j. rewrite <- Hlc in Hlw.
      rewrite (Hdead' l Hl Hdead) in Hlw. discriminate.
    - apply H3; try assumption; apply Hmono; try assumption. apply lat_range. }
  assert (A4 : forall v j, 0 <= v < pow4 k -> 0 <= j < 4 -> 0 <= entry acc' v j ->
            live_set acc (lat k v j) = false -> In (v, lat k v j) (rest ++ np)).
  { intros v j Hv Hj He Hd. rewrite Hent in He by lia.
    destruct ((v =? f) && (j =? c)) eqn:E; [lia|].
    destruct (H4 v j Hv Hj He Hd) as [Heq|Hin]; [|exact Hin].
    injection Heq as Hvf Hll. subst v. symmetry in Hll. apply (Hcinj j Hj) in Hll. lia. }
  assert (AY : forall Y, closed_deg k 1 Y -> vsub k Y (live_set acc) -> vsub k Y (live_set acc')).
  { intros Y HYc HYs w Hw. pose proof (HYs w Hw) as [Hwr Hwl]. split; [exact Hwr|].
    destruct (Z.eq_dec w f) as [->|Hne]; [|rewrite Hoth by lia; exact Hwl].
    pose proof (HYc f Hw) as Hsc. destruct (succ_pos_ex k Y f ltac:(lia)) as [j [Hj HYj]].
    fold (lat k f j) in HYj.
    assert (Hlj : live_set acc (lat k f j) = true).
    { apply (HYs (lat k f j)). split; [apply lat_range | exact HYj]. }
    pose proof (H3 f j Hf Hj Hwl Hlj) as Hej.
    assert (Hjc : j <> c). { intros ->. rewrite <- Hlc in Hlj. rewrite Hdead in Hlj. discriminate. }
    apply (entry_live acc' f j). rewrite Hent by lia.
    destruct ((f =? f) && (j =? c)) eqn:E; [lia|]. rewrite Hej. pose proof (lat_range k f j). lia. }
  unfold cascade_pair. cbv beta iota zeta. fold acc'.
  change (out_degree (get_row acc' f)) with (outdeg acc' f).
  change (out_degree (get_row acc f)) with (outdeg acc f).
  destruct ((outdeg acc' f <? outdeg acc f) && (outdeg acc' f =? 0)) eqn:Econd.
  - (* f has just lost its last arc *)
    assert (Hfl : live_set acc f = true) by (rewrite (live_set_outdeg k) by assumption; lia).
    assert (Hfd : live_set acc' f = false) by (rewrite (live_set_outdeg k) by assumption; lia).
    exists acc', (map (fun i => (i, f)) (obtain_formers f k)).
    split; [reflexivity|]. split; [|split; [exact Hmono|split; [|exact AY]]].
    + split; [exact HL'|]. split; [|split; [exact A3|]].
      * intros v w Hin. rewrite app_assoc in Hin. apply in_app_or in Hin. destruct Hin as [Hin|Hin]; [apply A2; exact Hin|].
        apply in_map_iff in Hin. destruct Hin as [i [Heq Hi]]. injection Heq as Hiv Hfw. subst v w.
        rename i into v. pose proof (formers_range k f v Hk Hf Hi) as Hv.
        split; [exact Hv|]. split; [exact Hf|]. split; [|exact Hfd].
        apply (pred_succ k v f Hk Hv Hf). exact Hi.
      * intros v j Hv Hj He Hd. rewrite app_assoc. apply in_or_app.
        destruct (live_set acc (lat k v j)) eqn:El.
        -- right. assert (Hlf : lat k v j = f).
           { destruct (Z.eq_dec (lat k v j) f) as [Hq|Hq]; [exact Hq|].
             pose proof (lat_range k v j). rewrite Hoth in Hd by lia. congruence. }
           rewrite Hlf. apply in_map_iff. exists v. split; [reflexivity|].
           apply (pred_succ k v f Hk Hv Hf). apply In_latters. exists j. split; [exact Hj | symmetry; exact Hlf].
        -- left. apply A4; assumption.
    + intros _. exists f. split; [exact Hf|]. split; assumption.
  - (* nothing new *)
    assert (Hsame : live_set acc' f = live_set acc f).
    { rewrite (live_set_outdeg k acc' f HL' Hf), (live_set_outdeg k acc f HL Hf).
      assert (H0 : 0 <= outdeg acc' f) by (unfold outdeg, out_degree; lia). lia. }
    exists acc', []. rewrite !app_nil_r.
    split; [reflexivity|]. split; [|split; [exact Hmono|split; [|exact AY]]].
    + split; [exact HL'|]. split; [exact A2|]. split; [exact A3|].
      intros v j Hv Hj He Hd. apply A4; try assumption.
      destruct (Z.eq_dec (lat k v j) f) as [Hq|Hq].
      * rewrite Hq in *. rewrite <- Hsame. exact Hd.
      * pose proof (lat_range k v j). rewrite Hoth in Hd by lia. exact Hd.
    + intros Hne. contradiction Hne. reflexivity.
Qed.

Lemma cascade_fold : forall k pairs acc np, (1 <= k)%nat -> cinv k acc (pairs ++ np) ->
  exists acc' extra, fold_left (cascade_pair k) pairs (acc, np) = (acc', np ++ extra) /\
    cinv k acc' (np ++ extra) /\
    (forall w, 0 <= w < pow4 k -> live_set acc' w = true -> live_set acc w = true) /\
    (extra <> [] -> exists w, 0 <= w < pow4 k /\ live_set acc w = true /\ live_set acc' w = false) /\
    (forall Y, closed_deg k 1 Y -> vsub k Y (live_set acc) -> vsub k Y (live_set acc')).
Proof.
  intros k. induction pairs as [|[f l] rest IH]; intros acc np Hk Hc.
  - exists acc, []. rewrite app_nil_r. cbn [fold_left app] in *.
    split; [reflexivity|]. split; [exact Hc|]. split; [intros w _ H; exact H|].
    split; [intros H; contradiction H; reflexivity|]. intros Y _ H. exact H.
  - cbn [fold_left]. cbn [app] in Hc.
    destruct (cascade_pair_step k acc np f l rest Hk Hc) as [acc1 [ex1 [E1 [C1 [M1 [S1 Y1]]]]]].
    rewrite E1. destruct (IH acc1 (np ++ ex1) Hk C1) as [acc2 [ex2 [E2 [C2 [M2 [S2 Y2]]]]]].
    exists acc2, (ex1 ++ ex2). rewrite app_assoc.
    split; [exact E2|]. split; [exact C2|]. split; [|split].
    + intros w Hw H. apply M1; [exact Hw|]. apply M2; assumption.
    + intros Hne. destruct ex1 as [|e1 ex1'].
      * destruct S2 as [w [Hw [Hl1 Hl2]]]; [exact Hne|]. exists w. split; [exact Hw|]. split; [|exact Hl2].
        apply M1; assumption.
      * destruct S1 as [w [Hw [Hl1 Hl2]]]; [discriminate|]. exists w. split; [exact Hw|]. split; [exact Hl1|].
        destruct (live_set acc2 w) eqn:E; [|reflexivity]. rewrite (M2 w Hw E) in Hl2. discriminate.
    + intros Y HY Hs. apply Y2; [exact HY|]. apply Y1; assumption.
Qed.

(* number of live rows *)
Definition lcount (k : nat) (acc : accessor) : nat := length (filter (live_set acc) (vertices_of k)).

Lemma filter_length_lt : forall (P Q : Z -> bool) L x, (forall y, In y L -> P y = true -> Q y = true) ->
  In x L -> P x = false -> Q x = true -> (length (filter P L) < length (filter Q L))%nat.
Proof.
  intros P Q. induction L as [|y ys IH]; intros x H Hin HP HQ; [contradiction|].
  assert (Hle : (length (filter P ys) <= length (filter Q ys))%nat).
  { apply filter_length_le. intros z Hz. apply H. right. exact Hz. }
  cbn [filter]. destruct Hin as [->|Hin].
  - rewrite HP, HQ. cbn [length]. lia.
  - assert (Hlt : (length (filter P ys) < length (filter Q ys))%nat).
    { apply (IH x); try assumption. intros z Hz. apply H. right. exact Hz. }
    destruct (P y) eqn:EP.
    + rewrite (H y (or_introl eq_refl) EP). cbn [length]. lia.
    + destruct (Q y); cbn [length]; lia.
Qed.

Lemma filter_length_bound : forall (P : Z -> bool) L, (length (filter P L) <= length L)%nat.
Proof.
  intros P. induction L as [|y ys IH]; cbn [filter length]; [lia|]. destruct (P y); cbn [length]; lia.
Qed.

Lemma lcount_bound : forall k acc, (lcount k acc <= Z.to_nat (pow4 k))%nat.
Proof. intros k acc. unfold lcount. rewrite <- (vertices_length k). apply filter_length_bound. Qed.

Lemma lcount_lt : forall k acc acc' w, (forall v, 0 <= v < pow4 k -> live_set acc' v = true -> live_set acc v = true) ->
  0 <= w < pow4 k -> live_set acc w = true -> live_set acc' w = false -> (lcount k acc' < lcount k acc)%nat.
Proof.
  intros k acc acc' w Hm Hw H1 H2. unfold lcount. apply (filter_length_lt _ _ _ w); try assumption.
  - intros y Hy. apply Hm. apply In_vertices. exact Hy.
  - apply In_vertices. exact Hw.
Qed.

Lemma cascade_nil : forall fuel k acc, cascade fuel k acc [] = Ok acc.
Proof. intros fuel k acc. destruct fuel; reflexivity. Qed.

Lemma cascade_spec : forall fuel k acc pairs, (1 <= k)%nat -> cinv k acc pairs -> (lcount k acc < fuel)%nat ->
  exists acc', cascade fuel k acc pairs = Ok acc' /\ cinv k acc' [] /\
    (forall w, 0 <= w < pow4 k -> live_set acc' w = true -> live_set acc w = true) /\
    (forall Y, closed_deg k 1 Y -> vsub k Y (live_set acc) -> vsub k Y (live_set acc')).
Proof.
  induction fuel as [|fuel IH]; intros k acc pairs Hk Hc Hf; [lia|].
  destruct pairs as [|p ps].
  - exists acc. split; [reflexivity|]. split; [exact Hc|]. split; [intros w _ H; exact H|]. intros Y _ H. exact H.
  - cbn [cascade].
    assert (Hc' : cinv k acc ((p :: ps) ++ [])) by (rewrite app_nil_r; exact Hc).
    destruct (cascade_fold k (p :: ps) acc [] Hk Hc') as [acc1 [ex [E [C [M [S Y]]]]]].
    cbn [app] in E, C. rewrite E. destruct ex as [|e es].
    + rewrite cascade_nil. exists acc1. split; [reflexivity|]. split; [exact C|]. split; [exact M | exact Y].
    + destruct S as [w [Hw [Hl1 Hl2]]]; [discriminate|].
      pose proof (lcount_lt k acc acc1 w M Hw Hl1 Hl2) as Hlt.
      destruct (IH k acc1 (e :: es) Hk C ltac:(lia)) as [acc2 [E2 [C2 [M2 Y2]]]].
      exists acc2. split; [exact E2|]. split; [exact C2|]. split.
      * intros v Hv H. apply M; [exact Hv|]. apply M2; assumption.
      * intros Z0 HZ Hs. apply Y2; [exact HZ|]. apply Y; assumption.
Qed.

(* a stable state is the induced sub-graph on its live vertices, and conversely *)
Lemma cinv_nil_good : forall k acc, cinv k acc [] -> acc = induced_on k (live_set acc).
Proof.
  intros k acc [HL [_ [H3 H4]]]. apply (acc_ext k); [exact HL | apply induced_on_legal|].
  intros v j Hv Hj. rewrite induced_on_entry by assumption. fold (lat k v j).
  pose proof (lat_range k v j) as Hlr.
  destruct (live_set acc v) eqn:Ev; cbn [andb].
  - destruct (live_set acc (lat k v j)) eqn:El; [apply H3; assumption|].
    destruct (legal_entry k acc v j HL Hv Hj) as [E|E]; [exact E|].
    exfalso. apply (H4 v j Hv Hj); [rewrite E; lia | exact El].
  - destruct (legal_entry k acc v j HL Hv Hj) as [E|E]; [exact E|].
    rewrite (entry_live acc v j) in Ev by (rewrite E; lia). discriminate.
Qed.

Lemma good_cinv_nil : forall k acc, acc = induced_on k (live_set acc) -> cinv k acc [].
Proof.
  intros k acc Hg.
  assert (He : forall v j, 0 <= v < pow4 k -> 0 <= j < 4 ->
            entry acc v j = if live_set acc v && live_set acc (lat k v j) then lat k v j else -1).
  { intros v j Hv Hj. replace (entry acc v j) with (entry (induced_on k (live_set acc)) v j) by (rewrite <- Hg; reflexivity).
    apply induced_on_entry; assumption. }
  split; [rewrite Hg; apply induced_on_legal|]. split; [intros v w []|]. split.
  - intros v j Hv Hj Hlv Hlw. rewrite He by assumption. rewrite Hlv, Hlw. reflexivity.
  - intros v j Hv Hj H0 Hd. rewrite He in H0 by assumption. rewrite Hd, andb_false_r in H0. lia.
Qed.

(* ======================================================================================== *)
(* part C: removing vertices                                                                *)
(* ======================================================================================== *)
Lemma remove_vertex_spec : forall k acc u, (1 <= k)%nat -> cinv k acc [] -> 0 <= u < pow4 k ->
  exists acc', remove_vertex k acc u = Ok acc' /\ cinv k acc' [] /\
    (forall w, 0 <= w < pow4 k -> live_set acc' w = true -> live_set acc w = true) /\
    live_set acc' u = false /\
    (forall Y, closed_deg k 1 Y -> Y u = false -> vsub k Y (live_set acc) -> vsub k Y (live_set acc')).
Proof.
  intros k acc u Hk [HL [_ [H3 H4]]] Hu. pose proof HL as [Hlen _].
  unfold remove_vertex. set (acc1 := set_nth acc (Z.to_nat u) empty_row).
  assert (HL1 : legal k acc1).
  { apply legal_set_row; [exact HL | exact Hu | reflexivity|]. intros j _. left. apply nth_empty_row. }
  assert (Hent : forall v j, 0 <= v -> entry acc1 v j = if v =? u then -1 else entry acc v j).
  { intros v j Hv. unfold entry, acc1. rewrite get_row_set by lia. destruct (v =? u); [apply nth_empty_row | reflexivity]. }
  assert (Hlive : forall w, 0 <= w -> live_set acc1 w = if w =? u then false else live_set acc w).
  { intros w Hw. unfold live_set, acc1. rewrite get_row_set by lia. destruct (w =? u); reflexivity. }
  assert (M1 : forall w, 0 <= w < pow4 k -> live_set acc1 w = true -> live_set acc w = true).
  { intros w Hw H. rewrite Hlive in H by lia. destruct (w =? u); [discriminate | exact H]. }
  assert (C1 : cinv k acc1 (map (fun i => (i, u)) (obtain_formers u k))).
  { split; [exact HL1|]. split; [|split].
    - intros v w Hin. apply in_map_iff in Hin. destruct Hin as [i [Heq Hi]].
      injection Heq as Hiv Huw. subst v w. pose proof (formers_range k u i Hk Hu Hi) as Hv.
      split; [exact Hv|]. split; [exact Hu|]. split; [apply (pred_succ k i u Hk Hv Hu); exact Hi|].
      rewrite Hlive by lia. rewrite Z.eqb_refl. reflexivity.
    - intros v j Hv Hj Hlv Hlw. pose proof (lat_range k v j) as Hlr.
      rewrite Hlive in Hlv, Hlw by lia. rewrite Hent by lia.
      destruct (v =? u); [discriminate|]. destruct (lat k v j =? u); [discriminate|]. apply H3; assumption.
    - intros v j Hv Hj He Hd. pose proof (lat_range k v j) as Hlr.
      rewrite Hent in He by lia. destruct (v =? u) eqn:Evu; [lia|].
      rewrite Hlive in Hd by lia. destruct (lat k v j =? u) eqn:Elu.
      + assert (Hq : lat k v j = u) by lia. rewrite Hq. apply in_map_iff. exists v. split; [reflexivity|].
        apply (pred_succ k v u Hk Hv Hu). apply In_latters. exists j. split; [exact Hj | symmetry; exact Hq].
      + destruct (H4 v j Hv Hj He Hd). }
  assert (Hfuel : (lcount k acc1 < S (length acc))%nat).
  { pose proof (lcount_bound k acc1). lia. }
  destruct (cascade_spec (S (length acc)) k acc1 _ Hk C1 Hfuel) as [acc2 [E2 [C2 [M2 Y2]]]].
  exists acc2. split; [exact E2|]. split; [exact C2|]. split; [|split].
  - intros w Hw H. apply M1; [exact Hw|]. apply M2; assumption.
  - destruct (live_set acc2 u) eqn:E; [|reflexivity]. pose proof (M2 u Hu E) as H.
    rewrite Hlive in H by lia. rewrite Z.eqb_refl in H. discriminate.
  - intros Y HY HYu Hs. apply Y2; [exact HY|]. intros w Hw. destruct (Hs w Hw) as [Hwr Hwl].
    split; [exact Hwr|]. rewrite Hlive by lia. destruct (w =? u) eqn:E; [|exact Hwl].
    assert (w = u) by lia. subst w. destruct Hw as [_ Hw]. congruence.
Qed.

Lemma remove_vertices_spec : forall k us acc, (1 <= k)%nat -> cinv k acc [] ->
  (forall u, In u us -> 0 <= u < pow4 k) ->
  exists acc', remove_vertices k acc us = Ok acc' /\ cinv k acc' [] /\
    (forall w, 0 <= w < pow4 k -> live_set acc' w = true -> live_set acc w = true) /\
    (forall u, In u us -> live_set acc' u = false) /\
    (forall Y, closed_deg k 1 Y -> (forall u, In u us -> Y u = false) ->
               vsub k Y (live_set acc) -> vsub k Y (live_set acc')).
Proof.
  intros k. induction us as [|u us IH]; intros acc Hk Hc Hr.
  - exists acc. split; [reflexivity|]. split; [exact Hc|]. split; [intros w _ H; exact H|].
    split; [intros u []|]. intros Y _ _ H. exact H.
  - cbn [remove_vertices].
    destruct (remove_vertex_spec k acc u Hk Hc (Hr u (or_introl eq_refl))) as [acc1 [E1 [C1 [M1 [D1 Y1]]]]].
    rewrite E1. cbn [bind].
    destruct (IH acc1 Hk C1 (fun w Hw => Hr w (or_intror Hw))) as [acc2 [E2 [C2 [M2 [D2 Y2]]]]].
    exists acc2. split; [exact E2|]. split; [exact C2|]. split; [|split].
    + intros w Hw H. apply M1; [exact Hw|]. apply M2; assumption.
    + intros w [->|Hw]; [|apply D2; exact Hw].
      destruct (live_set acc2 w) eqn:E; [|reflexivity].
      rewrite (M2 w (Hr w (or_introl eq_refl)) E) in D1. discriminate.
    + intros Y HY HYu Hs. apply Y2; [exact HY | intros w Hw; apply HYu; right; exact Hw|].
      apply Y1; [exact HY | apply HYu; left; reflexivity | exact Hs].
Qed.

(* ======================================================================================== *)
(* part C: the listed vertices, and the vertices that reach a branching vertex              *)
(* ======================================================================================== *)
Lemma listed_from_filter : forall acc s,
  listed_from acc s =
    filter (fun v => row_listed (nth (Z.to_nat (v - s)) acc empty_row)) (zrange_from s (length acc)).
Proof.
  induction acc as [|row t IH]; intros s; [reflexivity|].
  cbn [listed_from length zrange_from filter]. replace (s - s) with 0 by lia.
  change (Z.to_nat 0) with 0%nat. cbn [nth]. rewrite IH.
  assert (He : filter (fun v => row_listed (nth (Z.to_nat (v - (s + 1))) t empty_row)) (zrange_from (s + 1) (length t))
             = filter (fun v => row_listed (nth (Z.to_nat (v - s)) (row :: t) empty_row)) (zrange_from (s + 1) (length t))).
  { apply filter_ext_in_Z. intros v Hv. apply zrange_from_In in Hv.
    replace (Z.to_nat (v - s)) with (S (Z.to_nat (v - (s + 1)))) by lia. reflexivity. }
  rewrite He. destruct (row_listed row); reflexivity.
Qed.

Lemma obtain_vertices_filter : forall k acc, length acc = Z.to_nat (pow4 k) ->
  obtain_vertices acc = filter (live_set acc) (vertices_of k).
Proof.
  intros k acc Hl. unfold obtain_vertices. rewrite listed_from_filter, Hl. unfold vertices_of, zrange.
  apply filter_ext_in_Z. intros v _. rewrite Z.sub_0_r. reflexivity.
Qed.

Lemma memZ_In : forall x l, memZ x l = true <-> In x l.
Proof.
  intros x. induction l as [|y ys IH]; cbn [memZ In]; [split; [discriminate | contradiction]|].
  rewrite orb_true_iff, IH. split; (intros [H|H]; [left; lia | right; exact H]).
Qed.

Definition uget (U : list bool) (v : Z) : bool := nth (Z.to_nat v) U false.
Definition ustep_val (acc : accessor) (U : list bool) (v : Z) : bool :=
  uget U v || existsb (uget U) (live_entries (get_row acc v)).

Lemma useful_step_eq : forall acc listed U,
  useful_step acc listed U = fold_left (fun r v => set_nth r (Z.to_nat v) (ustep_val acc U v)) listed U.
Proof. reflexivity. Qed.

Lemma fold_set_nth : forall (g : Z -> bool) l r0, (forall v, In v l -> 0 <= v < Z.of_nat (length r0)) ->
  length (fold_left (fun r v => set_nth r (Z.to_nat v) (g v)) l r0) = length r0 /\
  forall w, 0 <= w ->
    nth (Z.to_nat w) (fold_left (fun r v => set_nth r (Z.to_nat v) (g v)) l r0) false
      = if memZ w l then g w else nth (Z.to_nat w) r0 false.
Proof.
  intros g. induction l as [|x xs IH]; intros r0 Hr; cbn [fold_left memZ].
  - split; [reflexivity|]. intros w _. reflexivity.
  - assert (Hr' : forall v, In v xs -> 0 <= v < Z.of_nat (length (set_nth r0 (Z.to_nat x) (g x)))).
    { intros v Hv. rewrite set_nth_length. apply Hr. right. exact Hv. }
    destruct (IH _ Hr') as [Hlen Hnth]. split; [rewrite Hlen; apply set_nth_length|].
    intros w Hw. rewrite (Hnth w Hw). destruct (memZ w xs); [rewrite orb_true_r; reflexivity|].
    rewrite orb_false_r. pose proof (Hr x (or_introl eq_refl)) as Hx.
    destruct (w =? x) eqn:E.
    + assert (w = x) by lia. subst w. apply nth_set_nth_eq. lia.
    + apply nth_set_nth_neq. lia.
Qed.

Lemma list_bool_eqb_eq : forall a b, list_bool_eqb a b = true -> a = b.
Proof.
  induction a as [|x a IH]; intros b H; destruct b as [|y b]; cbn [list_bool_eqb] in H; try discriminate; [reflexivity|].
  apply andb_true_iff in H. destruct H as [H1 H2]. apply Bool.eqb_prop in H1. rewrite H1, (IH b H2). reflexivity.
Qed.

Lemma list_bool_eqb_refl : forall a, list_bool_eqb a a = true.
Proof. induction a as [|x a IH]; cbn [list_bool_eqb]; [reflexivity|]. rewrite Bool.eqb_reflx, IH. reflexivity. Qed.

Definition cfalse (l : list bool) : nat := length (filter negb l).

Lemma cfalse_bound : forall l, (cfalse l <= length l)%nat.
Proof.
  unfold cfalse. induction l as [|x xs IH]; cbn [filter length]; [lia|]. destruct (negb x); cbn [length]; lia.
Qed.

Lemma cfalse_le : forall a b, length a = length b -> (forall i, nth i a false = true -> nth i b false = true) ->
  (cfalse b <= cfalse a)%nat /\ (cfalse b = cfalse a -> a = b).
Proof.
  unfold cfalse. induction a as [|x a IH]; intros b Hl H; destruct b as [|y b]; cbn [length] in Hl; try discriminate.
  - split; [lia | reflexivity].
  - assert (Hl' : length a = length b) by lia.
    assert (H' : forall i, nth i a false = true -> nth i b false = true) by (intros i; apply (H (S i))).
    destruct (IH b Hl' H') as [Hle Heq]. pose proof (H 0%nat) as H0. cbn [nth] in H0.
    destruct x, y; cbn [filter negb length].
    + split; [exact Hle|]. intros He. rewrite (Heq He). reflexivity.
    + discriminate (H0 eq_refl).
    + split; [lia|]. intros He. lia.
    + split; [lia|]. intros He. rewrite (Heq ltac:(lia)). reflexivity.
Qed.

Lemma useful_fix_spec : forall fuel acc listed U0,
  (forall v, In v listed -> 0 <= v < Z.of_nat (length U0)) -> (cfalse U0 < fuel)%nat ->
  exists U, useful_fix fuel acc listed U0 = Ok U /\ length U = length U0 /\
    (forall w, 0 <= w -> uget U0 w = true -> uget U w = true) /\
    (forall v, In v listed -> ustep_val acc U v = uget U v) /\
    (forall P : Z -> Prop, (forall w, 0 <= w -> uget U0 w = true -> P w) ->
       (forall v l, In v listed -> In l (live_entries (get_row acc v)) -> P l -> P v) ->
       forall w, 0 <= w -> uget U w = true -> P w).
Proof.
  induction fuel as [|f IH]; intros acc listed U0 Hr Hf; [lia|].
  cbn [useful_fix]. rewrite useful_step_eq.
  destruct (fold_set_nth (ustep_val acc U0) listed U0 Hr) as [Hlen Hnth].
  set (reached := fold_left (fun r v => set_nth r (Z.to_nat v) (ustep_val acc U0 v)) listed U0) in *.
  destruct (list_bool_eqb reached U0) eqn:E.
  - apply list_bool_eqb_eq in E. exists U0. split; [reflexivity|]. split; [reflexivity|].
    split; [intros w _ H; exact H|]. split.
    + intros v Hv. pose proof (Hr v Hv) as Hvr. pose proof (Hnth v ltac:(lia)) as Hn.
      rewrite (proj2 (memZ_In v listed) Hv) in Hn. rewrite E in Hn. symmetry. exact Hn.
    + intros P Hb _ w Hw H. apply Hb; assumption.
  - assert (Hsub : forall w, 0 <= w -> uget U0 w = true -> uget reached w = true).
    { intros w Hw H. unfold uget. rewrite (Hnth w Hw). destruct (memZ w listed); [|exact H].
      unfold ustep_val. rewrite H. reflexivity. }
    assert (Hsubn : forall i, nth i U0 false = true -> nth i reached false = true).
    { intros i H. pose proof (Hsub (Z.of_nat i) ltac:(lia)) as Hs. unfold uget in Hs. rewrite Nat2Z.id in Hs. apply Hs. exact H. }
    destruct (cfalse_le U0 reached (eq_sym Hlen) Hsubn) as [Hle Heq].
    assert (Hne : cfalse reached <> cfalse U0).
    { intros Hc. rewrite <- (Heq Hc) in E. rewrite list_bool_eqb_refl in E. discriminate. }
    assert (Hr' : forall v, In v listed -> 0 <= v < Z.of_nat (length reached)) by (rewrite Hlen; exact Hr).
    destruct (IH acc listed reached Hr' ltac:(lia)) as [U [EU [HUl [HUs [HUf HUP]]]]].
    exists U. split; [exact EU|]. split; [congruence|]. split; [|split; [exact HUf|]].
    + intros w Hw H. apply HUs; [exact Hw|]. apply Hsub; assumption.
    + intros P Hb Hst. apply HUP; [|exact Hst].
      intros w Hw H. unfold uget in H. rewrite (Hnth w Hw) in H.
      destruct (memZ w listed) eqn:Em; [|apply Hb; assumption].
      unfold ustep_val in H. apply orb_true_iff in H. destruct H as [H|H]; [apply Hb; assumption|].
      apply existsb_exists in H. destruct H as [l [Hl Hul]].
      apply (Hst w l); [apply memZ_In; exact Em | exact Hl|].
      apply Hb; [|exact Hul]. unfold live_entries in Hl. apply filter_In in Hl. lia.
Qed.

(* ======================================================================================== *)
(* part C: one round of the threshold-1 loop, the loop, and the theorem                     *)
(* ======================================================================================== *)
Lemma uget_init : forall (acc : accessor) w, 0 <= w -> uget (map (fun r => 1 <? out_degree r) acc) w = true ->
  0 <= w < Z.of_nat (length acc) /\ 1 < out_degree (get_row acc w).
Proof.
  intros acc w Hw H. unfold uget in H.
  destruct (Nat.lt_ge_cases (Z.to_nat w) (length acc)) as [Hlt|Hge].
  - rewrite (nth_map_lt _ _ (fun r => 1 <? out_degree r) acc _ false empty_row Hlt) in H.
    split; [lia|]. unfold get_row. lia.
  - rewrite nth_overflow in H by (rewrite map_length; exact Hge). discriminate.
Qed.

Lemma uget_init_true : forall (acc : accessor) w, 0 <= w < Z.of_nat (length acc) -> 1 < out_degree (get_row acc w) ->
  uget (map (fun r => 1 <? out_degree r) acc) w = true.
Proof.
  intros acc w Hw H. unfold uget.
  rewrite (nth_map_lt _ _ (fun r => 1 <? out_degree r) acc _ false empty_row) by lia.
  unfold get_row in H. lia.
Qed.

Section Good.
Variable k : nat.
Variable acc : accessor.
Hypothesis Hg : acc = induced_on k (live_set acc).

Lemma good_legal : legal k acc.
Proof. rewrite Hg. apply induced_on_legal. Qed.

Lemma good_row : forall v, 0 <= v < pow4 k -> get_row acc v = on_row k (live_set acc) v.
Proof. intros v Hv. pose proof (get_row_induced_on k (live_set acc) v Hv) as H. rewrite <- Hg in H. exact H. Qed.

Lemma good_live_entries : forall v, 0 <= v < pow4 k -> live_set acc v = true ->
  live_entries (get_row acc v) = filter (live_set acc) (obtain_latters v k).
Proof.
  intros v Hv Hl. rewrite good_row by exact Hv. unfold on_row. rewrite Hl.
  apply live_entries_sel. apply latters_nonneg.
Qed.

Lemma good_outdeg : forall v, 0 <= v < pow4 k -> live_set acc v = true ->
  out_degree (get_row acc v) = succ_count k (live_set acc) v.
Proof.
  intros v Hv Hl. unfold out_degree. rewrite good_live_entries by assumption. reflexivity.
Qed.

Lemma good_closed_deg : closed_deg k 1 (live_set acc).
Proof.
  intros v [Hv Hl]. pose proof (live_set_induced_on k (live_set acc) v Hv) as H.
  rewrite <- Hg in H. rewrite Hl in H. cbn [andb] in H. lia.
Qed.

Lemma useful_round :
  exists U, useful_fix (S (length acc)) acc (filter (live_set acc) (vertices_of k))
                       (map (fun r => 1 <? out_degree r) acc) = Ok U /\
    (forall w, 0 <= w -> uget U w = true -> reach_branch k (live_set acc) w) /\
    (forall Y, closed k 1 Y -> vsub k Y (live_set acc) -> forall v, vin k Y v -> uget U v = true).
Proof.
  pose proof good_legal as HL. pose proof HL as [Hlen _].
  set (X := live_set acc). set (listed := filter X (vertices_of k)).
  set (U0 := map (fun r => 1 <? out_degree r) acc).
  assert (Hlisted : forall v, In v listed <-> vin k X v).
  { intros v. unfold listed. rewrite filter_In, In_vertices. unfold vin. tauto. }
  assert (Hr : forall v, In v listed -> 0 <= v < Z.of_nat (length U0)).
  { intros v Hv. apply Hlisted in Hv. destruct Hv as [Hv _]. unfold U0. rewrite map_length. lia. }
  assert (Hf : (cfalse U0 < S (length acc))%nat).
  { pose proof (cfalse_bound U0) as H. unfold U0 in H at 2. rewrite map_length in H. lia. }
  destruct (useful_fix_spec (S (length acc)) acc listed U0 Hr Hf) as [U [EU [HUl [HUs [HUf HUP]]]]].
  exists U. split; [exact EU|]. split.
  - apply (HUP (reach_branch k X)).
    + intros w Hw H. apply uget_init in H; [|exact Hw]. destruct H as [Hwr Hd].
      assert (Hwk : 0 <= w < pow4 k) by lia.
      assert (Hlw : X w = true).
      { unfold X. rewrite (live_set_outdeg k acc w HL Hwk). unfold outdeg. lia. }
      apply rb_here; [split; assumption|]. unfold X. rewrite <- good_outdeg by assumption. lia.
    + intros v l Hv Hl Hrl. apply Hlisted in Hv. destruct Hv as [Hvr Hvl].
      rewrite good_live_entries in Hl by assumption. apply filter_In in Hl. destruct Hl as [Hl1 Hl2].
      apply (rb_step k X v l); [split; assumption | exact Hl1 | | exact Hrl].
      split; [apply (latters_range k v l Hl1) | exact Hl2].
  - intros Y [HYc HYr] HYs v Hv. specialize (HYr eq_refl v Hv).
    induction HYr as [v Hv' Hs | v w Hv' Hw Hwin Hrw IH].
    + destruct (HYs v Hv) as [Hvr Hvl]. apply HUs; [lia|]. apply uget_init_true; [lia|].
      rewrite good_outdeg by assumption. pose proof (succ_count_mono k Y (live_set acc) v HYs). lia.
    + destruct (HYs v Hv) as [Hvr Hvl]. destruct (HYs w Hwin) as [Hwr Hwl].
      rewrite <- (HUf v) by (apply Hlisted; split; assumption).
      unfold ustep_val. apply orb_true_iff. right. apply existsb_exists. exists w. split.
      * rewrite good_live_entries by assumption. apply filter_In. split; assumption.
      * apply IH. exact Hwin.
Qed.
End Good.

Lemma filter_nil_all : forall (P : Z -> bool) L x, filter P L = [] -> In x L -> P x = false.
Proof.
  intros P L x H Hin. destruct (P x) eqn:E; [|reflexivity].
  assert (Hf : In x (filter P L)) by (apply filter_In; split; assumption). rewrite H in Hf. contradiction.
Qed.

Lemma threshold1_spec : forall fuel k acc, (1 <= k)%nat -> acc = induced_on k (live_set acc) ->
  (lcount k acc < fuel)%nat ->
  match threshold1_fuel fuel k acc with
  | Ok (V, acc') => acc' = induced_on k (live_set acc') /\
       (forall w, 0 <= w < pow4 k -> live_set acc' w = true -> live_set acc w = true) /\
       (forall Y, closed k 1 Y -> vsub k Y (live_set acc) -> vsub k Y (live_set acc')) /\
       (forall v, vin k (live_set acc') v -> reach_branch k (live_set acc') v) /\
       (forall v, In v V <-> vin k (live_set acc') v) /\ (exists v, vin k (live_set acc') v)
  | Raise ValueError => forall Y, closed k 1 Y -> vsub k Y (live_set acc) -> vempty k Y
  | _ => False
  end.
Proof.
  induction fuel as [|fuel IH]; intros k acc Hk Hg Hf; [lia|].
  pose proof (good_legal k acc Hg) as HL. pose proof HL as [Hlen _].
  cbn [threshold1_fuel]. rewrite (obtain_vertices_filter k acc Hlen).
  assert (Hlisted : forall v, In v (filter (live_set acc) (vertices_of k)) <-> vin k (live_set acc) v).
  { intros v. rewrite filter_In, In_vertices. unfold vin. tauto. }
  destruct (useful_round k acc Hg) as [U [EU [Hsound Hcompl]]].
  destruct (filter (live_set acc) (vertices_of k)) as [|v0 vs] eqn:Elisted.
  - intros Y _ Hs v Hv. apply (Hlisted v). apply Hs. exact Hv.
  - cbv iota. rewrite EU. cbn [bind].
    set (listed := v0 :: vs) in *.
    set (useless := filter (fun v => negb (nth (Z.to_nat v) U false)) listed).
    assert (Huseless : forall u, In u useless -> vin k (live_set acc) u /\ uget U u = false).
    { intros u Hu. unfold useless in Hu. apply filter_In in Hu. destruct Hu as [Hu1 Hu2].
      split; [apply Hlisted; exact Hu1|]. unfold uget. destruct (nth (Z.to_nat u) U false); [discriminate | reflexivity]. }
    destruct useless as [|u us] eqn:Euseless.
    + split; [exact Hg|]. split; [intros w _ H; exact H|]. split; [intros Y _ H; exact H|].
      split; [|split; [exact Hlisted|]].
      * intros v Hv. apply Hsound; [destruct Hv; lia|].
        pose proof (filter_nil_all _ _ v Euseless (proj2 (Hlisted v) Hv)) as H. cbv beta in H.
        unfold uget. destruct (nth (Z.to_nat v) U false); [reflexivity | discriminate].
      * exists v0. apply Hlisted. left. reflexivity.
    + rewrite <- Euseless in *. clearbody useless.
      assert (Hur : forall w, In w useless -> 0 <= w < pow4 k).
      { intros w Hw. destruct (Huseless w Hw) as [[H _] _]. exact H. }
      destruct (remove_vertices_spec k useless acc Hk (good_cinv_nil k acc Hg) Hur) as [acc1 [E1 [C1 [M1 [D1 Y1]]]]].
      rewrite E1. cbn [bind].
      assert (Hg1 : acc1 = induced_on k (live_set acc1)) by (apply cinv_nil_good; exact C1).
      assert (Hu : In u useless) by (rewrite Euseless; left; reflexivity).
      destruct (Huseless u Hu) as [[Hur' Hul] _].
      pose proof (lcount_lt k acc acc1 u M1 Hur' Hul (D1 u Hu)) as Hlt.
      assert (HY1 : forall Y, closed k 1 Y -> vsub k Y (live_set acc) -> vsub k Y (live_set acc1)).
      { intros Y HY Hs. destruct HY as [HYc HYr]. apply Y1; [exact HYc | | exact Hs].
        intros w Hw. destruct (Huseless w Hw) as [[Hwr _] Hwu].
        destruct (Y w) eqn:EY; [|reflexivity].
        rewrite (Hcompl Y (conj HYc HYr) Hs w (conj Hwr EY)) in Hwu. discriminate. }
      specialize (IH k acc1 Hk Hg1 ltac:(lia)).
      destruct (threshold1_fuel fuel k acc1) as [[V acc2]|e|]; [|destruct e|]; try exact IH.
      * destruct IH as [G2 [M2 [Y2 [R2 [V2 X2]]]]].
        split; [exact G2|]. split; [|split; [|split; [exact R2|split; [exact V2 | exact X2]]]].
        -- intros w Hw H. apply M1; [exact Hw|]. apply M2; assumption.
        -- intros Y HY Hs. apply Y2; [exact HY|]. apply HY1; assumption.
      * intros Y HY Hs. apply IH; [exact HY|]. apply HY1; assumption.
Qed.

Theorem coding_graph_t1 : forall k mask, (1 <= k)%nat -> length mask = Z.to_nat (pow4 k) -> Forall bit mask ->
  match connect_coding_graph k mask 1 with
  | Ok (V, acc) => largest_closed k 1 (maskb mask) (live_set acc)
                   /\ acc = induced_on k (live_set acc) /\ legal k acc
                   /\ (forall v, In v V <-> vin k (live_set acc) v)
                   /\ (exists v, vin k (live_set acc) v)
  | Raise ValueError => forall Y, closed k 1 Y -> vsub k Y (maskb mask) -> vempty k Y
  | _ => False
  end.
Proof.
  intros k mask Hk Hl Hb. unfold connect_coding_graph.
  pose proof (trim_spec k 1 mask Hk Hl Hb ltac:(lia)) as HT.
  destruct (trim_fuel (S (length mask)) k 1 mask) as [m|e|]; cbn [bind].
  - destruct HT as [Hmb [Hml [Hcd [Hsub [Hmax [v0 Hv0]]]]]].
    assert (Hpos : (0 <? sumZ m) = true).
    { destruct (0 <? sumZ m) eqn:E; [reflexivity|]. destruct Hv0 as [_ Hv0].
      rewrite (mask_zero_empty m Hmb) in Hv0 by lia. discriminate. }
    rewrite Hpos. change (1 =? 1) with true. cbv iota.
    destruct (trimmed_graph k 1 mask m ltac:(lia) Hcd Hsub Hmax) as [Hveq Hacc].
    pose proof (veq_sym _ _ _ Hveq) as Hveq'.
    set (acc := induced k m) in *.
    assert (Hlen : length acc = Z.to_nat (pow4 k)) by apply induced_shape.
    assert (Hfuel : (lcount k acc < S (length acc))%nat) by (pose proof (lcount_bound k acc); lia).
    pose proof (threshold1_spec (S (length acc)) k acc Hk Hacc Hfuel) as HS.
    assert (HYin : forall Y, closed k 1 Y -> vsub k Y (maskb mask) -> vsub k Y (live_set acc)).
    { intros Y [HYc _] HYs v Hv. apply (vin_ext k _ _ v Hveq'). apply (Hmax Y HYc HYs v Hv). }
    destruct (threshold1_fuel (S (length acc)) k acc) as [[V acc']|e|]; [|destruct e|]; try exact HS.
    + destruct HS as [G [M [HY [R [HV HX]]]]].
      split; [|split; [exact G|split; [rewrite G; apply induced_on_legal|split; [exact HV | exact HX]]]].
      split; [|split].
      * split; [apply (good_closed_deg k acc' G)|]. intros _. exact R.
      * intros v [Hvr Hvl]. apply Hsub. apply (vin_ext k _ _ v Hveq). split; [exact Hvr|]. apply M; assumption.
      * intros Y HYc HYs. apply HY; [exact HYc|]. apply HYin; assumption.
    + intros Y HYc HYs. apply HS; [exact HYc|]. apply HYin; assumption.
  - destruct e; try exact HT. intros Y [HYc _] HYs. apply HT; assumption.
  - exact HT.
Qed.

Print Assumptions trim_spec.
Print Assumptions coding_graph_t2.
Print Assumptions largest_closed_monotone.
Print Assumptions largest_closed_unique.
Print Assumptions induced_on_closed_live.
Print Assumptions coding_graph_t1.
