(* CapacityTermProofs.v -- C17: the power iteration of approximate_capacity always stops: at most maximum_iteration + 2 matrix-
   vector products per repeat (the fuel S (S maxit) of the model is never exhausted), whatever the graph, the tolerance and the
   start vectors. *)
From Coq Require Import ZArith List Bool Lia PrimFloat.
From DSW Require Capacity.
Import ListNotations.

(* TARGET STATEMENTS (to be proved, do not change the statements):

(* general form: fuel + (queue length) >= maxit + 1 suffices once the first iteration is done; + 2 before it *)
(* FALSE AS WRITTEN (see power_loop_terminates_counterexample below): with last = Some _ and a queue already longer than
   maxit, the truncated subtraction maxit + 1 - length queue is 0, so fuel = 0 satisfies the hypothesis, but power_loop 0 = None
   (one more iteration is always needed).  Proved instead: power_loop_terminates_partial, the same statement with the extra
   hypothesis 1 <= fuel (implied by the original hypothesis whenever last = None or length queue <= maxit).
Theorem power_loop_terminates : forall fuel acc tol maxit x last queue record,
  (match last with None => maxit + 2 | Some _ => maxit + 1 - length queue end <= fuel)%nat ->
  exists res rec, Capacity.power_loop fuel acc tol maxit x last queue record = Some (res, rec)
                  /\ (1 <= length res <= 2)%nat.
*)
*)

(* counterexample to the original power_loop_terminates: fuel 0, maxit 0, last = Some 1, queue = [1] *)
Lemma power_loop_terminates_counterexample :
  (match Some 1%float with None => 0 + 2 | Some _ => 0 + 1 - length [1%float] end <= 0)%nat /\
  Capacity.power_loop 0 [] 0%float 0 [] (Some 1%float) [1%float] [] = None.
Proof. split; [cbn [length]; lia | reflexivity]. Qed.

Theorem power_loop_terminates_partial : forall fuel acc tol maxit x last queue record,
  (match last with None => maxit + 2 | Some _ => maxit + 1 - length queue end <= fuel)%nat ->
  (1 <= fuel)%nat ->
  exists res rec, Capacity.power_loop fuel acc tol maxit x last queue record = Some (res, rec)
                  /\ (1 <= length res <= 2)%nat.
Proof.
  induction fuel as [|f IH]; intros acc tol maxit x last queue record H H1.
  - lia.
  - cbn [Capacity.power_loop].
    destruct last as [l0|].
    + destruct (_ <? tol)%float eqn:E1;
        destruct (Nat.ltb maxit (length (queue ++ [_]))) eqn:E2; cbn [orb].
      * eexists; eexists; split; [reflexivity | cbn [length app]; lia].
      * eexists; eexists; split; [reflexivity | cbn [length app]; lia].
      * eexists; eexists; split; [reflexivity | cbn [length app]; lia].
      * apply Nat.ltb_ge in E2. rewrite app_length in E2. cbn [length] in E2.
        apply IH; rewrite ?app_length; cbn [length]; lia.
    + apply IH; lia.
Qed.

Lemma repeats_loop_spec : forall acc tol maxit starts,
  exists res recs, Capacity.repeats_loop acc tol maxit starts = Some (res, recs)
    /\ length recs = length starts
    /\ (length starts <= length res <= 2 * length starts)%nat.
Proof.
  intros acc tol maxit starts.
  induction starts as [|x0 rest IH].
  - exists [], []. cbn [Capacity.repeats_loop length]. split; [reflexivity | lia].
  - destruct IH as (res' & recs & E & Hl & Hr).
    destruct (power_loop_terminates_partial (S (S maxit)) acc tol maxit
                (Capacity.zero_dead acc (map abs x0)) None [] [])
      as (res & rec & Ep & Hp); [lia | lia |].
    exists (res ++ res'), (rec :: recs).
    cbn [Capacity.repeats_loop]. rewrite Ep, E.
    split; [reflexivity |].
    rewrite app_length. cbn [length]. lia.
Qed.

Theorem approximate_capacity_terminates : forall acc tol maxit starts,
  exists r, Capacity.approximate_capacity acc tol maxit starts = Some r.
Proof.
  intros acc tol maxit starts. unfold Capacity.approximate_capacity.
  destruct (Capacity.all_minus_one acc).
  - eexists; reflexivity.
  - destruct (repeats_loop_spec acc tol maxit starts) as (res & recs & E & _).
    rewrite E. eexists; reflexivity.
Qed.

(* the number of reported estimates: one or two per repeat (two when the tolerance test and the iteration cap fire together) *)
Theorem approximate_capacity_results : forall acc tol maxit starts res recs,
  Capacity.approximate_capacity acc tol maxit starts = Some (Some (res, recs)) ->
  length recs = length starts /\ (length starts <= length res <= 2 * length starts)%nat.
Proof.
  intros acc tol maxit starts res recs H. unfold Capacity.approximate_capacity in H.
  destruct (Capacity.all_minus_one acc); [discriminate |].
  destruct (repeats_loop_spec acc tol maxit starts) as (res0 & recs0 & E & Hl & Hr).
  rewrite E in H. injection H as <- <-. split; assumption.
Qed.

Print Assumptions power_loop_terminates_counterexample.
Print Assumptions power_loop_terminates_partial.
Print Assumptions approximate_capacity_terminates.
Print Assumptions approximate_capacity_results.
